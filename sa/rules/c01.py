"""C01  Upstream work always finishes before dependent work is released."""

import ast

from .. import AnalysisError
from ..flow import Flow
from ..report import Report
from ..util import where, norm, calls_to, get_key, names_in, call_name
from ..variants import V
from .. import wsa
from . import shared

PID = 'C01'

BLOCKERS = ('tau_is_all', 'all_in_dep_todo', 'all_in_dep_doing', 'tau_in_dep_todo', 'tau_in_dep_doing')


def rule1(ctx, rep, ra=None):
    prog = ctx.prog
    f = prog.nfunc('dawgie.pl.schedule.next_job_batch')
    rep.analysed(f)
    with rep.rule(
        'R-C01-1',
        'release filter truth table: any blocking atom of a queued transitive ancestor true => the pending target is not moved to do/doing',
        floor=20,
        breaks='a dependent is released while an upstream algorithm still has the target (or an all-targets run) pending or executing',
    ) as r:
        ra = ra or wsa.release_analysis(prog, f)
        r.extra['truth_table_rows'] = len(ra['results'])
        r.extra['abstract_steps'] = ra['visited']
        # the dependency loop must range over queued *transitive ancestors* (ancestry), not parents
        r.instance()
        r.check(
            bool(ra['dep_iters']),
            f'{f.qname}:ancestor-iteration',
            where(f, ra['outer']),
            'dependencies iterated: ' + '; '.join(sorted({norm(i) for i in ra['dep_iters']})),
            "no loop over the job's 'ancestry' intersected with the queue was found: the filter does not look at transitive ancestors",
        )
        for it in {norm(i): i for i in ra['dep_iters']}.values():
            srcs = {prog.resolve_in(x, f) for x in ast.walk(it) if isinstance(x, (ast.Name, ast.Attribute))}
            queued = wsa.QUE in srcs or any(
                isinstance(x, ast.Name) and shared.built_from_que(prog, f, x.id) for x in ast.walk(it)
            )
            r.check(
                queued,
                f'{f.qname}:ancestors-restricted-to-queue:{norm(it)}',
                where(f, it),
                'ancestor tags intersected with the queued jobs',
                f'dependency iterable {norm(it)} is not restricted to queued jobs (find() would fail / wrong set)',
            )
        for bits, res in sorted(ra['results'].items()):
            rho = res['rho']
            if rho['tau_in_own_doing']:
                continue  # C03's atom; evaluated there
            r.instance()
            name = ','.join(a for a in BLOCKERS if rho[a]) or 'none'
            key = f'{f.qname}:blockers[{name}]'
            if res['problems']:
                u = res['problems'][0]
                r.fail(key, where(f, u.node), u.msg)
                continue
            if not res['finals']:
                r.fail(key, where(f), 'no path through the (ancestor, target) iteration reaches the end of the job loop: filter structure not understood')
                continue
            blocked = any(rho[a] for a in BLOCKERS)
            if blocked:
                r.check(
                    not res['released'],
                    key,
                    where(f, ra['outer']),
                    'target withheld on every path',
                    f'with {name} true for a queued transitive ancestor the pending target is still moved to {sorted(res["released"])}',
                )
            else:
                r.ok(key, 'nothing blocks: evaluated under R-C04-2', where(f, ra['outer']), nontrivial=False)
        # what is moved to do/doing is one and the same candidate set, and it leaves todo
        sites = {}
        for res in ra['results'].values():
            for call, kind, st, m in res['release_sites']:
                sites[(call.lineno, call.col_offset)] = (call, kind)
        kinds = sorted({k for _c, k in sites.values()})
        r.instance()
        r.check(
            kinds == ['do', 'doing'],
            f'{f.qname}:release-sets',
            where(f),
            'released targets are added to both do and doing',
            f'released targets are added to {kinds}, expected both do (for the farm) and doing (for the filter)',
        )
        args = {norm(c.args[0]) for c, _k in sites.values() if c.args}
        r.check(
            len(args) == 1,
            f'{f.qname}:release-same-set',
            where(f),
            f'do and doing receive the same set {sorted(args)}',
            f'do and doing receive different sets {sorted(args)}',
        )
        allrel = [res for res in ra['results'].values() if res['released']]
        r.check(
            all(res['untodo_when_released'] for res in allrel) and bool(allrel),
            f'{f.qname}:released-leaves-todo',
            where(f),
            'a released target is removed from todo on every path',
            'a released target can stay in todo (it would be released again by the next batch)',
        )
    return ra


def rule2(ctx, rep):
    """sole release path"""
    prog, cg = ctx.prog, ctx.cg
    with rep.rule(
        'R-C01-2',
        'sole release path: only next_job_batch grows do/doing; only dispatch calls _put; task messages only for jobs of the batch',
        floor=8,
        breaks='work reaches the farm without having passed the release filter',
    ) as r:
        ops = wsa.all_ops(prog)
        r.extra['workset_ops_in_program'] = len(ops)
        for op in ops:
            if op.kind in ('do', 'doing') and op.op in wsa.GROW:
                r.instance()
                rep.analysed(op.func)
                empty_init = op.op == 'assign' and norm(op.args[0]) in ('set()', 'dawgie.util.fifo.Unique()')
                r.check(
                    op.func.qname == 'dawgie.pl.schedule.next_job_batch'
                    or empty_init
                    or shared.only_called_from(cg, op.func.qname, {'dawgie.pl.schedule.next_job_batch'}),
                    f'{op.func.qname}:{norm(op.node)}',
                    op.where,
                    'growth of do/doing inside the release function (or initialisation with an empty set)',
                    f'{op.func.qname} adds to the {op.kind} set outside schedule.next_job_batch: {norm(op.node)}',
                )
        put = prog.nfunc('dawgie.pl.farm._put')
        disp = prog.nfunc('dawgie.pl.farm.dispatch')
        rep.analysed(put, disp)
        for e in cg.callers(put.qname):
            r.instance()
            r.check(
                e.kind == 'direct' and (e.src.qname == disp.qname or shared.only_called_from(cg, e.src.qname, {disp.qname})),
                f'{e.src.qname}:calls-_put',
                where(e.src, e.call),
                'only farm.dispatch calls _put',
                f'{e.src.qname} calls farm._put ({e.kind}); task messages must be made by dispatch from a released batch only',
            )
        # message queues: who appends
        farm = prog.module('dawgie.pl.farm')
        allowed = {
            'dawgie.pl.farm._cluster': {'dawgie.pl.farm._put': {'append'}, 'dawgie.pl.farm.dispatch': {'extend'}},
            'dawgie.pl.farm._cloud': {'dawgie.pl.farm._put': {'append'}, 'dawgie.pl.farm.dispatch': {'extend'}},
            'dawgie.pl.farm._reject': {'dawgie.pl.farm._move': {'append'}},
            'dawgie.pl.farm._repeat': {'dawgie.pl.farm._move': {'append'}},
            'dawgie.pl.farm._jobs': {'dawgie.pl.farm.dispatch': {'extend'}},
        }
        for fn in prog.funcs.values():
            for c in fn.calls():
                if isinstance(c.func, ast.Attribute) and c.func.attr in ('append', 'extend', 'insert', '__iadd__'):
                    tgt = shared.resolve_container(prog, fn, c.func.value)
                    if tgt in allowed:
                        r.instance()
                        ok = c.func.attr in allowed[tgt].get(fn.qname, ()) or any(
                            c.func.attr in okops and shared.only_called_from(cg, fn.qname, {owner}) for owner, okops in allowed[tgt].items()
                        )
                        r.check(
                            ok,
                            f'{fn.qname}:{norm(c)}',
                            where(fn, c),
                            f'{tgt.rsplit(".", 1)[1]} grown by its owner',
                            f'{fn.qname} grows {tgt} ({norm(c)}): released-message queues may only be filled by _put / the dispatch recycling',
                        )
        # dispatch recycling sources: _cluster.extend(_reject) and _cloud.extend(_repeat) only
        from ..inline import normalised

        disp = normalised(prog, disp)  # helpers extracted from dispatch are analysed in place
        for c in disp.calls():
            if isinstance(c.func, ast.Attribute) and c.func.attr == 'extend':
                tgt = shared.resolve_container(prog, disp, c.func.value)
                if tgt in ('dawgie.pl.farm._cluster', 'dawgie.pl.farm._cloud', 'dawgie.pl.farm._jobs'):
                    src = c.args[0]
                    want = {
                        'dawgie.pl.farm._cluster': 'dawgie.pl.farm._reject',
                        'dawgie.pl.farm._cloud': 'dawgie.pl.farm._repeat',
                    }.get(tgt)
                    if tgt == 'dawgie.pl.farm._jobs':
                        ok = isinstance(src, ast.Call) and prog.resolve_in(src.func, disp) == 'dawgie.pl.schedule.next_job_batch'
                        msg = '_jobs is extended with something else than schedule.next_job_batch()'
                    else:
                        ok = shared.resolve_container(prog, disp, src) == want
                        msg = f'{tgt} is extended from {norm(src)}, expected the recycled messages {want}'
                    r.check(ok, f'{disp.qname}:{norm(c)}', where(disp, c), 'recycling source ok', msg)
        # _put arguments in dispatch: job = loop variable over _jobs, target from its do set or None
        loops = [n for n in disp.own_nodes() if isinstance(n, ast.For)]
        _loop, jv = shared.job_loop(prog, disp)
        puts = calls_to(prog, disp, put.qname)
        if not puts:
            raise AnalysisError('farm.dispatch: no _put call site found')
        for c in puts:
            r.instance()
            from ..util import arg

            job = arg(c, 0, 'job')
            tgt = arg(c, 2, 'target')
            okj = isinstance(job, ast.Name) and job.id == jv
            okt = False
            if isinstance(tgt, ast.Constant) and tgt.value is None:
                okt = True
            elif isinstance(tgt, ast.Name):
                # loop variable over <jv>.get('do')
                for l in loops:
                    if isinstance(l.target, ast.Name) and l.target.id == tgt.id and any(
                        (gk := get_key(x)) and gk[1] == 'do' and isinstance(gk[0], ast.Name) and gk[0].id == jv for x in ast.walk(l.iter)
                    ):
                        okt = True
            r.check(
                okj and okt,
                f'{disp.qname}:{norm(c)}',
                where(disp, c),
                'message made for the batch job and a target taken from its do set (None = all targets)',
                f'{norm(c)}: job/target of the task message do not come from the released batch (job ok={okj}, target ok={okt})',
            )
        # Hand.do is only invoked by dispatch (one worker per popped message)
        hdo = prog.nfunc('dawgie.pl.farm.Hand.do')
        for fn in prog.modules['dawgie.pl.farm'].funcs.values():
            pass
        for fn in prog.funcs.values():
            if fn.module.name != 'dawgie.pl.farm':
                continue
            for c in fn.calls():
                if isinstance(c.func, ast.Attribute) and c.func.attr == 'do' and any(
                    shared.resolve_container(prog, fn, x) == 'dawgie.pl.farm._workers' for x in ast.walk(c.func.value) if isinstance(x, (ast.Name, ast.Attribute))
                ):
                    r.instance()
                    r.check(fn.qname == disp.qname, f'{fn.qname}:{norm(c)}', where(fn, c), 'worker assignment inside dispatch', f'{fn.qname} hands a task to a worker outside dispatch')
        for e in cg.callers(hdo.qname):
            r.instance()
            r.check(e.src.qname == disp.qname, f'{e.src.qname}:calls-Hand.do', where(e.src, e.call), 'ok', f'{e.src.qname} calls Hand.do directly')


def rule3(ctx, rep):
    """Inv-A preservation: doing != {} => node in que"""
    prog = ctx.prog
    with rep.rule(
        'R-C01-3',
        'Inv-A: a node leaves the queue only when both todo and doing are empty; doing grows only for queued nodes',
        floor=3,
        breaks='an executing upstream algorithm is no longer visible to the release filter (and its reply cannot be found)',
    ) as r:
        for op in wsa.all_ops(prog):
            if op.kind != 'que':
                continue
            if op.op in ('remove', 'pop', 'clear', '__delitem__'):
                r.instance()
                rep.analysed(op.func)
                ok, detail = shared.removal_guarded(prog, op)
                r.check(ok, f'{op.func.qname}:{norm(op.node)}', op.where, detail, f'{op.func.qname}: {norm(op.node)} is not dominated by an emptiness test of both todo and doing of the removed node ({detail})')
            elif op.op == 'rebind':
                r.instance()
                rep.analysed(op.func)
                ok, detail = shared.rebind_keeps_working(prog, op)
                r.check(ok, f'{op.func.qname}:{norm(op.node)[:120]}', op.where, detail, f'{op.func.qname} rebinds the queue and may drop a node that is still executing: {detail}')
        f = prog.nfunc('dawgie.pl.schedule.next_job_batch')
        ra = wsa.release_analysis(prog, f, atoms=('tau_is_all',))
        srcs = {prog.resolve_in(x, f) for x in ast.walk(ra['outer'].iter) if isinstance(x, (ast.Name, ast.Attribute))}
        r.instance()
        r.check(wsa.QUE in srcs, f'{f.qname}:releases-queued-nodes-only', where(f, ra['outer']), 'release loop ranges over que', 'release loop does not range over the queue')


def rule5(ctx, rep):
    prog, cg = ctx.prog, ctx.cg
    with rep.rule(
        'R-C01-5',
        'reactor-atomicity: release and reply functions are never reachable from a deferToThread root and never block',
        floor=6,
        breaks='check-then-act on the work sets is no longer atomic; a reply can interleave with the release filter',
    ) as r:
        thr = cg.thread_reachable()
        r.extra['thread_roots'] = cg.thread_roots()
        accepted = {
            'dawgie.pl.schedule.organize': 'reached from FSM._pipeline -> build while the FSM is not active (dispatch gated, R-C11-3)',
            'dawgie.pl.schedule.defer': 'reached from FSM._pipeline -> periodics while the FSM is not active',
            'dawgie.pl.schedule.build': 'loader thread',
            'dawgie.pl.schedule.periodics': 'loader thread',
        }
        for q in (
            'dawgie.pl.schedule.next_job_batch',
            'dawgie.pl.farm.dispatch',
            'dawgie.pl.farm.Hand._res',
            'dawgie.pl.schedule.complete',
            'dawgie.pl.schedule.purge',
            'dawgie.pl.schedule.update',
        ):
            fn = prog.nfunc(q)
            r.instance()
            rep.analysed(fn)
            blocking = [
                n
                for n in fn.own_nodes()
                if isinstance(n, (ast.Yield, ast.YieldFrom, ast.Await))
                or (isinstance(n, ast.Call) and (prog.callee(n, fn) or '').endswith(('time.sleep', '.wait', 'deferToThread')) and (prog.callee(n, fn) or '').startswith('external:'))
            ]
            path = None
            if q in thr:
                for root in cg.thread_roots():
                    path = cg.path(root, q, kinds={'direct'})
                    if path:
                        break
            r.check(
                q not in thr and not blocking,
                f'{q}:reactor-only',
                where(fn),
                'not reachable from any thread root; no yield / blocking wait',
                f'{q} may run on a pool thread (path {" -> ".join(path or [])}) or blocks ({[norm(b) for b in blocking]})',
            )
        # every other writer of the work sets that is thread-reachable must be in the accepted table
        for op in wsa.all_ops(prog):
            if op.func.qname in thr and (op.op in wsa.GROW or op.op in wsa.SHRINK or op.op == 'rebind'):
                if op.func.qname not in accepted and not shared.only_called_from(cg, op.func.qname, set(accepted)):
                    r.fail(f'{op.func.qname}:thread-writer', op.where, f'{op.func.qname} mutates scheduler state and may run on a pool thread')
        r.note('accepted thread-side writers: ' + '; '.join(f'{k} ({v})' for k, v in accepted.items()))


class _Pending(Flow):
    """Inv-C (pending => queued).  state: frozenset of facts
         ('grew', v)        todo of the node in local v grew and v is not yet known to be queued
         ('in', v, C)       v was stored into the local container C
         ('from', v, N)     v was located through a name taken from the iterable N
         ('iter', x, N)     loop variable x ranges over N
         ('coll', C)        a node with grown todo sits in C, waiting for the queue to be rebuilt from C
         ('names', N)       a node located through N has grown todo, waiting for organize(N)
         ('e', text, bool)  truth of a test expression evaluated earlier on this path (flags, repeated comparisons)
    """

    def __init__(self, prog, f, ops):
        super().__init__()
        self.prog = prog
        self.f = f
        self.grow = {id(o.node): o for o in ops if o.kind == 'todo' and o.op in wsa.GROW}
        self.qins = {id(o.node): o for o in ops if o.kind == 'que' and o.op in ('append', 'insert', 'extend', 'add')}
        self.qreb = {id(o.node): o for o in ops if o.kind == 'que' and o.op == 'rebind'}
        self.bad = []  # (node, description)
        self.rebinds = []  # (op, facts)
        self.names_of = {}

    # -- helpers
    @staticmethod
    def _drop(st, pred):
        return frozenset(x for x in st if not pred(x))

    def _forget_exprs(self, st, name):
        return self._drop(st, lambda x: x[0] == 'e' and name in self.names_of.get(x[1], ()))

    def _unbind(self, st, v, node):
        """v is about to be rebound (or the function returns): settle what is owed for it"""
        if ('grew', v) in st:
            conts = [x[2] for x in st if x[0] == 'in' and x[1] == v]
            names = [x[2] for x in st if x[0] == 'from' and x[1] == v]
            if conts:
                st = st | {('coll', c) for c in conts}
            elif names:
                st = st | {('names', n) for n in names}
            else:
                self.bad.append((node, f'todo of the node in "{v}" grew but the node is neither put on the queue nor handed to a queue rebuild on this path'))
        return self._drop(st, lambda x: x[0] in ('grew', 'in', 'from') and x[1] == v)

    def _src_names(self, e, depth=0):
        """names the value is built from, following locals through their definitions (pipeline stages)"""
        out = {n.id for n in ast.walk(e) if isinstance(n, ast.Name)}
        if depth < 4:
            for nm in list(out):
                for d in self.f.own_nodes():
                    if isinstance(d, ast.Assign) and any(isinstance(t, ast.Name) and t.id == nm for t in d.targets):
                        out |= self._src_names(d.value, depth + 1)
        return out

    def _empty_ctor(self, e):
        return isinstance(e, ast.Call) and not e.args and not e.keywords

    # -- hooks
    def on_call(self, call, st):
        o = self.grow.get(id(call))
        if o is not None and isinstance(o.owner, ast.Name):
            if not (o.op == 'assign' and self._empty_ctor(o.args[0])):
                return (st | {('grew', o.owner.id)},)
        o = self.qins.get(id(call))
        if o is not None:
            names = {n.id for a in o.args for n in ast.walk(a) if isinstance(n, ast.Name)}
            return (self._drop(st, lambda x: x[0] == 'grew' and x[1] in names),)
        if isinstance(call.func, ast.Attribute) and isinstance(call.func.value, ast.Name) and call.func.attr in ('append', 'add') and len(call.args) == 1 and isinstance(call.args[0], ast.Name):
            return (st | {('in', call.args[0].id, call.func.value.id)},)
        sym = self.prog.resolve_in(call.func, self.f)
        if sym == 'dawgie.pl.schedule.organize' and call.args:
            t = norm(call.args[0])
            vs = {x[1] for x in st if x[0] == 'from' and x[2] == t}
            return (self._drop(st, lambda x: (x[0] == 'names' and x[1] == t) or (x[0] == 'grew' and x[1] in vs)),)
        return (st,)

    def may_raise(self, call, st):
        # operations on the work sets, the queue and node attributes raise nothing a handler of this code is written for
        if id(call) in self.grow or id(call) in self.qins or get_key(call) is not None:
            return False
        if isinstance(call.func, ast.Attribute) and call.func.attr in ('set', 'sort', 'append', 'add', 'update'):
            return False
        return True

    def on_stmt(self, s, st):
        if isinstance(s, (ast.Assign, ast.AugAssign)) and id(s) in self.qreb:
            o = self.qreb[id(s)]
            facts = shared.rebind_facts(self.prog, o)
            self.rebinds.append((o, facts))
            if facts['kind'] in ('filtered', 'superset') and all(tb[(True, False)] and tb[(True, True)] for tb in (facts['table'], facts.get('table_queued', facts['table']))):
                srcs = self._src_names(o.args[0])
                vs = {x[1] for x in st if x[0] == 'in' and x[2] in srcs}
                return (self._drop(st, lambda x: (x[0] == 'coll' and x[1] in srcs) or (x[0] == 'grew' and x[1] in vs)),)
            return (st,)
        if isinstance(s, ast.Assign) and len(s.targets) == 1:
            t = s.targets[0]
            if isinstance(t, ast.Subscript) and isinstance(t.value, ast.Name) and isinstance(s.value, ast.Name):
                return (st | {('in', s.value.id, t.value.id)},)
            if isinstance(t, ast.Name):
                st = self._forget_exprs(st, t.id)
                v = s.value
                if isinstance(v, ast.Constant) and isinstance(v.value, bool):
                    return (self._drop(st, lambda x: x[0] == 'e' and x[1] == t.id) | {('e', t.id, v.value)},)
                if isinstance(v, (ast.Compare, ast.BoolOp, ast.UnaryOp)):
                    old = self._drop(st, lambda x: x[0] == 'e' and x[1] == t.id)
                    tr, fa = self.cond(v, {st})
                    self.names_of.setdefault(t.id, {t.id})
                    return tuple({self._drop(x, lambda y: y[0] == 'e' and y[1] == t.id) | {('e', t.id, True)} for x in tr} | {self._drop(x, lambda y: y[0] == 'e' and y[1] == t.id) | {('e', t.id, False)} for x in fa})
                if any(x[0] in ('grew', 'in', 'from') and x[1] == t.id for x in st):
                    st = self._unbind(st, t.id, s)
                st = self._drop(st, lambda x: x[0] == 'e' and x[1] == t.id)
        return (st,)

    def on_test(self, e, st):
        gk = get_key(e)
        if gk is None and isinstance(e, ast.Call) and isinstance(e.func, ast.Name) and e.func.id in ('len', 'bool') and e.args:
            gk = get_key(e.args[0])
        if gk and gk[1] == 'todo' and isinstance(gk[0], ast.Name):
            v = gk[0].id
            return (st,), (self._drop(st, lambda x: x[0] == 'grew' and x[1] == v),)
        text = e.id if isinstance(e, ast.Name) else norm(e)
        if not isinstance(e, (ast.Name, ast.Compare)):
            return (st,), (st,)
        self.names_of.setdefault(text, {n.id for n in ast.walk(e) if isinstance(n, ast.Name)})
        if ('e', text, True) in st:
            return (st,), ()
        if ('e', text, False) in st:
            return (), (st,)
        return (st | {('e', text, True)},), (st | {('e', text, False)},)

    def on_for(self, node, st):
        tg = [n.id for n in ast.walk(node.target) if isinstance(n, ast.Name)]
        for v in tg:
            st = self._unbind(st, v, node)
            st = self._forget_exprs(st, v)
            st = self._drop(st, lambda x: x[0] == 'iter' and x[1] == v)
        if len(tg) == 1:
            v = tg[0]
            it = node.iter
            st = st | {('iter', v, norm(it))}
            # v ranges over the queue itself: it is queued
            if any(isinstance(x, (ast.Name, ast.Attribute)) and self.prog.resolve_in(x, self.f) == wsa.QUE for x in ast.walk(it)):
                st = st | {('in', v, '<que>')}
            # v located through a name: X.locate(tn) with tn ranging over N
            if isinstance(it, ast.Call) and isinstance(it.func, ast.Attribute) and it.func.attr == 'locate' and len(it.args) == 1 and isinstance(it.args[0], ast.Name):
                for x in st:
                    if x[0] == 'iter' and x[1] == it.args[0].id:
                        st = st | {('from', v, x[2])}
        return (st,)

    def finish(self, st, node):
        for v in sorted({x[1] for x in st if x[0] == 'grew'}):
            st = self._unbind(st, v, node)
        for x in st:
            if x[0] == 'coll' and x[1] != '<que>':
                self.bad.append((node, f'a node with grown todo was stored in "{x[1]}" but the queue is never rebuilt from it on this path'))
            if x[0] == 'names':
                self.bad.append((node, f'nodes located through "{x[1]}" have grown todo but organize({x[1]}) is not reached on this path'))


def rule6(ctx, rep):
    """Inv-C: pending => queued (added after seeded change C01-5: defer() filled todo but let a later, not-due event of
    the same node decide whether the node goes on the queue; descendants were then released past the pending ancestor,
    because the release filter only looks at queued ancestors)"""
    prog = ctx.prog
    with rep.rule(
        'R-C01-6',
        'Inv-C: whenever the todo set of a node grows, the node is on the queue (appended, already iterated from the queue, or part of a queue rebuild that keeps every node with pending targets) when the function returns',
        floor=4,
        breaks='a pending upstream algorithm is invisible to the release filter, which only consults queued ancestors: its descendants are released before it has run',
    ) as r:
        ops = wsa.all_ops(prog)
        by = {}
        for o in ops:
            by.setdefault(o.func.qname, []).append(o)
        seen_rebinds = set()
        for q, fo in sorted(by.items()):
            grows = [o for o in fo if o.kind == 'todo' and o.op in wsa.GROW and not (o.op == 'assign' and isinstance(o.args[0], ast.Call) and not o.args[0].args and not o.args[0].keywords)]
            rebs = [o for o in fo if o.kind == 'que' and o.op == 'rebind']
            if not grows and not rebs:
                continue
            f = fo[0].func
            if shared.inlined_helper(prog, ctx.cg, f):
                continue  # its body is analysed where it is called
            rep.analysed(f)
            fl = _Pending(prog, f, fo)
            out = fl.run(f.node, frozenset())
            for st in out.normal | out.ret:
                fl.finish(st, f.node)
            for o in grows:
                r.instance()
            if grows:
                msgs = sorted({m for _n, m in fl.bad})
                node = fl.bad[0][0] if fl.bad else grows[0].node
                r.check(
                    not fl.bad,
                    f'{q}:pending-implies-queued',
                    where(f, node),
                    f'{len(grows)} growth site(s) of todo; on every path the node is queued afterwards',
                    f'{q}: ' + '; '.join(msgs),
                )
            for o, facts in fl.rebinds:
                if id(o.node) in seen_rebinds:
                    continue
                seen_rebinds.add(id(o.node))
                r.instance()
                if facts['kind'] == 'reset':
                    r.check(facts['rebuilt'], f'{q}:{norm(o.node)[:120]}:keeps-pending', o.where, facts['detail'], f'{q} resets the queue: {facts["detail"]}')
                elif facts['kind'] == 'unknown':
                    r.check(False, f'{q}:{norm(o.node)[:120]}:keeps-pending', o.where, '', f'{q} rebinds the queue in a way the analysis cannot follow: {facts["detail"]}')
                else:
                    t, k = facts['table'], facts.get('table_queued', facts['table'])
                    r.check(
                        t[(True, False)] and t[(True, True)] and k[(True, False)] and k[(True, True)],
                        f'{q}:{norm(o.node)[:120]}:keeps-pending',
                        o.where,
                        facts['detail'],
                        f'{q} rebuilds the queue and drops nodes whose todo is non-empty ({facts["detail"]}): their descendants are released past them',
                    )


def rule7(ctx, rep):
    """find() is an exact lookup (added after seeded change C01-6: `jobid.startswith(j.tag)` made find(dep) return an
    earlier-queued algorithm whose name is a prefix of the wanted ancestor; the release filter then read the wrong node's
    todo / doing and released a target its real ancestor was still executing; Hand._res is routed by the same lookup)"""
    prog = ctx.prog
    f = prog.nfunc('dawgie.pl.schedule.find')
    rep.analysed(f)
    with rep.rule(
        'R-C01-7',
        'schedule.find selects the queued node by equality of its tag with the requested name (filter / comprehension / loop over the queue with `<node>.tag == <name>`, or a dictionary keyed by tag)',
        floor=1,
        breaks='the release filter consults another node than the queued ancestor it asked for (and a reply is applied to another job): upstream work is no longer seen',
    ) as r:
        r.instance()
        over_que = any(isinstance(x, (ast.Name, ast.Attribute)) and prog.resolve_in(x, f) == wsa.QUE for x in f.own_nodes())
        uses = []  # (node, ok)
        for n in f.own_nodes():
            if isinstance(n, ast.Compare) and any(isinstance(x, ast.Attribute) and x.attr == 'tag' for x in ast.walk(n)):
                sides = [n.left] + list(n.comparators)
                ok = len(n.ops) == 1 and isinstance(n.ops[0], ast.Eq) and any(isinstance(x, ast.Attribute) and x.attr == 'tag' for x in sides) and any(isinstance(x, ast.Name) for x in sides)
                uses.append((n, ok))
            elif isinstance(n, ast.Call) and isinstance(n.func, ast.Attribute) and n.func.attr in ('startswith', 'endswith', 'find', 'index', 'count', 'match', 'search') and any(isinstance(x, ast.Attribute) and x.attr == 'tag' for x in ast.walk(n)):
                uses.append((n, False))
            elif isinstance(n, ast.DictComp) and isinstance(n.key, ast.Attribute) and n.key.attr == 'tag':
                uses.append((n, True))
        bad = [n for n, ok in uses if not ok]
        r.check(
            over_que and bool(uses) and not bad,
            f'{f.qname}:exact-tag',
            where(f, bad[0] if bad else None),
            'selection by `<node>.tag == <name>` over the queue',
            f'{f.qname} does not select by equality of the tag: {norm(bad[0])[:80] if bad else "no comparison of a tag with the requested name over the queue found"}',
        )


def rule8(ctx, rep):
    """the release filter may shrink a work set while a loop walks it (added after seeded change C01-8: Unique.__iter__ stopped
    copying and next_job_batch walked `available` while removing from it; the target after each withheld one was never
    tested against that ancestor and was released)"""
    prog = ctx.prog
    with rep.rule(
        'R-C01-8',
        'iteration is over a snapshot: fifo.Unique.__iter__ iterates a copy of its order list, and no loop of the scheduler / farm shrinks the plain list / set / dict it is iterating (unless it iterates a copy)',
        floor=2,
        breaks='an element is skipped by the loop that decides whether it has to be withheld: a target is released while a queued ancestor still holds it',
    ) as r:
        it = prog.func('dawgie.util.fifo.Unique.__iter__')
        rep.analysed(it)
        r.instance()
        rets = [n for n in it.own_nodes() if isinstance(n, ast.Return) and n.value is not None]

        def snapshot(e):
            # <x>.copy().__iter__()  /  iter(<x>.copy())  /  iter(list(<x>))  /  iter(tuple(<x>))  /  list(<x>).__iter__()
            for x in ast.walk(e):
                if isinstance(x, ast.Call) and isinstance(x.func, ast.Attribute) and x.func.attr == 'copy':
                    return True
                if isinstance(x, ast.Call) and isinstance(x.func, ast.Name) and x.func.id in ('list', 'tuple', 'sorted'):
                    return True
                if isinstance(x, ast.Subscript) and isinstance(x.slice, ast.Slice) and x.slice.lower is None and x.slice.upper is None:
                    return True
            return False

        uniq_snapshot = bool(rets) and all(snapshot(n.value) for n in rets) and not any(isinstance(n, (ast.Yield, ast.YieldFrom)) for n in it.own_nodes())
        r.check(
            uniq_snapshot,
            f'{it.qname}:iterates-a-copy',
            where(it),
            'Unique.__iter__ returns an iterator over a copy',
            f'{it.qname} iterates the live order list ({norm(rets[0].value) if rets else "no return"}): every loop over a todo / doing / do set that removes from it skips elements',
        )
        # plain containers: no shrink of the iterated container inside the loop
        n = 0
        for q, raw in sorted(prog.funcs.items()):
            if raw.module.name not in ('dawgie.pl.schedule', 'dawgie.pl.farm'):
                continue
            f = prog.nfunc(q)
            for lp in [x for x in f.own_nodes() if isinstance(x, ast.For)]:
                src = lp.iter
                if isinstance(src, ast.Call) or not isinstance(src, (ast.Name, ast.Attribute)):
                    continue
                key = norm(src)
                bad = []
                for b in lp.body:
                    for x in ast.walk(b):
                        if isinstance(x, ast.Call) and isinstance(x.func, ast.Attribute) and x.func.attr in ('remove', 'pop', 'clear', 'discard', 'popitem', 'insert', 'append') and norm(x.func.value) == key:
                            bad.append(x)
                        if isinstance(x, ast.Delete) and any(isinstance(t, ast.Subscript) and norm(t.value) == key for t in x.targets):
                            bad.append(x)
                n += 1
                if bad:
                    r.instance()
                    r.fail(f'{q}:{key}:mutated-while-iterated', where(f, bad[0]), f'{q} changes {key} ({norm(bad[0])[:50]}) inside the loop that iterates it: elements are skipped')
        r.instance()
        r.ok('dawgie.pl.schedule+farm:no-mutation-of-iterated-container', f'{n} loops over plain names / attributes checked')


def check(ctx):
    rep = Report(
        PID,
        ctx.tier,
        ctx.prog,
        'Assume-guarantee by inductive invariant over the scheduler state (todo/doing/do per node, que): '
        '(1) the single release point schedule.next_job_batch is abstractly interpreted for one symbolic pending target and one symbolic queued '
        'transitive ancestor under every assignment of the membership atoms (truth table): any blocking atom => target withheld; '
        '(2) who-may-write: nothing else grows do/doing, makes task messages or hands them to workers; '
        '(3) Inv-A (executing => queued) is preserved by every removal/rebinding of the queue; '
        '(4) the ancestry attribute is built as a transitive closure (dag.Construct); '
        '(5) release/reply functions are reactor-atomic; (6) Inv-C (pending => queued) is preserved by every growth of a todo set and every queue rebuild. The induction over concrete schedules is argued in DESIGN.md, not computed.',
        assumptions=['Twisted runs reactor callbacks one at a time', 'fifo.Unique implements MutableSet semantics'],
    )
    rep.not_decided = ['the induction itself over concrete schedules', 'a user run request racing with schedule.build running in the loader thread']
    rule1(ctx, rep)
    rule2(ctx, rep)
    rule3(ctx, rep)
    shared.closure_rule(ctx, rep, 'R-C01-4')
    rule5(ctx, rep)
    rule6(ctx, rep)
    rule7(ctx, rep)
    rule8(ctx, rep)
    shared.borrow(ctx, rep, [
        ('c03', lambda m: m.rule2(ctx, rep), 'a batch entry that keeps its do set is handed to the farm again on the next dispatch, whatever its upstream does by then'),
        ('c03', lambda m: m.rule6(ctx, rep), 'the release filter withholds a target while an ancestor has it in doing: doing may shrink only where the reply of that unit is applied'),
    ])
    return rep


_NJB = ('pl/schedule.py', 'next_job_batch')
VARIANTS = [
    V('Unique iterates its live list', 'B', 'util/fifo.py', 'Unique.__iter__', 'return self.__order.copy().__iter__()', 'return iter(self.__order)', 'R-C01-8'),
    V('Unique iterates a list() snapshot', 'N', 'util/fifo.py', 'Unique.__iter__', 'return self.__order.copy().__iter__()', 'return iter(list(self.__order))', None),
    V('find matches by prefix', 'B', 'pl/schedule.py', 'find', 'lambda j: j.tag == jobid', 'lambda j: jobid.startswith(j.tag)', 'R-C01-7'),
    V('find as comprehension', 'N', 'pl/schedule.py', 'find', 'avail = list(filter(lambda j: j.tag == jobid, que))', 'avail = [j for j in que if jobid == j.tag]', None),
    V('defer fills todo without queueing', 'B', 'pl/schedule.py', 'defer', 'que.append(t)', 'pass', 'R-C01-6'),
    V('organize rebuild drops pending nodes', 'B', 'pl/schedule.py', 'organize', "lambda j: j.get('todo') or j.get('doing')", "lambda j: j.get('doing')", 'R-C01-6'),
    V('build fills todo without organize', 'B', 'pl/schedule.py', 'build', "organize(ans, event=f'New software changeset {rev}')", 'pass', 'R-C01-6'),
    V('defer iterates its events in sorted order', 'N', 'pl/schedule.py', 'defer', "for p in t.get('period'):", "for p in sorted(t.get('period'), key=str):", None),
    V('drop target-in-doing disjunct', 'B', *_NJB, "target in dependency.get('todo')\n                        or target in dependency.get('doing')", "target in dependency.get('todo')", 'R-C01-1'),
    V('drop __all__-in-doing disjunct', 'B', *_NJB, "or '__all__' in dependency.get('doing')", '', 'R-C01-1'),
    V('drop target == __all__ disjunct', 'B', *_NJB, "target == '__all__'\n                        or '__all__' in dependency.get('todo')", "'__all__' in dependency.get('todo')", 'R-C01-1'),
    V('iterate parents instead of ancestry', 'B', *_NJB, "jobs.keys() & job.get('ancestry')", "jobs.keys() & {p.tag for p in job.get('parents')}", 'R-C01-1'),
    V('remove guarded by not-in', 'B', *_NJB, ') and target in available:\n                        available.remove(target)', ') and target not in available:\n                        available.add(target)', 'R-C01-1'),
    V('released set differs from candidate set', 'B', *_NJB, "job.get('doing').update(available)", "job.get('doing').update(job.get('todo'))", 'R-C01-1'),
    V('second function adds to doing', 'B', 'pl/farm.py', 'rerunid', "runid = job.get('runid', None)", "runid = job.get('runid', None)\n    job.get('doing').add('__all__')", 'R-C01-2'),
    V('notify path calls _put', 'B', 'pl/farm.py', 'notify_all', 'keep = dawgie.context.fsm.is_pipeline_active()', "keep = dawgie.context.fsm.is_pipeline_active()\n    for j in dawgie.pl.schedule.que:\n        _put(j, 0, None, dawgie.Distribution.cluster)", 'R-C01-2'),
    V('complete removes from que when only doing empty', 'B', 'pl/schedule.py', 'complete', "if not (job.get('todo') or job.get('doing')):", "if not job.get('doing'):", 'R-C01-3'),
    V('organize keeps only nodes with todo', 'B', 'pl/schedule.py', 'organize', "filter(lambda j: j.get('todo') or j.get('doing'), jobs.values())", "filter(lambda j: j.get('todo'), jobs.values())", 'R-C01-3'),
    V('ancestry stops after one round', 'B', 'pl/dag.py', 'Construct._ancestry', 'parents = grands', 'parents = set()', 'R-C01-4'),
    V('trim does not copy ancestry', 'B', 'pl/dag.py', 'Node.trim', "short_node.set('ancestry', aset)", "short_node.set('ancestry', short_node.get('ancestry') or set())", 'R-C01-4'),
    V('parents not recursing', 'B', 'pl/dag.py', 'Construct._parents', 'self._parents(\n                list(filter(lambda n, k=known: n.tag not in k, children)), known\n            )', 'pass', 'R-C01-4'),
    V('reply handled in a thread', 'B', 'pl/farm.py', 'Hand._process', 'Hand._res(msg)', 'twisted.internet.threads.deferToThread(Hand._res, msg)', 'R-C01-5'),
    V('rename available', 'N', *_NJB, 'available', 'ready', None, 'all'),
    V('single any() guard with discard', 'N', *_NJB, ") and target in available:\n                        available.remove(target)", "):\n                        available.discard(target)", None),
    V('extra logging', 'N', *_NJB, "dependency = find(dep)", "dependency = find(dep)\n                    log.debug('checking %s', dep)", None),
]
