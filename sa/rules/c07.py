"""C07  Content-addressed store: novelty signal, single copy, no dangling reference.

Constructs are found by role: the staged path is the first component of what
``db.util.encode`` returns, the store name the second; the destination is the
path built from ``dawgie.context.data_dbs`` and the name parameter of
``db.util.move``; the catalogue is whatever is selected from ``DBI().tables``;
the ``Func.set`` branch of the serializer is where the request's function field
compares equal to ``Func.set``; RPC client calls are calls handed a
``COMMAND(...)`` construction.  Helpers called on ``self`` from the serializer
are inlined.
"""

import ast
import os
import re

from .. import AnalysisError
from ..flow import Flow
from ..report import Report
from ..util import where, mwhere, norm, call_name
from ..variants import V

PID = 'C07'

UTIL = 'dawgie.db.util'
ENCODE = UTIL + '.encode'
MOVE = UTIL + '.move'
DECODE = UTIL + '.decode'
CTX_DBS = 'dawgie.context.data_dbs'
CTX_STG = 'dawgie.context.data_stg'
COMMS = 'dawgie.db.shelve.comms'
WORKER = COMMS + '.Worker'
WORKER_DO = WORKER + '.do'
COMMAND = COMMS + '.COMMAND'
ENUMS = 'dawgie.db.shelve.enums'
FUNC = ENUMS + '.Func'
TABLE = ENUMS + '.Table'
DBI = 'dawgie.db.shelve.state.DBI'
SHELVE_REMOVE = 'dawgie.db.shelve.remove'
PURGE = 'dawgie.db.tools.purge'
PRIME_VALUES = ('dawgie.db._prime_values', 'dawgie.db.shelve._prime_values', 'dawgie.db.post._prime_values')
MAX_INLINE = 2
INSERT_PRIME = re.compile(r'insert\s+into\s+prime\b', re.I)


# ---------------------------------------------------------------------------
# small helpers


def eget(env, k):
    for a, b in env:
        if a == k:
            return b
    return None


def eset(env, k, v):
    s = {(a, b) for a, b in env if a != k}
    if v is not None:
        s.add((k, v))
    return frozenset(s)


def target_names(t):
    return [n.id for n in ast.walk(t) if isinstance(n, ast.Name)]


def callkey(call):
    return f'<call@{call.lineno}:{call.col_offset}>'


def const_text(e):
    """concatenated text of an expression built from string constants with + (SQL texts), else ''"""
    if isinstance(e, ast.Constant) and isinstance(e.value, str):
        return e.value
    if isinstance(e, ast.BinOp) and isinstance(e.op, ast.Add):
        return const_text(e.left) + const_text(e.right)
    if isinstance(e, ast.IfExp):
        return const_text(e.body) + ' ' + const_text(e.orelse)
    return ''


def has_insert_prime(e):
    for n in ast.walk(e):
        if isinstance(n, (ast.Constant, ast.BinOp)) and INSERT_PRIME.search(const_text(n)):
            return True
    return False


def write_mode(call):
    """open(...) call: True when the mode creates/changes the file"""
    mode = None
    if len(call.args) > 1:
        mode = call.args[1]
    for k in call.keywords:
        if k.arg == 'mode':
            mode = k.value
    if mode is None:
        return False
    if isinstance(mode, ast.Constant) and isinstance(mode.value, str):
        return any(c in mode.value for c in 'wax+')
    return True  # computed mode: assume the worst


class Scope:
    """a function, or the top-level code of a module, with uniform access"""

    def __init__(self, prog, func=None, module=None):
        self.prog = prog
        self.func = func
        self.module = func.module if func is not None else module
        self.qname = func.qname if func is not None else self.module.name + ':<module>'

    @property
    def body(self):
        return self.func.node.body if self.func is not None else self.module.tree.body

    def nodes(self):
        c = self.__dict__.get('_nodes')
        if c is None:
            if self.func is not None:
                c = list(self.func.own_nodes())
            else:
                c = []
                stack = list(self.module.tree.body)
                while stack:
                    n = stack.pop()
                    if isinstance(n, (ast.FunctionDef, ast.AsyncFunctionDef, ast.ClassDef)):
                        continue
                    c.append(n)
                    stack.extend(ast.iter_child_nodes(n))
            self.__dict__['_nodes'] = c
        return c

    def params(self):
        return self.func.params() if self.func is not None else []

    def resolve(self, expr):
        if self.func is not None:
            return self.prog.resolve_in(expr, self.func)
        return self.prog.resolve_expr(expr, self.module)

    def callee(self, call):
        if self.func is not None:
            return self.prog.callee(call, self.func)
        return self.prog.resolve_expr(call.func, self.module)

    def where(self, node=None):
        if self.func is not None:
            return where(self.func, node)
        return mwhere(self.module, node) if node is not None else self.module.relpath

    def parents(self):
        p = self.__dict__.get('_parents')
        if p is None:
            p = {}
            for n in self.nodes():
                for c in ast.iter_child_nodes(n):
                    p[id(c)] = n
            self.__dict__['_parents'] = p
        return p

    def assigns(self):
        """name -> [(value expr, selector)] ; selector None | int (tuple position) | 'elem' (iteration) | 'aug'"""
        a = self.__dict__.get('_assigns')
        if a is not None:
            return a
        a = {}

        def bind(t, value, sel=None):
            if isinstance(t, ast.Name):
                a.setdefault(t.id, []).append((value, sel))
            elif isinstance(t, (ast.Tuple, ast.List)):
                for i, el in enumerate(t.elts):
                    bind(el, value, i if sel is None else 'elem')
            elif isinstance(t, ast.Starred):
                bind(t.value, value, 'elem')

        for n in self.nodes():
            if isinstance(n, ast.Assign):
                for t in n.targets:
                    bind(t, n.value)
            elif isinstance(n, ast.AnnAssign) and n.value is not None:
                bind(n.target, n.value)
            elif isinstance(n, ast.AugAssign):
                bind(n.target, n.value, 'aug')
            elif isinstance(n, (ast.For, ast.AsyncFor)):
                bind(n.target, n.iter, 'elem')
            elif isinstance(n, ast.comprehension):
                bind(n.target, n.iter, 'elem')
            elif isinstance(n, ast.withitem) and n.optional_vars is not None:
                bind(n.optional_vars, n.context_expr)
            elif isinstance(n, ast.NamedExpr):
                bind(n.target, n.value)
        self.__dict__['_assigns'] = a
        return a


def all_scopes(prog):
    c = prog.__dict__.get('_c07_scopes')
    if c is None:
        c = [Scope(prog, func=f) for f in prog.funcs.values()] + [Scope(prog, module=m) for m in prog.modules.values()]
        prog.__dict__['_c07_scopes'] = c
    return c


# ---------------------------------------------------------------------------
# R-C07-1  encode: the name is the digest of the staged bytes

DIGESTS = {'md5sum': 'md5', 'sha1sum': 'sha1'}
HASHLIB = {'external:hashlib.md5': 'md5', 'external:hashlib.sha1': 'sha1'}
# external callables that are deterministic functions of their arguments only
PURE_EXTERNAL = {'str', 'bytes', 'int', 'len', 'repr', 'filter', 'map', 'list', 'tuple', 'sorted', 'format', 'bool', 'zip', 'enumerate', 'reversed'}
# calls that may receive the staged path without changing the bytes of the file (one line of reason each)
CONTENT_PRESERVING = {
    'external:os.chmod': 'permission bits only',
    'external:os.close': 'closes the descriptor returned by mkstemp',
    'external:os.path.getsize': 'read only',
    'external:os.path.exists': 'read only',
    'external:os.stat': 'read only',
    'external:os.fsync': 'flush only',
}


class Deps:
    """flow-insensitive dependency labels of expressions of one function (who feeds the store name)"""

    def __init__(self, prog, scope, staged=None, depth=0):
        self.prog = prog
        self.sc = scope
        self.staged = staged
        self.depth = depth

    def digest_of(self, call):
        """('digest'|'digest-other', algo, text) for a subprocess call of md5sum/sha1sum, else None"""
        sym = self.sc.callee(call) or ''
        if not sym.startswith('external:subprocess.') or not call.args:
            return None
        cmd = call.args[0]
        if not isinstance(cmd, (ast.List, ast.Tuple)) or not cmd.elts:
            return None
        head = cmd.elts[0]
        if not (isinstance(head, ast.Constant) and isinstance(head.value, str)):
            return None
        algo = DIGESTS.get(os.path.basename(head.value))
        if algo is None:
            return None
        operands = [e for e in cmd.elts[1:] if not isinstance(e, ast.Constant)]
        if len(operands) == 1 and isinstance(operands[0], ast.Name) and operands[0].id == self.staged:
            return ('digest', algo, 'staged file')
        return ('digest-other', algo, norm(cmd))

    def read_open(self, call):
        return (
            isinstance(call.func, ast.Name)
            and call.func.id == 'open'
            and call.args
            and isinstance(call.args[0], ast.Name)
            and call.args[0].id == self.staged
            and not write_mode(call)
        )

    def name(self, n, bound, seen):
        if n in bound:
            return set()
        if n == self.staged:
            return {('staged-path',)}
        if n in seen:
            return set()
        asg = self.sc.assigns().get(n)
        if asg:
            out = set()
            for value, _sel in asg:
                out |= self.expr(value, bound, seen | {n})
            return out
        if n in self.sc.params():
            return {('param', n)}
        return {('global', n)}

    def expr(self, e, bound=frozenset(), seen=frozenset()):
        if e is None or isinstance(e, ast.Constant):
            return set()
        if isinstance(e, ast.Name):
            return self.name(e.id, bound, seen)
        if isinstance(e, ast.Lambda):
            a = e.args
            b = bound | {x.arg for x in a.posonlyargs + a.args + a.kwonlyargs}
            return self.expr(e.body, b, seen)
        if isinstance(e, ast.Call):
            return self.call(e, bound, seen)
        if isinstance(e, ast.Attribute):
            sym = self.sc.resolve(e)
            if sym and not sym.startswith('local:') and self.prog.dotted(e) and self.prog.dotted(e)[0] not in self.sc.assigns() and self.prog.dotted(e)[0] not in self.sc.params():
                return {('global', sym)}
            return self.expr(e.value, bound, seen)
        out = set()
        for c in ast.iter_child_nodes(e):
            if isinstance(c, ast.expr):
                out |= self.expr(c, bound, seen)
            elif isinstance(c, ast.keyword):
                out |= self.expr(c.value, bound, seen)
            elif isinstance(c, ast.comprehension):
                out |= self.expr(c.iter, bound, seen)
                for i in c.ifs:
                    out |= self.expr(i, bound, seen)
        return out

    def call(self, c, bound, seen):
        d = self.digest_of(c)
        if d is not None:
            return {d}
        sym = self.sc.callee(c) or ''
        argd = set()
        for a in c.args:
            argd |= self.expr(a.value if isinstance(a, ast.Starred) else a, bound, seen)
        for k in c.keywords:
            argd |= self.expr(k.value, bound, seen)
        if sym in HASHLIB:
            if argd == {('content',)}:
                return {('digest', HASHLIB[sym], 'staged file')}
            return {('digest-other', HASHLIB[sym], norm(c))}
        if self.read_open(c):
            return {('rhandle',)}
        fn = self.prog.func_of(sym) if sym else None
        if fn is not None and sym not in self.prog.classes and self.depth < 2:
            # repository helper: its result depends on whatever its return expressions depend on
            sub = Deps(self.prog, Scope(self.prog, func=fn), None, self.depth + 1)
            out = set()
            params = fn.params()
            for r in fn.own_nodes():
                if isinstance(r, ast.Return) and r.value is not None:
                    for lab in sub.expr(r.value):
                        if lab[0] == 'param' and lab[1] in params:
                            i = params.index(lab[1])
                            if i < len(c.args) and not isinstance(c.args[i], ast.Starred):
                                out |= self.expr(c.args[i], bound, seen)
                            else:
                                kw = [k.value for k in c.keywords if k.arg == lab[1]]
                                out |= self.expr(kw[0], bound, seen) if kw else set()
                        else:
                            out.add(lab)
            return out
        if isinstance(c.func, ast.Attribute):
            recv = self.expr(c.func.value, bound, seen) if not (sym.startswith('external:') and self._is_module(c.func.value)) else set()
            if c.func.attr == 'read' and recv == {('rhandle',)}:
                return {('content',)}
            if recv or not sym.startswith('external:') or not self._is_module(c.func.value):
                return recv | argd
        base = sym.split(':', 1)[-1]
        if argd or base in PURE_EXTERNAL:
            return argd
        return {('external', base or norm(c.func))}

    def _is_module(self, e):
        d = self.prog.dotted(e)
        return bool(d) and d[0] not in self.sc.assigns() and d[0] not in self.sc.params()


class _Enc(Flow):
    """typestate of the staged file: new -> open (being written) -> closed ; was the value pickled into it ;
    has a digest been taken.  Records the state at every read of the file's content."""

    def __init__(self, prog, f, staged, value, deps):
        super().__init__()
        self.prog, self.f, self.staged, self.value, self.deps = prog, f, staged, value, deps
        self.handles = set()
        self.reads = []  # (call, state)
        self.bad = []  # (node, message)
        for n in f.own_nodes():
            h = None
            if isinstance(n, ast.withitem) and self._wopen(n.context_expr) and isinstance(n.optional_vars, ast.Name):
                h = n.optional_vars.id
            elif isinstance(n, ast.Assign) and self._wopen(n.value) and len(n.targets) == 1 and isinstance(n.targets[0], ast.Name):
                h = n.targets[0].id
            if h:
                self.handles.add(h)

    def _wopen(self, e):
        return (
            isinstance(e, ast.Call)
            and isinstance(e.func, ast.Name)
            and e.func.id == 'open'
            and e.args
            and isinstance(e.args[0], ast.Name)
            and e.args[0].id == self.staged
            and write_mode(e)
        )

    def on_call(self, call, st):
        fs, dumped, digested = st
        sym = self.prog.callee(call, self.f) or ''
        if self._wopen(call):
            if digested:
                self.bad.append((call, 'the staged file is opened for writing again after its digest was taken'))
            return (('open', False, digested),)
        if isinstance(call.func, ast.Attribute) and isinstance(call.func.value, ast.Name) and call.func.value.id in self.handles:
            if call.func.attr == 'close':
                return (('closed', dumped, digested),)
            if call.func.attr in ('write', 'writelines', 'truncate', 'seek'):
                self.bad.append((call, f'the staged file receives bytes other than the pickle of the value ({norm(call)[:60]})'))
            return (st,)
        if sym == 'external:pickle.dump' and len(call.args) >= 2:
            obj, dst = call.args[0], call.args[1]
            if isinstance(dst, ast.Name) and dst.id in self.handles:
                if isinstance(obj, ast.Name) and obj.id == self.value and fs == 'open':
                    return ((fs, True, digested),)
                self.bad.append((call, f'what is pickled into the staged file is not the value parameter "{self.value}" ({norm(call)[:60]})'))
            return (st,)
        d = self.deps.digest_of(call)
        if (d is not None and d[0] == 'digest') or self.deps.read_open(call):
            self.reads.append((call, st))
            return ((fs, dumped, True),)
        if digested and sym not in CONTENT_PRESERVING:
            mentions = any(isinstance(a, ast.Name) and a.id == self.staged for a in list(call.args) + [k.value for k in call.keywords])
            if mentions and not sym.startswith('external:os.path.'):
                self.bad.append((call, f'the staged file is handed to {norm(call.func)} after its digest was taken (content may change)'))
        return (st,)

    def on_with_exit(self, node, st):
        if any(self._wopen(it.context_expr) for it in node.items):
            return (('closed', st[1], st[2]),)
        return (st,)


def _rule1(ctx, rep):
    prog = ctx.prog
    f = prog.func(ENCODE)
    rep.analysed(f)
    with rep.rule(
        'R-C07-1',
        'db.util.encode: the store name is built from the md5 and sha1 digests of the staged file, taken after the pickle of the value was written and closed',
        floor=3,
        breaks='a stored file does not hash to its own name, or identical content gets two names (kept twice, reported new twice)',
    ) as r:
        sc = Scope(prog, func=f)
        r.instance()
        q = f.qname
        rets = [n for n in f.own_nodes() if isinstance(n, ast.Return)]
        shapes = {
            (n.value.elts[0].id if isinstance(n.value.elts[0], ast.Name) else None)
            for n in rets
            if isinstance(n.value, ast.Tuple) and len(n.value.elts) == 2
        }
        if not rets or len(shapes) != 1 or None in shapes or any(not (isinstance(n.value, ast.Tuple) and len(n.value.elts) == 2) for n in rets) or not f.params():
            r.fail(f'{q}:return-shape', where(f), 'encode does not return a (staged path, name) pair with the staged path held in one local: shape not understood')
            return
        staged = shapes.pop()
        value = f.params()[0]
        deps = Deps(prog, sc, staged)
        # (a) unique staging file inside the staging area
        origin = sc.assigns().get(staged, [])
        ok_origin = False
        detail = 'no creation found'
        if len(origin) == 1 and isinstance(origin[0][0], ast.Call):
            c, sel = origin[0]
            sym = sc.callee(c) or ''
            dirs = [k.value for k in c.keywords if k.arg == 'dir']
            dsym = sc.resolve(dirs[0]) if dirs else None
            detail = f'{norm(c.func)} dir={dsym}'
            # mkstemp returns (fd, path): the path is position 1 ; uniqueness is what concurrent encoders rely on
            ok_origin = sym == 'external:tempfile.mkstemp' and sel == 1 and dsym == CTX_STG
        r.check(
            ok_origin,
            f'{q}:staging-file',
            where(f, origin[0][0] if origin else None),
            f'staged path comes from {detail} (unique per call, inside the staging area)',
            f'the staged path "{staged}" is not the unique file of tempfile.mkstemp(dir=dawgie.context.data_stg) ({detail}): concurrent encoders could digest each other\'s bytes',
            nontrivial=False,
        )
        # (b) typestate at each content read
        fl = _Enc(prog, f, staged, value, deps)
        fl.run(f.node, ('new', False, False))
        r.extra['states_visited'] = fl.visited
        seen = {}
        for call, st in fl.reads:
            seen.setdefault(id(call), (call, set()))[1].add(st)
        for call, sts in seen.values():
            r.instance()
            bad = sorted(f'{s[0]}/{"pickled" if s[1] else "not pickled"}' for s in sts if not (s[0] == 'closed' and s[1]))
            r.check(
                not bad,
                f'{q}:{norm(call)}',
                where(f, call),
                'content of the staged file is read only in state closed/pickled',
                f'{norm(call)[:70]} reads the staged file in state {bad}: the digest is not the digest of the complete pickle of the value',
            )
        for node, msg in fl.bad:
            r.fail(f'{q}:{norm(node)}', where(f, node), msg)
        # (c) what the name depends on
        for n in rets:
            labs = deps.expr(n.value.elts[1])
            want = {('digest', 'md5', 'staged file'), ('digest', 'sha1', 'staged file')}
            extra = sorted(str(x) for x in labs - want)
            missing = sorted(x[1] for x in want - labs)
            r.check(
                labs == want,
                f'{q}:name-deps',
                where(f, n),
                'name depends on exactly {md5(staged file), sha1(staged file)}',
                'the store name '
                + (f'does not include the {"/".join(missing)} digest of the staged file; ' if missing else '')
                + (f'depends on something other than digests of the staged file: {extra}' if extra else ''),
            )
        r.extra['staged_local'] = staged


# ---------------------------------------------------------------------------
# R-C07-2  move: test first, then unlink the staged copy or move it into the store

EXISTS_FNS = {'external:os.path.exists', 'external:os.path.isfile', 'external:os.path.lexists'}
FILE_OPS = {
    'external:os.unlink': ('unlink', (0,)),
    'external:os.remove': ('unlink', (0,)),
    'external:os.rmdir': ('unlink', (0,)),
    'external:shutil.rmtree': ('unlink', (0,)),
    'external:shutil.move': ('move', (0, 1)),
    'external:os.rename': ('move', (0, 1)),
    'external:os.replace': ('move', (0, 1)),
    'external:os.renames': ('move', (0, 1)),
    'external:shutil.copy': ('copy', (0, 1)),
    'external:shutil.copy2': ('copy', (0, 1)),
    'external:shutil.copyfile': ('copy', (0, 1)),
    'external:shutil.copytree': ('copy', (0, 1)),
    'external:os.link': ('copy', (0, 1)),
    'external:os.symlink': ('copy', (0, 1)),
}
PATH_METHODS = {'unlink': 'unlink', 'rmdir': 'unlink', 'rename': 'move', 'replace': 'move', 'write_bytes': 'write', 'write_text': 'write', 'touch': 'write'}
SHELL = ('external:os.system', 'external:os.popen', 'external:subprocess.')


class PathClass:
    """classifies path expressions of db.util.move: 'staged' (first parameter), 'dest' (built from data_dbs and the
    name parameter only), 'name' (second parameter), else 'other'"""

    def __init__(self, prog, scope):
        self.prog, self.sc = prog, scope
        p = scope.params()
        self.p_staged, self.p_name = p[0], p[1]

    def cls(self, e, seen=frozenset()):
        if isinstance(e, ast.Name):
            if e.id in seen:
                return 'other'
            asg = self.sc.assigns().get(e.id, [])
            if not asg:
                if e.id == self.p_staged:
                    return 'staged'
                if e.id == self.p_name:
                    return 'name'
                return 'other'
            if len(asg) == 1 and asg[0][1] is None and e.id not in (self.p_staged, self.p_name):
                return self.cls(asg[0][0], seen | {e.id})
            return 'other'
        if isinstance(e, ast.Call) and (self.sc.callee(e) or '') in ('external:str', 'external:os.fspath', 'external:pathlib.Path', 'external:os.path.abspath') and len(e.args) == 1:
            return self.cls(e.args[0], seen)
        if isinstance(e, (ast.Call, ast.BinOp, ast.JoinedStr)):
            roots, names, others = 0, 0, 0
            skip = set()
            for n in ast.walk(e):
                if id(n) in skip:
                    continue
                if isinstance(n, ast.Attribute):
                    sym = self.sc.resolve(n)
                    for c in ast.walk(n):
                        skip.add(id(c))
                    if sym == CTX_DBS:
                        roots += 1
                    elif sym in ('external:os.path.join', 'external:os.sep', 'external:os.path.sep', 'external:pathlib.Path'):
                        pass
                    else:
                        others += 1
                elif isinstance(n, ast.Name):
                    c = self.cls(n, seen)
                    if c == 'name':
                        names += 1
                    elif n.id in ('str', 'format'):
                        pass
                    else:
                        others += 1
            if roots == 1 and names == 1 and others == 0:
                return 'dest'
        return 'other'


class _Move(Flow):
    """state = (E, ops, env): E is the oracle's answer to 'did the destination exist before any file operation'
    (None until tested); ops = file operations performed so far with the E known at that time; env = local booleans"""

    def __init__(self, prog, f, pc):
        super().__init__()
        self.prog, self.f, self.pc = prog, f, pc
        self.late = []
        self.returns = []
        self.opnodes = {}

    def _exists_call(self, e):
        if not isinstance(e, ast.Call):
            return False
        sym = self.prog.callee(e, self.f) or ''
        if sym in EXISTS_FNS and len(e.args) == 1:
            return self.pc.cls(e.args[0]) == 'dest'
        if isinstance(e.func, ast.Attribute) and e.func.attr in ('exists', 'is_file') and not e.args:
            return self.pc.cls(e.func.value) == 'dest'
        return False

    def bval(self, e, st):
        if self._exists_call(e):
            return st[0]
        if isinstance(e, ast.Name):
            return eget(st[2], e.id)
        if isinstance(e, ast.Constant) and isinstance(e.value, bool):
            return e.value
        if isinstance(e, ast.UnaryOp) and isinstance(e.op, ast.Not):
            v = self.bval(e.operand, st)
            return None if v is None else not v
        if isinstance(e, ast.Call) and (self.prog.callee(e, self.f) or '') == 'external:bool' and len(e.args) == 1:
            return self.bval(e.args[0], st)
        if isinstance(e, ast.Compare) and len(e.ops) == 1 and isinstance(e.comparators[0], ast.Constant) and isinstance(e.comparators[0].value, bool):
            v = self.bval(e.left, st)
            if v is None:
                return None
            same = v == e.comparators[0].value
            if isinstance(e.ops[0], (ast.Is, ast.Eq)):
                return same
            if isinstance(e.ops[0], (ast.IsNot, ast.NotEq)):
                return not same
        if isinstance(e, ast.IfExp):
            t = self.bval(e.test, st)
            if t is not None:
                return self.bval(e.body if t else e.orelse, st)
        return None

    def on_call(self, call, st):
        E, ops, env = st
        if self._exists_call(call):
            if ops:
                self.late.append(call)
            if E is None:
                return ((True, ops, env), (False, ops, env))
            return (st,)
        sym = self.prog.callee(call, self.f) or ''
        op = None
        if sym in FILE_OPS:
            kind, idx = FILE_OPS[sym]
            op = (kind,) + tuple(self.pc.cls(call.args[i]) if i < len(call.args) else 'other' for i in idx)
        elif isinstance(call.func, ast.Name) and call.func.id == 'open' and call.args and write_mode(call):
            op = ('write', self.pc.cls(call.args[0]))
        elif isinstance(call.func, ast.Attribute) and call.func.attr in PATH_METHODS and self.pc.cls(call.func.value) in ('staged', 'dest'):
            op = (PATH_METHODS[call.func.attr], self.pc.cls(call.func.value)) + tuple(self.pc.cls(a) for a in call.args[:1])
        elif sym.startswith(SHELL):
            op = ('shell', norm(call)[:60])
        if op is not None:
            self.opnodes[op] = call
            return ((E, ops + ((op, E),), env),)
        return (st,)

    def on_stmt(self, s, st):
        E, ops, env = st
        if isinstance(s, (ast.Assign, ast.AnnAssign)) and s.value is not None:
            tg = s.targets if isinstance(s, ast.Assign) else [s.target]
            for t in tg:
                if isinstance(t, ast.Name):
                    env = eset(env, t.id, self.bval(s.value, st))
                else:
                    for n in target_names(t):
                        env = eset(env, n, None)
        elif isinstance(s, ast.AugAssign):
            for n in target_names(s.target):
                env = eset(env, n, None)
        return ((E, ops, env),)

    def on_test(self, e, st):
        v = self.bval(e, st)
        if v is True:
            return (st,), ()
        if v is False:
            return (), (st,)
        return (st,), (st,)

    def on_return(self, node, st):
        self.returns.append((node, st))
        return (st,)


def move_facts(prog):
    """(polarity of the returned flag relative to 'the destination existed', the _Move run) ; cached per program"""
    c = prog.__dict__.get('_c07_move')
    if c is None:
        f = prog.func(MOVE)
        if len(f.params()) < 2:
            raise AnalysisError('db.util.move no longer takes (staged path, name)')
        pc = PathClass(prog, Scope(prog, func=f))
        fl = _Move(prog, f, pc)
        out = fl.run(f.node, (None, (), frozenset()))
        table = {}
        for node, st in fl.returns:
            v = None
            if isinstance(node.value, ast.Tuple) and len(node.value.elts) == 2:
                v = fl.bval(node.value.elts[1], st)
            table.setdefault(st[0], set()).add(v)
        pol = 0
        if set(table) == {True, False} and all(len(v) == 1 and None not in v for v in table.values()):
            a, b = next(iter(table[True])), next(iter(table[False]))
            if a != b:
                pol = 1 if a else -1
        c = prog.__dict__['_c07_move'] = (pol, fl, out, table, pc)
    return c


def _rule2(ctx, rep):
    prog = ctx.prog
    f = prog.func(MOVE)
    rep.analysed(f)
    with rep.rule(
        'R-C07-2',
        'db.util.move: the existence of data_dbs/<name> is decided before any file operation; exists -> only the staged copy is unlinked; '
        'not exists -> the staged file is moved there; the returned flag is a function of that decision',
        floor=3,
        breaks='identical content overwrites/duplicates the stored copy, a stored file is deleted while referenced, or the novelty flag does not reflect prior presence',
    ) as r:
        pol, fl, out, table, pc = move_facts(prog)
        q = f.qname
        r.instance()
        r.extra['states_visited'] = fl.visited
        r.extra['flag_by_prior_existence'] = {str(k): sorted(str(x) for x in v) for k, v in table.items()}
        for call in fl.late:
            r.fail(f'{q}:{norm(call)}', where(f, call), 'the existence of the destination is (re)evaluated after a file operation: the answer no longer says whether identical content was there before')
        want = {True: (('unlink', 'staged'),), False: (('move', 'staged', 'dest'),)}
        paths = {}
        for node, st in fl.returns:
            paths.setdefault((st[0], tuple(o for o, _e in st[1]), tuple(e for _o, e in st[1])), node)
        for st in out.normal:
            r.fail(f'{q}:falls-off-the-end', where(f), 'a path through move ends without returning (name, flag)')
        cover = set()
        for (E, ops, known), node in sorted(paths.items(), key=lambda kv: str(kv[0])):
            cover.add(E)
            if E is None:
                r.fail(f'{q}:untested-path', where(f, node), f'a path returns without ever testing whether data_dbs/<name> exists (operations on it: {list(ops)})')
                continue
            if None in known:
                r.fail(f'{q}:op-before-test', where(f, node), f'file operation(s) {list(ops)} happen before the existence test')
                continue
            for o in ops:
                r.instance()
            r.check(
                ops == want[E],
                f'{q}:exists={E}',
                where(f, fl.opnodes.get(ops[0]) if ops else node),
                f'prior existence {E}: operations are exactly {list(want[E])}',
                f'when the destination {"already existed" if E else "did not exist"} the file operations are {list(ops)}, expected exactly {list(want[E])}'
                + (' (the stored copy must not be touched, the staged copy must go)' if E else ' (the staged file must become data_dbs/<name> in one rename)'),
            )
        if fl.returns and cover >= {True, False}:
            r.check(
                pol != 0,
                f'{q}:flag',
                where(f, fl.returns[0][0]),
                f'returned flag is {"" if pol > 0 else "the negation of "}the existence decision on every path',
                f'the second component returned by move is not a function of the existence decision (prior existence -> flag: {r.extra["flag_by_prior_existence"]})',
            )
            bad = [n for n, _s in fl.returns if not (isinstance(n.value, ast.Tuple) and len(n.value.elts) == 2 and pc.cls(n.value.elts[0]) == 'name')]
            r.check(
                not bad,
                f'{q}:returned-name',
                where(f, bad[0] if bad else fl.returns[0][0]),
                'first component returned is the name parameter',
                'move does not return its name parameter as first component (the catalogue would record something else than the stored file name)',
                nontrivial=False,
            )
        elif fl.returns:
            r.fail(f'{q}:decision', where(f), f'the existence decision does not split into an exists and a not-exists path (seen: {sorted(str(c) for c in cover)})')
