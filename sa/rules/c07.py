"""C07  Content-addressed store: novelty signal, single copy, no dangling reference.

Constructs are found by role: the staged path is the first component of what
``db.util.encode`` returns, the store name the second; the destination is the
path built from ``dawgie.context.data_dbs`` and the name parameter of
``db.util.move``; the catalogue is whatever is selected from ``DBI().tables``;
the ``Func.set`` branch of the serializer is where the request's function field
compares equal to ``Func.set``; RPC client calls are calls handed a
``COMMAND(...)`` construction.  Helpers called on ``self`` from the serializer
are inlined.
"""

import ast
import os
import re

from .. import AnalysisError
from ..flow import Flow
from ..report import Report
from ..util import where, mwhere, norm, call_name
from ..variants import V

PID = 'C07'

UTIL = 'dawgie.db.util'
ENCODE = UTIL + '.encode'
MOVE = UTIL + '.move'
DECODE = UTIL + '.decode'
CTX_DBS = 'dawgie.context.data_dbs'
CTX_STG = 'dawgie.context.data_stg'
COMMS = 'dawgie.db.shelve.comms'
WORKER = COMMS + '.Worker'
WORKER_DO = WORKER + '.do'
COMMAND = COMMS + '.COMMAND'
ENUMS = 'dawgie.db.shelve.enums'
FUNC = ENUMS + '.Func'
TABLE = ENUMS + '.Table'
DBI = 'dawgie.db.shelve.state.DBI'
SHELVE_REMOVE = 'dawgie.db.shelve.remove'
PURGE = 'dawgie.db.tools.purge'
PRIME_VALUES = ('dawgie.db._prime_values', 'dawgie.db.shelve._prime_values', 'dawgie.db.post._prime_values')
MAX_INLINE = 2
INSERT_PRIME = re.compile(r'insert\s+into\s+prime\b', re.I)


# ---------------------------------------------------------------------------
# small helpers


def eget(env, k):
    for a, b in env:
        if a == k:
            return b
    return None


def eset(env, k, v):
    s = {(a, b) for a, b in env if a != k}
    if v is not None:
        s.add((k, v))
    return frozenset(s)


def target_names(t):
    return [n.id for n in ast.walk(t) if isinstance(n, ast.Name)]


def callkey(call):
    return f'<call@{call.lineno}:{call.col_offset}>'


def const_text(e):
    """concatenated text of an expression built from string constants with + (SQL texts), else ''"""
    if isinstance(e, ast.Constant) and isinstance(e.value, str):
        return e.value
    if isinstance(e, ast.BinOp) and isinstance(e.op, ast.Add):
        return const_text(e.left) + const_text(e.right)
    if isinstance(e, ast.IfExp):
        return const_text(e.body) + ' ' + const_text(e.orelse)
    return ''


def has_insert_prime(e):
    for n in ast.walk(e):
        if isinstance(n, (ast.Constant, ast.BinOp)) and INSERT_PRIME.search(const_text(n)):
            return True
    return False


def write_mode(call):
    """open(...) call: True when the mode creates/changes the file"""
    mode = None
    if len(call.args) > 1:
        mode = call.args[1]
    for k in call.keywords:
        if k.arg == 'mode':
            mode = k.value
    if mode is None:
        return False
    if isinstance(mode, ast.Constant) and isinstance(mode.value, str):
        return any(c in mode.value for c in 'wax+')
    return True  # computed mode: assume the worst


class Scope:
    """a function, or the top-level code of a module, with uniform access"""

    def __init__(self, prog, func=None, module=None):
        self.prog = prog
        self.func = func
        self.module = func.module if func is not None else module
        self.qname = func.qname if func is not None else self.module.name + ':<module>'

    @property
    def body(self):
        return self.func.node.body if self.func is not None else self.module.tree.body

    def nodes(self):
        c = self.__dict__.get('_nodes')
        if c is None:
            if self.func is not None:
                c = list(self.func.own_nodes())
            else:
                c = []
                stack = list(self.module.tree.body)
                while stack:
                    n = stack.pop()
                    if isinstance(n, (ast.FunctionDef, ast.AsyncFunctionDef, ast.ClassDef)):
                        continue
                    c.append(n)
                    stack.extend(ast.iter_child_nodes(n))
            self.__dict__['_nodes'] = c
        return c

    def params(self):
        return self.func.params() if self.func is not None else []

    def resolve(self, expr):
        if self.func is not None:
            return self.prog.resolve_in(expr, self.func)
        return self.prog.resolve_expr(expr, self.module)

    def callee(self, call):
        if self.func is not None:
            return self.prog.callee(call, self.func)
        return self.prog.resolve_expr(call.func, self.module)

    def where(self, node=None):
        if self.func is not None:
            return where(self.func, node)
        return mwhere(self.module, node) if node is not None else self.module.relpath

    def parents(self):
        p = self.__dict__.get('_parents')
        if p is None:
            p = {}
            for n in self.nodes():
                for c in ast.iter_child_nodes(n):
                    p[id(c)] = n
            self.__dict__['_parents'] = p
        return p

    def assigns(self):
        """name -> [(value expr, selector)] ; selector None | int (tuple position) | 'elem' (iteration) | 'aug'"""
        a = self.__dict__.get('_assigns')
        if a is not None:
            return a
        a = {}

        def bind(t, value, sel=None):
            if isinstance(t, ast.Name):
                a.setdefault(t.id, []).append((value, sel))
            elif isinstance(t, (ast.Tuple, ast.List)):
                for i, el in enumerate(t.elts):
                    bind(el, value, i if sel is None else 'elem')
            elif isinstance(t, ast.Starred):
                bind(t.value, value, 'elem')

        for n in self.nodes():
            if isinstance(n, ast.Assign):
                for t in n.targets:
                    bind(t, n.value)
            elif isinstance(n, ast.AnnAssign) and n.value is not None:
                bind(n.target, n.value)
            elif isinstance(n, ast.AugAssign):
                bind(n.target, n.value, 'aug')
            elif isinstance(n, (ast.For, ast.AsyncFor)):
                bind(n.target, n.iter, 'elem')
            elif isinstance(n, ast.comprehension):
                bind(n.target, n.iter, 'elem')
            elif isinstance(n, ast.withitem) and n.optional_vars is not None:
                bind(n.optional_vars, n.context_expr)
            elif isinstance(n, ast.NamedExpr):
                bind(n.target, n.value)
        self.__dict__['_assigns'] = a
        return a


def all_scopes(prog):
    c = prog.__dict__.get('_c07_scopes')
    if c is None:
        c = [Scope(prog, func=f) for f in prog.funcs.values()] + [Scope(prog, module=m) for m in prog.modules.values()]
        prog.__dict__['_c07_scopes'] = c
    return c


# ---------------------------------------------------------------------------
# R-C07-1  encode: the name is the digest of the staged bytes

DIGESTS = {'md5sum': 'md5', 'sha1sum': 'sha1'}
HASHLIB = {'external:hashlib.md5': 'md5', 'external:hashlib.sha1': 'sha1'}
# external callables that are deterministic functions of their arguments only
PURE_EXTERNAL = {'str', 'bytes', 'int', 'len', 'repr', 'filter', 'map', 'list', 'tuple', 'sorted', 'format', 'bool', 'zip', 'enumerate', 'reversed'}
# calls that may receive the staged path without changing the bytes of the file (one line of reason each)
CONTENT_PRESERVING = {
    'external:os.chmod': 'permission bits only',
    'external:os.close': 'closes the descriptor returned by mkstemp',
    'external:os.path.getsize': 'read only',
    'external:os.path.exists': 'read only',
    'external:os.stat': 'read only',
    'external:os.fsync': 'flush only',
}


class Deps:
    """flow-insensitive dependency labels of expressions of one function (who feeds the store name)"""

    def __init__(self, prog, scope, staged=None, depth=0, consts=None):
        self.prog = prog
        self.sc = scope
        self.staged = staged
        self.depth = depth
        self.consts = consts or {}  # parameter -> string constant it is bound to at the call being followed

    def const_str(self, e):
        if isinstance(e, ast.Constant) and isinstance(e.value, str):
            return e.value
        if isinstance(e, ast.Name):
            if e.id in self.consts and e.id not in self.sc.assigns():
                return self.consts[e.id]
            a = self.sc.assigns().get(e.id, [])
            if len(a) == 1 and a[0][1] is None and isinstance(a[0][0], ast.Constant) and isinstance(a[0][0].value, str):
                return a[0][0].value
        return None

    def bind_consts(self, call, params):
        out = {}
        for i, a in enumerate(call.args):
            if i < len(params) and not isinstance(a, ast.Starred) and self.const_str(a) is not None:
                out[params[i]] = self.const_str(a)
        for k in call.keywords:
            if k.arg in params and self.const_str(k.value) is not None:
                out[k.arg] = self.const_str(k.value)
        return out

    def digest_of(self, call):
        """('digest'|'digest-other', algo, text) for a subprocess call of md5sum/sha1sum, else None"""
        sym = self.sc.callee(call) or ''
        if not sym.startswith('external:subprocess.') or not call.args:
            return None
        cmd = call.args[0]
        if not isinstance(cmd, (ast.List, ast.Tuple)) or not cmd.elts:
            return None
        head = self.const_str(cmd.elts[0])
        if head is None:
            return None
        algo = DIGESTS.get(os.path.basename(head))
        if algo is None:
            return None
        operands = [e for e in cmd.elts[1:] if self.const_str(e) is None]
        if len(operands) == 1 and isinstance(operands[0], ast.Name) and operands[0].id == self.staged:
            return ('digest', algo, 'staged file')
        return ('digest-other', algo, norm(cmd))

    def read_open(self, call):
        return (
            isinstance(call.func, ast.Name)
            and call.func.id == 'open'
            and call.args
            and isinstance(call.args[0], ast.Name)
            and call.args[0].id == self.staged
            and not write_mode(call)
        )

    def name(self, n, bound, seen):
        if n in bound:
            return set()
        if n == self.staged:
            return {('staged-path',)}
        if n in seen:
            return set()
        asg = self.sc.assigns().get(n)
        if asg:
            out = set()
            for value, _sel in asg:
                out |= self.expr(value, bound, seen | {n})
            return out
        if n in self.sc.params():
            return {('param', n)}
        return {('global', n)}

    def expr(self, e, bound=frozenset(), seen=frozenset()):
        if e is None or isinstance(e, ast.Constant):
            return set()
        if isinstance(e, ast.Name):
            return self.name(e.id, bound, seen)
        if isinstance(e, ast.Lambda):
            a = e.args
            b = bound | {x.arg for x in a.posonlyargs + a.args + a.kwonlyargs}
            return self.expr(e.body, b, seen)
        if isinstance(e, ast.Call):
            return self.call(e, bound, seen)
        if isinstance(e, ast.Attribute):
            sym = self.sc.resolve(e)
            if sym and not sym.startswith('local:') and self.prog.dotted(e) and self.prog.dotted(e)[0] not in self.sc.assigns() and self.prog.dotted(e)[0] not in self.sc.params():
                return {('global', sym)}
            return self.expr(e.value, bound, seen)
        out = set()
        for c in ast.iter_child_nodes(e):
            if isinstance(c, ast.expr):
                out |= self.expr(c, bound, seen)
            elif isinstance(c, ast.keyword):
                out |= self.expr(c.value, bound, seen)
            elif isinstance(c, ast.comprehension):
                out |= self.expr(c.iter, bound, seen)
                for i in c.ifs:
                    out |= self.expr(i, bound, seen)
        return out

    def call(self, c, bound, seen):
        d = self.digest_of(c)
        if d is not None:
            return {d}
        sym = self.sc.callee(c) or ''
        argd = set()
        for a in c.args:
            argd |= self.expr(a.value if isinstance(a, ast.Starred) else a, bound, seen)
        for k in c.keywords:
            argd |= self.expr(k.value, bound, seen)
        if sym in HASHLIB:
            if argd == {('content',)}:
                return {('digest', HASHLIB[sym], 'staged file')}
            return {('digest-other', HASHLIB[sym], norm(c))}
        if self.read_open(c):
            return {('rhandle',)}
        fn = self.prog.func_of(sym) if sym else None
        if fn is not None and sym not in self.prog.classes and self.depth < 2:
            # repository helper: its result depends on whatever its return expressions depend on
            params = fn.params()
            sp = None
            for i, a in enumerate(c.args):
                if isinstance(a, ast.Name) and a.id == self.staged and self.staged is not None and i < len(params):
                    sp = params[i]
            for k in c.keywords:
                if isinstance(k.value, ast.Name) and k.value.id == self.staged and self.staged is not None and k.arg in params:
                    sp = k.arg
            sub = Deps(self.prog, Scope(self.prog, func=fn), sp, self.depth + 1, self.bind_consts(c, params))
            out = set()
            for r in fn.own_nodes():
                if isinstance(r, ast.Return) and r.value is not None:
                    for lab in sub.expr(r.value):
                        if lab[0] == 'param' and lab[1] in params:
                            i = params.index(lab[1])
                            if i < len(c.args) and not isinstance(c.args[i], ast.Starred):
                                out |= self.expr(c.args[i], bound, seen)
                            else:
                                kw = [k.value for k in c.keywords if k.arg == lab[1]]
                                out |= self.expr(kw[0], bound, seen) if kw else set()
                        else:
                            out.add(lab)
            return out
        if isinstance(c.func, ast.Attribute):
            recv = self.expr(c.func.value, bound, seen) if not (sym.startswith('external:') and self._is_module(c.func.value)) else set()
            if c.func.attr == 'read' and recv == {('rhandle',)}:
                return {('content',)}
            if recv or not sym.startswith('external:') or not self._is_module(c.func.value):
                return recv | argd
        base = sym.split(':', 1)[-1]
        if argd or base in PURE_EXTERNAL:
            return argd
        return {('external', base or norm(c.func))}

    def _is_module(self, e):
        d = self.prog.dotted(e)
        return bool(d) and d[0] not in self.sc.assigns() and d[0] not in self.sc.params()


class _Enc(Flow):
    """typestate of the staged file: new -> open (being written) -> closed ; was the value pickled into it ;
    has a digest been taken.  Records the state at every read of the file's content."""

    def __init__(self, prog, f, staged, value, deps, depth=0):
        super().__init__()
        self.prog, self.f, self.staged, self.value, self.deps = prog, f, staged, value, deps
        self.depth = depth
        self.handles = set()
        self.reads = []  # (func, call, state)
        self.bad = []  # (func, node, message)
        for n in f.own_nodes():
            h = None
            if isinstance(n, ast.withitem) and self._wopen(n.context_expr) and isinstance(n.optional_vars, ast.Name):
                h = n.optional_vars.id
            elif isinstance(n, ast.Assign) and self._wopen(n.value) and len(n.targets) == 1 and isinstance(n.targets[0], ast.Name):
                h = n.targets[0].id
            if h:
                self.handles.add(h)

    def _wopen(self, e):
        if not (isinstance(e, ast.Call) and e.args and isinstance(e.args[0], ast.Name) and write_mode(e)):
            return False
        if isinstance(e.func, ast.Name) and e.func.id == 'open':
            return e.args[0].id == self.staged
        # os.fdopen(fd, 'wb') on the descriptor that the creator of the staged path returned with it
        if (self.prog.callee(e, self.f) or '') == 'external:os.fdopen':
            sc = self.deps.sc
            a, b = sc.assigns().get(e.args[0].id, []), sc.assigns().get(self.staged, [])
            return len(a) == 1 and len(b) == 1 and a[0][0] is b[0][0] and a[0][1] == 0
        return False

    def on_call(self, call, st):
        fs, dumped, digested = st
        sym = self.prog.callee(call, self.f) or ''
        hf = self.prog.func_of(sym) if sym else None
        if hf is not None and sym not in self.prog.classes and self.depth < 2 and hf.qname != self.f.qname:
            # repository helper that is handed the staged path: interpret its body on the same typestate
            params = hf.params()
            binds = [(params[i], a) for i, a in enumerate(call.args) if i < len(params)] + [(k.arg, k.value) for k in call.keywords if k.arg in params]
            sp = [p for p, a in binds if isinstance(a, ast.Name) and a.id == self.staged]
            if sp:
                vp = [p for p, a in binds if isinstance(a, ast.Name) and a.id == self.value]
                sub = _Enc(self.prog, hf, sp[0], vp[0] if vp else None, Deps(self.prog, Scope(self.prog, func=hf), sp[0], 1, self.deps.bind_consts(call, params)), self.depth + 1)
                o = sub.run(hf.node, st)
                self.visited += sub.visited
                self.reads += sub.reads
                self.bad += sub.bad
                return tuple(o.normal | o.ret) or (st,)
        if self._wopen(call):
            if digested:
                self.bad.append((self.f, call, 'the staged file is opened for writing again after its digest was taken'))
            return (('open', False, digested),)
        if isinstance(call.func, ast.Attribute) and isinstance(call.func.value, ast.Name) and call.func.value.id in self.handles:
            if call.func.attr == 'close':
                return (('closed', dumped, digested),)
            if call.func.attr in ('write', 'writelines', 'truncate', 'seek'):
                self.bad.append((self.f, call, f'the staged file receives bytes other than the pickle of the value ({norm(call)[:60]})'))
            return (st,)
        if sym == 'external:pickle.dump' and len(call.args) >= 2:
            obj, dst = call.args[0], call.args[1]
            if isinstance(dst, ast.Name) and dst.id in self.handles:
                if isinstance(obj, ast.Name) and obj.id == self.value and fs == 'open':
                    return ((fs, True, digested),)
                self.bad.append((self.f, call, f'what is pickled into the staged file is not the value parameter "{self.value}" ({norm(call)[:60]})'))
            return (st,)
        d = self.deps.digest_of(call)
        if (d is not None and d[0] == 'digest') or self.deps.read_open(call):
            self.reads.append((self.f, call, st))
            return ((fs, dumped, True),)
        if digested and sym not in CONTENT_PRESERVING:
            mentions = any(isinstance(a, ast.Name) and a.id == self.staged for a in list(call.args) + [k.value for k in call.keywords])
            if mentions and not sym.startswith('external:os.path.'):
                self.bad.append((self.f, call, f'the staged file is handed to {norm(call.func)} after its digest was taken (content may change)'))
        return (st,)

    def on_with_exit(self, node, st):
        if any(self._wopen(it.context_expr) for it in node.items):
            return (('closed', st[1], st[2]),)
        return (st,)


def _rule1(ctx, rep):
    prog = ctx.prog
    f = prog.func(ENCODE)
    rep.analysed(f)
    with rep.rule(
        'R-C07-1',
        'db.util.encode: the store name is built from the md5 and sha1 digests of the staged file, taken after the pickle of the value was written and closed',
        floor=2,
        breaks='a stored file does not hash to its own name, or identical content gets two names (kept twice, reported new twice)',
    ) as r:
        sc = Scope(prog, func=f)
        r.instance()
        q = f.qname
        rets = [n for n in f.own_nodes() if isinstance(n, ast.Return)]
        shapes = {
            (n.value.elts[0].id if isinstance(n.value.elts[0], ast.Name) else None)
            for n in rets
            if isinstance(n.value, ast.Tuple) and len(n.value.elts) == 2
        }
        if not rets or len(shapes) != 1 or None in shapes or any(not (isinstance(n.value, ast.Tuple) and len(n.value.elts) == 2) for n in rets) or not f.params():
            r.fail(f'{q}:return-shape', where(f), 'encode does not return a (staged path, name) pair with the staged path held in one local: shape not understood')
            return
        staged = shapes.pop()
        value = f.params()[0]
        deps = Deps(prog, sc, staged)
        # (a) unique staging file inside the staging area
        origin = sc.assigns().get(staged, [])
        ok_origin = False
        detail = 'no creation found'
        if len(origin) == 1 and isinstance(origin[0][0], ast.Call):
            c, sel = origin[0]
            sym = sc.callee(c) or ''
            dirs = [k.value for k in c.keywords if k.arg == 'dir']
            dsym = sc.resolve(dirs[0]) if dirs else None
            detail = f'{norm(c.func)} dir={dsym}'
            # mkstemp returns (fd, path): the path is position 1 ; uniqueness is what concurrent encoders rely on
            ok_origin = sym == 'external:tempfile.mkstemp' and sel == 1 and dsym == CTX_STG
        r.check(
            ok_origin,
            f'{q}:staging-file',
            where(f, origin[0][0] if origin else None),
            f'staged path comes from {detail} (unique per call, inside the staging area)',
            f'the staged path "{staged}" is not the unique file of tempfile.mkstemp(dir=dawgie.context.data_stg) ({detail}): concurrent encoders could digest each other\'s bytes',
            nontrivial=False,
        )
        # (b) typestate at each content read
        fl = _Enc(prog, f, staged, value, deps)
        fl.run(f.node, ('new', False, False))
        r.extra['states_visited'] = fl.visited
        seen = {}
        for hf, call, st in fl.reads:
            seen.setdefault(id(call), (hf, call, set()))[2].add(st)
        for hf, call, sts in seen.values():
            rep.analysed(hf)
            r.instance()
            bad = sorted(f'{s[0]}/{"pickled" if s[1] else "not pickled"}' for s in sts if not (s[0] == 'closed' and s[1]))
            r.check(
                not bad,
                f'{hf.qname}:{norm(call)}',
                where(hf, call),
                'content of the staged file is read only in state closed/pickled',
                f'{norm(call)[:70]} reads the staged file in state {bad}: the digest is not the digest of the complete pickle of the value',
            )
        for hf, node, msg in fl.bad:
            r.fail(f'{hf.qname}:{norm(node)}', where(hf, node), msg)
        # (c) what the name depends on
        for n in rets:
            r.instance()
            labs = deps.expr(n.value.elts[1])
            want = {('digest', 'md5', 'staged file'), ('digest', 'sha1', 'staged file')}
            extra = sorted(str(x) for x in labs - want)
            missing = sorted(x[1] for x in want - labs)
            r.check(
                labs == want,
                f'{q}:name-deps',
                where(f, n),
                'name depends on exactly {md5(staged file), sha1(staged file)}',
                'the store name '
                + (f'does not include the {"/".join(missing)} digest of the staged file; ' if missing else '')
                + (f'depends on something other than digests of the staged file: {extra}' if extra else ''),
            )
        r.extra['staged_local'] = staged


# ---------------------------------------------------------------------------
# R-C07-2  move: test first, then unlink the staged copy or move it into the store

EXISTS_FNS = {'external:os.path.exists', 'external:os.path.isfile', 'external:os.path.lexists'}
FILE_OPS = {
    'external:os.unlink': ('unlink', (0,)),
    'external:os.remove': ('unlink', (0,)),
    'external:os.rmdir': ('unlink', (0,)),
    'external:shutil.rmtree': ('unlink', (0,)),
    'external:shutil.move': ('move', (0, 1)),
    'external:os.rename': ('move', (0, 1)),
    'external:os.replace': ('move', (0, 1)),
    'external:os.renames': ('move', (0, 1)),
    'external:shutil.copy': ('copy', (0, 1)),
    'external:shutil.copy2': ('copy', (0, 1)),
    'external:shutil.copyfile': ('copy', (0, 1)),
    'external:shutil.copytree': ('copy', (0, 1)),
    'external:os.link': ('copy', (0, 1)),
    'external:os.symlink': ('copy', (0, 1)),
}
PATH_METHODS = {'unlink': 'unlink', 'rmdir': 'unlink', 'rename': 'move', 'replace': 'move', 'write_bytes': 'write', 'write_text': 'write', 'touch': 'write'}
SHELL = ('external:os.system', 'external:os.popen', 'external:subprocess.')


class PathClass:
    """classifies path expressions of db.util.move: 'staged' (first parameter), 'dest' (built from data_dbs and the
    name parameter only), 'name' (second parameter), else 'other'"""

    def __init__(self, prog, scope):
        self.prog, self.sc = prog, scope
        p = scope.params()
        self.p_staged, self.p_name = p[0], p[1]

    def cls(self, e, seen=frozenset()):
        if isinstance(e, ast.Name):
            if e.id in seen:
                return 'other'
            asg = self.sc.assigns().get(e.id, [])
            if not asg:
                if e.id == self.p_staged:
                    return 'staged'
                if e.id == self.p_name:
                    return 'name'
                return 'other'
            if len(asg) == 1 and asg[0][1] is None and e.id not in (self.p_staged, self.p_name):
                return self.cls(asg[0][0], seen | {e.id})
            return 'other'
        if isinstance(e, ast.Call) and (self.sc.callee(e) or '') in ('external:str', 'external:os.fspath', 'external:pathlib.Path', 'external:os.path.abspath') and len(e.args) == 1:
            return self.cls(e.args[0], seen)
        if isinstance(e, (ast.Call, ast.BinOp, ast.JoinedStr)):
            roots, names, others = 0, 0, 0
            skip = set()
            for n in ast.walk(e):
                if id(n) in skip:
                    continue
                if isinstance(n, ast.Attribute):
                    sym = self.sc.resolve(n)
                    for c in ast.walk(n):
                        skip.add(id(c))
                    if sym == CTX_DBS:
                        roots += 1
                    elif sym in ('external:os.path.join', 'external:os.sep', 'external:os.path.sep', 'external:pathlib.Path'):
                        pass
                    else:
                        others += 1
                elif isinstance(n, ast.Name):
                    c = self.cls(n, seen)
                    if c == 'name':
                        names += 1
                    elif n.id in ('str', 'format'):
                        pass
                    else:
                        others += 1
            if roots == 1 and names == 1 and others == 0:
                return 'dest'
        return 'other'


class _Move(Flow):
    """state = (E, ops, env): E is the oracle's answer to 'did the destination exist before any file operation'
    (None until tested); ops = file operations performed so far with the E known at that time; env = local booleans"""

    def __init__(self, prog, f, pc):
        super().__init__()
        self.prog, self.f, self.pc = prog, f, pc
        self.late = []
        self.returns = []
        self.opnodes = {}

    def _exists_call(self, e):
        if not isinstance(e, ast.Call):
            return False
        sym = self.prog.callee(e, self.f) or ''
        if sym in EXISTS_FNS and len(e.args) == 1:
            return self.pc.cls(e.args[0]) == 'dest'
        if isinstance(e.func, ast.Attribute) and e.func.attr in ('exists', 'is_file') and not e.args:
            return self.pc.cls(e.func.value) == 'dest'
        return False

    def bval(self, e, st):
        if self._exists_call(e):
            return st[0]
        if isinstance(e, ast.Name):
            return eget(st[2], e.id)
        if isinstance(e, ast.Constant) and isinstance(e.value, bool):
            return e.value
        if isinstance(e, ast.UnaryOp) and isinstance(e.op, ast.Not):
            v = self.bval(e.operand, st)
            return None if v is None else not v
        if isinstance(e, ast.Call) and (self.prog.callee(e, self.f) or '') == 'external:bool' and len(e.args) == 1:
            return self.bval(e.args[0], st)
        if isinstance(e, ast.Compare) and len(e.ops) == 1 and isinstance(e.comparators[0], ast.Constant) and isinstance(e.comparators[0].value, bool):
            v = self.bval(e.left, st)
            if v is None:
                return None
            same = v == e.comparators[0].value
            if isinstance(e.ops[0], (ast.Is, ast.Eq)):
                return same
            if isinstance(e.ops[0], (ast.IsNot, ast.NotEq)):
                return not same
        if isinstance(e, ast.IfExp):
            t = self.bval(e.test, st)
            if t is not None:
                return self.bval(e.body if t else e.orelse, st)
        return None

    def on_call(self, call, st):
        E, ops, env = st
        if self._exists_call(call):
            if ops:
                self.late.append(call)
            if E is None:
                return ((True, ops, env), (False, ops, env))
            return (st,)
        sym = self.prog.callee(call, self.f) or ''
        op = None
        if sym in FILE_OPS:
            kind, idx = FILE_OPS[sym]
            op = (kind,) + tuple(self.pc.cls(call.args[i]) if i < len(call.args) else 'other' for i in idx)
        elif isinstance(call.func, ast.Name) and call.func.id == 'open' and call.args and write_mode(call):
            op = ('write', self.pc.cls(call.args[0]))
        elif isinstance(call.func, ast.Attribute) and call.func.attr in PATH_METHODS and self.pc.cls(call.func.value) in ('staged', 'dest'):
            op = (PATH_METHODS[call.func.attr], self.pc.cls(call.func.value)) + tuple(self.pc.cls(a) for a in call.args[:1])
        elif sym.startswith(SHELL):
            op = ('shell', norm(call)[:60])
        if op is not None:
            self.opnodes[op] = call
            return ((E, ops + ((op, E),), env),)
        return (st,)

    def on_stmt(self, s, st):
        E, ops, env = st
        if isinstance(s, (ast.Assign, ast.AnnAssign)) and s.value is not None:
            tg = s.targets if isinstance(s, ast.Assign) else [s.target]
            for t in tg:
                if isinstance(t, ast.Name):
                    env = eset(env, t.id, self.bval(s.value, st))
                else:
                    for n in target_names(t):
                        env = eset(env, n, None)
        elif isinstance(s, ast.AugAssign):
            for n in target_names(s.target):
                env = eset(env, n, None)
        return ((E, ops, env),)

    def on_test(self, e, st):
        v = self.bval(e, st)
        if v is True:
            return (st,), ()
        if v is False:
            return (), (st,)
        return (st,), (st,)

    def on_return(self, node, st):
        self.returns.append((node, st))
        return (st,)


def move_facts(prog):
    """(polarity of the returned flag relative to 'the destination existed', the _Move run) ; cached per program"""
    c = prog.__dict__.get('_c07_move')
    if c is None:
        f = prog.func(MOVE)
        if len(f.params()) < 2:
            raise AnalysisError('db.util.move no longer takes (staged path, name)')
        pc = PathClass(prog, Scope(prog, func=f))
        fl = _Move(prog, f, pc)
        out = fl.run(f.node, (None, (), frozenset()))
        table = {}
        for node, st in fl.returns:
            v = None
            if isinstance(node.value, ast.Tuple) and len(node.value.elts) == 2:
                v = fl.bval(node.value.elts[1], st)
            table.setdefault(st[0], set()).add(v)
        pol = 0
        if set(table) == {True, False} and all(len(v) == 1 and None not in v for v in table.values()):
            a, b = next(iter(table[True])), next(iter(table[False]))
            if a != b:
                pol = 1 if a else -1
        c = prog.__dict__['_c07_move'] = (pol, fl, out, table, pc)
    return c


def _rule2(ctx, rep):
    prog = ctx.prog
    f = prog.func(MOVE)
    rep.analysed(f)
    with rep.rule(
        'R-C07-2',
        'db.util.move: the existence of data_dbs/<name> is decided before any file operation; exists -> only the staged copy is unlinked; '
        'not exists -> the staged file is moved there; the returned flag is a function of that decision',
        floor=2,
        breaks='identical content overwrites/duplicates the stored copy, a stored file is deleted while referenced, or the novelty flag does not reflect prior presence',
    ) as r:
        pol, fl, out, table, pc = move_facts(prog)
        q = f.qname
        r.instance()
        r.extra['states_visited'] = fl.visited
        r.extra['flag_by_prior_existence'] = {str(k): sorted(str(x) for x in v) for k, v in table.items()}
        for call in fl.late:
            r.fail(f'{q}:{norm(call)}', where(f, call), 'the existence of the destination is (re)evaluated after a file operation: the answer no longer says whether identical content was there before')
        want = {True: (('unlink', 'staged'),), False: (('move', 'staged', 'dest'),)}
        paths = {}
        for node, st in fl.returns:
            paths.setdefault((st[0], tuple(o for o, _e in st[1]), tuple(e for _o, e in st[1])), node)
        for st in out.normal:
            r.fail(f'{q}:falls-off-the-end', where(f), 'a path through move ends without returning (name, flag)')
        cover = set()
        for (E, ops, known), node in sorted(paths.items(), key=lambda kv: str(kv[0])):
            cover.add(E)
            r.instance()
            if E is None:
                r.fail(f'{q}:untested-path', where(f, node), f'a path returns without ever testing whether data_dbs/<name> exists (operations on it: {list(ops)})')
                continue
            if None in known:
                r.fail(f'{q}:op-before-test', where(f, node), f'file operation(s) {list(ops)} happen before the existence test')
                continue
            # prior existence: the stored copy must not be touched; the only operation accepted is dropping the staged copy
            # (leaving it behind leaks staging space but does not break the store, so it is not demanded here)
            good = ops == want[E] or (E is True and ops == ())
            r.check(
                good,
                f'{q}:exists={E}',
                where(f, fl.opnodes.get(ops[0]) if ops else node),
                f'prior existence {E}: operations are exactly {list(want[E])}',
                f'when the destination {"already existed" if E else "did not exist"} the file operations are {list(ops)}, expected exactly {list(want[E])}'
                + (' (the stored copy must not be touched, the staged copy must go)' if E else ' (the staged file must become data_dbs/<name> in one rename)'),
            )
        if fl.returns and cover >= {True, False}:
            r.check(
                pol != 0,
                f'{q}:flag',
                where(f, fl.returns[0][0]),
                f'returned flag is {"" if pol > 0 else "the negation of "}the existence decision on every path',
                f'the second component returned by move is not a function of the existence decision (prior existence -> flag: {r.extra["flag_by_prior_existence"]})',
            )
            bad = [n for n, _s in fl.returns if not (isinstance(n.value, ast.Tuple) and len(n.value.elts) == 2 and pc.cls(n.value.elts[0]) == 'name')]
            r.check(
                not bad,
                f'{q}:returned-name',
                where(f, bad[0] if bad else fl.returns[0][0]),
                'first component returned is the name parameter',
                'move does not return its name parameter as first component (the catalogue would record something else than the stored file name)',
                nontrivial=False,
            )
        elif fl.returns:
            r.fail(f'{q}:decision', where(f), f'the existence decision does not split into an exists and a not-exists path (seen: {sorted(str(c) for c in cover)})')


# ---------------------------------------------------------------------------
# catalogue (DBI().tables) accesses: who reads / stores / deletes

READ_METHODS = {'values', 'items', 'keys', 'get', 'copy', '__contains__', '__getitem__', '__len__', '__iter__'}
STORE_METHODS = {'update', 'setdefault', '__setitem__'}
DELETE_METHODS = {'pop', 'popitem', 'clear', '__delitem__'}
READ_BUILTINS = {'dict', 'list', 'len', 'sorted', 'set', 'tuple', 'iter', 'enumerate', 'bool', 'str', 'repr', 'frozenset', 'any', 'all', 'min', 'max'}


def _is_dbi(sc, e):
    if isinstance(e, ast.Call):
        return sc.callee(e) == DBI
    if isinstance(e, ast.Name):
        a = sc.assigns().get(e.id, [])
        return len(a) == 1 and a[0][1] is None and isinstance(a[0][0], ast.Call) and sc.callee(a[0][0]) == DBI
    return False


def _tables(sc, e):
    return isinstance(e, ast.Attribute) and e.attr == 'tables' and _is_dbi(sc, e.value)


def selection(sc, e):
    if isinstance(e, ast.Attribute) and _tables(sc, e.value):
        return ('static', e.attr)
    if isinstance(e, ast.Subscript) and _tables(sc, e.value):
        return ('dyn', e.slice)
    return None


def _stmt_of(sc, node):
    p = sc.parents()
    while node is not None and not isinstance(node, ast.stmt):
        node = p.get(id(node))
    return node


def uses(prog, sc, node, depth=0, via=()):
    """how the object denoted by ``node`` is used: [(kind, anchor, stored value expr)] with kind in read/store/delete/unknown"""
    p = sc.parents()
    par = p.get(id(node))
    stmt = _stmt_of(sc, node)
    if par is None:
        return [('unknown', stmt or node, None)]
    if isinstance(par, ast.Subscript) and par.value is node:
        gp = p.get(id(par))
        if isinstance(par.ctx, ast.Store):
            val = gp.value if isinstance(gp, ast.Assign) and len(gp.targets) == 1 else None
            return [('store', stmt, val)]
        if isinstance(par.ctx, ast.Del):
            return [('delete', stmt, None)]
        return [('read', stmt, None)]
    if isinstance(par, ast.Attribute) and par.value is node:
        gp = p.get(id(par))
        if isinstance(gp, ast.Call) and gp.func is par:
            if par.attr in READ_METHODS:
                return [('read', gp, None)]
            if par.attr in STORE_METHODS:
                return [('store', gp, None)]
            if par.attr in DELETE_METHODS:
                return [('delete', gp, None)]
        return [('unknown', stmt, None)]
    call, pname_pos = None, None
    if isinstance(par, ast.keyword):
        call = p.get(id(par))
        pname_pos = par.arg
    elif isinstance(par, ast.Call) and any(a is node for a in par.args):
        call = par
        pname_pos = [i for i, a in enumerate(par.args) if a is node][0]
    if isinstance(call, ast.Call):
        sym = sc.callee(call) or ''
        if sym.startswith('external:') and sym[9:] in READ_BUILTINS:
            return [('read', call, None)]
        fn = prog.func_of(sym) if sym else None
        if fn is not None and sym not in prog.classes and depth < 2 and pname_pos is not None:
            params = fn.params()
            if fn.cls is not None and not fn.is_staticmethod() and params and params[0] in ('self', 'cls'):
                params = params[1:]
            pn = pname_pos if isinstance(pname_pos, str) else (params[pname_pos] if pname_pos < len(params) else None)
            if pn is not None:
                kinds = param_effect(prog, fn, pn, depth + 1)
                return [(k, call, None) for k in sorted(kinds)]
        return [('unknown', call, None)]
    if isinstance(par, ast.Compare) and any(c is node for c in par.comparators):
        return [('read', stmt, None)]
    if isinstance(par, (ast.For, ast.AsyncFor, ast.comprehension)) and par.iter is node:
        return [('read', stmt, None)]
    if isinstance(par, ast.Assign) and par.value is node and len(par.targets) == 1 and isinstance(par.targets[0], ast.Name):
        alias = par.targets[0].id
        if alias in via or len(sc.assigns().get(alias, [])) != 1:
            return [('unknown', stmt, None)]
        out = []
        for n in sc.nodes():
            if isinstance(n, ast.Name) and n.id == alias and isinstance(n.ctx, ast.Load):
                out += uses(prog, sc, n, depth, via + (alias,))
        return out or [('read', stmt, None)]
    return [('unknown', stmt, None)]


def param_effect(prog, fn, pname, depth):
    sc = Scope(prog, func=fn)
    if pname in sc.assigns():
        return {'unknown'}
    kinds = {'read'}
    for n in sc.nodes():
        if isinstance(n, ast.Name) and n.id == pname and isinstance(n.ctx, ast.Load):
            kinds |= {k for k, _a, _v in uses(prog, sc, n, depth)}
    return kinds


def table_events(prog, sc):
    """[(kind, anchor, value, sel)] for every use of a table selected from DBI().tables in this scope"""
    c = sc.__dict__.get('_tev')
    if c is None:
        c = []
        for n in sc.nodes():
            sel = selection(sc, n)
            if sel is not None:
                for kind, anchor, val in uses(prog, sc, n):
                    c.append((kind, anchor, val, sel))
        sc.__dict__['_tev'] = c
    return c


# ---------------------------------------------------------------------------
# the signal interpreter: where do the (name, existed) results of move flow to

NOSTATE = ('-', '-', False)


def is_sig(v):
    """a boolean signal: ('flag', s) relative to move's decision, or ('par', name, s) relative to a parameter"""
    return bool(v) and v[0] in ('flag', 'par')


def sig_neg(v):
    return v[:-1] + (-v[-1],)


def call_arg(call, fn, pname):
    """the argument expression bound to parameter pname of fn at this call, else None"""
    params = fn.params()
    if fn.cls is not None and not fn.is_staticmethod() and params and params[0] in ('self', 'cls'):
        params = params[1:]
    for k in call.keywords:
        if k.arg == pname:
            return k.value
    if pname in params:
        i = params.index(pname)
        if i < len(call.args) and not any(isinstance(a, ast.Starred) for a in call.args[: i + 1]):
            return call.args[i]
    return None


def is_transport_write(n):
    return isinstance(n, ast.Call) and isinstance(n.func, ast.Attribute) and n.func.attr == 'write' and (
        isinstance(n.func.value, ast.Attribute) and n.func.value.attr == 'transport'
    )


class Model:
    def __init__(self, ctx):
        self.ctx = ctx
        self.prog = prog = ctx.prog
        self.move_pol = move_facts(prog)[0]
        m = prog.module(COMMS)
        self.fields = None
        for v in m.globals.get('COMMAND', []):
            if isinstance(v, ast.Call) and len(v.args) >= 2 and isinstance(v.args[1], (ast.List, ast.Tuple)):
                self.fields = [e.value for e in v.args[1].elts if isinstance(e, ast.Constant)]
        if not self.fields or len(self.fields) != 4:
            raise AnalysisError('comms.COMMAND is no longer a 4-field namedtuple with literal field names')
        self.f_func, self.f_key, self.f_table, self.f_value = self.fields
        self.do = prog.func(WORKER_DO)
        self.worker = prog.cls(WORKER)
        self._ret = {}
        self._runs = {}
        self._busy = set()
        self._scopes = {}
        self.visited = 0

    def scope(self, func):
        s = self._scopes.get(func.qname)
        if s is None:
            s = self._scopes[func.qname] = Scope(self.prog, func=func)
        return s

    def cmd_field(self, call, name):
        i = self.fields.index(name)
        for k in call.keywords:
            if k.arg == name:
                return k.value
        if i < len(call.args) and not any(isinstance(a, ast.Starred) for a in call.args[: i + 1]):
            return call.args[i]
        return None

    def enum_member(self, sc, e, enum):
        """name of the member when e resolves to <enum>.<member>[.value]"""
        sym = sc.resolve(e) if isinstance(e, (ast.Name, ast.Attribute)) else None
        if sym and sym.startswith(enum + '.'):
            rest = sym[len(enum) + 1 :].split('.')
            if len(rest) == 1 or (len(rest) == 2 and rest[1] == 'value'):
                return rest[0]
        return None

    def is_sender(self, sym):
        """the serializer's reply primitive: a Worker method that writes to self.transport"""
        fn = self.prog.funcs.get(sym)
        if fn is None or fn.cls is None or fn.cls.qname != WORKER:
            return False
        c = fn.__dict__.get('_c07_sender')
        if c is None:
            # what is written to the transport depends on the (first non-self) parameter, possibly through a framing helper
            c = False
            ps = fn.params()[1:]
            if ps:
                deps = Deps(self.prog, self.scope(fn))
                for n in fn.own_nodes():
                    if is_transport_write(n) and n.args and ('param', ps[0]) in deps.expr(n.args[0]):
                        c = True
            fn.__dict__['_c07_sender'] = c
        return c

    def is_framer(self, fn):
        """pickles its first parameter and returns bytes depending on it (wire framing helper)"""
        if fn is None or not fn.params():
            return False
        c = fn.__dict__.get('_c07_framer')
        if c is None:
            p0 = fn.params()[0] if fn.cls is None or fn.is_staticmethod() else (fn.params()[1:] or [None])[0]
            dumps = any(
                (self.prog.callee(n, fn) or '') == 'external:pickle.dumps' and n.args and isinstance(n.args[0], ast.Name) and n.args[0].id == p0
                for n in fn.calls()
            )
            deps = Deps(self.prog, self.scope(fn))
            rets = [n for n in fn.own_nodes() if isinstance(n, ast.Return) and n.value is not None]
            c = fn.__dict__['_c07_framer'] = bool(p0) and dumps and bool(rets) and all(('param', p0) in deps.expr(n.value) for n in rets)
        return c

    def returns_unpickled(self, fn, e, depth=0):
        if isinstance(e, ast.Name):
            a = self.scope(fn).assigns().get(e.id, [])
            return bool(a) and all(sel is None and self.returns_unpickled(fn, v, depth) for v, sel in a)
        if not isinstance(e, ast.Call):
            return False
        sym = self.prog.callee(e, fn) or ''
        if sym == 'external:pickle.loads':
            return True
        g = self.prog.func_of(sym) if sym else None
        if g is not None and sym not in self.prog.classes and depth < 2:
            rets = [n for n in g.own_nodes() if isinstance(n, ast.Return) and n.value is not None]
            return bool(rets) and all(self.returns_unpickled(g, n.value, depth + 1) for n in rets)
        return False

    def is_rpc_client(self, fn):
        """sends the pickled request and returns the unpickled reply"""
        if fn is None:
            return False
        rets = [n for n in fn.own_nodes() if isinstance(n, ast.Return) and n.value is not None]
        return bool(rets) and all(self.returns_unpickled(fn, n.value) for n in rets)

    def run(self, func):
        """interpret one function standalone ; returns the _Sig with its events"""
        r = self._runs.get(func.qname)
        if r is None:
            if func.qname in self._busy:
                return None
            self._busy.add(func.qname)
            r = _Sig(self, func)
            if func.qname == WORKER_DO:
                params = func.params()
                r.req = frozenset(params[1:2])
            penv = frozenset((p, ('par', p, 1)) for p in func.params() if p not in ('self', 'cls'))
            r.out = r.run(func.node, (('?', '?', False) if func.qname == WORKER_DO else NOSTATE, penv))
            self.visited += r.visited
            self._busy.discard(func.qname)
            self._runs[func.qname] = r
        return r

    def reporters(self):
        """functions that contain a new_values((name, flag)) call (their callers' arguments are recorded)"""
        c = self.__dict__.get('_reporters')
        if c is None:
            c = self.__dict__['_reporters'] = {f.qname for f, _c in _newv_sites(self.prog)}
        return c

    def ret_summary(self, func):
        if func.qname in self._ret:
            return self._ret[func.qname]
        r = self.run(func)
        v = None
        if r is not None:
            vals = {eget(env, '<ret>') for _c, env in r.out.ret} | ({None} if r.out.normal else set())
            if len(vals) == 1:
                v = next(iter(vals))
            self._ret[func.qname] = v
        return v

    def rpc_reply(self, fname):
        """what the serializer sends back in the branch of Func.<fname>: the common abstract value of every reply there"""
        r = self.run(self.do)
        if r is None:
            return None
        vals = set()
        for (kind, _n), (_f, _node, obs) in r.events.items():
            if kind == 'send':
                vals |= {x for (c, x) in obs if c[0] == fname}
        return next(iter(vals)) if len(vals) == 1 else None


class _Sig(Flow):
    """state = (ctx, env): ctx = (branch of the request dispatch, table of the request, has move been called) ;
    env: local -> abstract value in
      ('pair', p) result of move ; ('name',) its first component ; ('flag', p) its second component with polarity p
      relative to 'identical content was already stored' ; ('enc', None|0|1) result of encode / its components ; ('sql',) an
      INSERT INTO Prime text"""

    def __init__(self, model, func):
        super().__init__()
        self.m = model
        self.prog = model.prog
        self.func = func
        self.req = frozenset()
        self.depth = 0
        self.events = {}
        self.inlined = {}

    # -- bookkeeping
    def event(self, kind, node, ctx, extra):
        k = (kind, id(node))
        e = self.events.get(k)
        if e is None:
            e = self.events[k] = (self.func, node, set())
        e[2].add((ctx, extra))

    def sc(self):
        return self.m.scope(self.func)

    # -- abstract values
    def aval(self, e, st):
        env = st[1]
        if isinstance(e, ast.Name):
            return eget(env, e.id)
        if isinstance(e, ast.Call):
            v = eget(env, callkey(e))
            if v is not None:
                return v
            sym = self.prog.callee(e, self.func) or ''
            if sym == MOVE:
                return ('pair', self.m.move_pol)
            if sym == ENCODE:
                return ('enc', None)
            if sym == 'external:bool' and len(e.args) == 1:
                return self.aval(e.args[0], st)
            if e.args and (sym == 'external:pickle.dumps' or self.m.is_framer(self.prog.funcs.get(sym))):
                v = self.aval(e.args[0], st)
                return ('wire', v) if v is not None else None
            if e.args and isinstance(e.args[0], ast.Call) and self.prog.callee(e.args[0], self.func) == COMMAND:
                fn = self.prog.func_of(sym) if sym else None
                fname = self.m.enum_member(self.sc(), self.m.cmd_field(e.args[0], self.m.f_func), FUNC)
                if fname and self.m.is_rpc_client(fn) and self.func.qname != WORKER_DO:
                    return self.m.rpc_reply(fname)
                return None
            fn = self.prog.func_of(sym) if sym else None
            if fn is not None and sym not in self.prog.classes and fn.qname != self.func.qname:
                v = self.m.ret_summary(fn)
                if v and v[0] == 'par':
                    a = call_arg(e, fn, v[1])
                    av = self.aval(a, st) if a is not None else None
                    return (av if v[2] > 0 else sig_neg(av)) if is_sig(av) else None
                return v
            return None
        if isinstance(e, ast.Subscript) and isinstance(e.slice, ast.Constant) and isinstance(e.slice.value, int):
            v = self.aval(e.value, st)
            if v and v[0] == 'pair' and e.slice.value in (0, 1):
                return ('name',) if e.slice.value == 0 else ('flag', v[1])
            if v == ('enc', None) and e.slice.value in (0, 1):
                return ('enc', e.slice.value)
            return None
        if isinstance(e, ast.UnaryOp) and isinstance(e.op, ast.Not):
            v = self.aval(e.operand, st)
            return sig_neg(v) if is_sig(v) else None
        if isinstance(e, ast.BinOp) and isinstance(e.op, ast.Add):
            # length prefix + pickled payload
            w = [v for v in (self.aval(e.left, st), self.aval(e.right, st)) if v is not None]
            return w[0] if len(w) == 1 and w[0][0] == 'wire' else None
        if isinstance(e, ast.BoolOp) and isinstance(e.op, ast.And) or isinstance(e, ast.BinOp) and isinstance(e.op, ast.BitAnd):
            # conjunction with another fact keeps the dependence on the existence signal monotone (post: "and a Prime row names it")
            vals = e.values if isinstance(e, ast.BoolOp) else [e.left, e.right]
            fl = [v for v in (self.aval(x, st) for x in vals) if v is not None]
            return fl[0] if len(fl) == 1 and is_sig(fl[0]) else None
        if isinstance(e, ast.Compare) and len(e.ops) == 1 and isinstance(e.comparators[0], ast.Constant) and isinstance(e.comparators[0].value, bool):
            v = self.aval(e.left, st)
            if is_sig(v):
                same = isinstance(e.ops[0], (ast.Is, ast.Eq))
                if not same and not isinstance(e.ops[0], (ast.IsNot, ast.NotEq)):
                    return None
                return v if same == e.comparators[0].value else sig_neg(v)
            return None
        if isinstance(e, ast.IfExp):
            v = self.aval(e.test, st)
            a, b = e.body, e.orelse
            if is_sig(v) and all(isinstance(x, ast.Constant) and isinstance(x.value, bool) for x in (a, b)) and a.value != b.value:
                return v if a.value else sig_neg(v)
            return None
        if isinstance(e, ast.Constant) or e is None:
            return None
        if has_insert_prime(e) and isinstance(e, (ast.BinOp, ast.Constant)):
            return ('sql',)
        return None

    # -- hooks
    def on_stmt(self, s, st):
        ctx, env = st
        self._table_anchor(s, st)
        if isinstance(s, (ast.Assign, ast.AnnAssign)) and s.value is not None:
            tg = s.targets if isinstance(s, ast.Assign) else [s.target]
            v = self.aval(s.value, st)
            if v is None and has_insert_prime(s.value) and not isinstance(s.value, ast.Call):
                v = ('sql',)
            for t in tg:
                if isinstance(t, ast.Name):
                    env = eset(env, t.id, v)
                elif isinstance(t, (ast.Tuple, ast.List)) and isinstance(s.value, (ast.Tuple, ast.List)) and len(t.elts) == len(s.value.elts) and all(isinstance(x, ast.Name) for x in t.elts):
                    vals = [self.aval(x, st) for x in s.value.elts]
                    for x, xv in zip(t.elts, vals):
                        env = eset(env, x.id, xv)
                elif isinstance(t, (ast.Tuple, ast.List)) and len(t.elts) == 2 and all(isinstance(x, ast.Name) for x in t.elts) and v and v[0] in ('pair', 'enc') and (v[0] == 'pair' or v[1] is None):
                    if v[0] == 'pair':
                        env = eset(eset(env, t.elts[0].id, ('name',)), t.elts[1].id, ('flag', v[1]))
                    else:
                        env = eset(eset(env, t.elts[0].id, ('enc', 0)), t.elts[1].id, ('enc', 1))
                else:
                    for n in target_names(t):
                        if not isinstance(t, (ast.Subscript, ast.Attribute)):
                            env = eset(env, n, None)
        elif isinstance(s, ast.AugAssign) and isinstance(s.target, ast.Name):
            cur = eget(env, s.target.id)
            keep = is_sig(cur) and isinstance(s.op, ast.BitAnd) and self.aval(s.value, st) is None
            if not keep:
                env = eset(env, s.target.id, None)
        return ((ctx, env),)

    def on_for(self, node, st):
        ctx, env = st
        for n in target_names(node.target):
            env = eset(env, n, None)
        return ((ctx, env),)

    def on_with(self, item, st):
        ctx, env = st
        if item.optional_vars is not None:
            for n in target_names(item.optional_vars):
                env = eset(env, n, None)
        return ((ctx, env),)

    def on_handler(self, h, st):
        ctx, env = st
        return ((ctx, eset(env, h.name, None) if h.name else env),)

    def on_return(self, node, st):
        self._table_anchor(node, st)
        ctx, env = st
        return ((ctx, eset(env, '<ret>', self.aval(node.value, st) if node.value is not None else None)),)

    def _table_anchor(self, node, st, value_of=None):
        for kind, anchor, val, sel in table_events(self.prog, self.sc()):
            if anchor is node and kind != 'read':
                self.event('table', node, st[0], (kind, self.sel_class(sel), self.aval(val, st) if val is not None else None, norm(val) if val is not None else ''))

    def sel_class(self, sel):
        if sel[0] == 'static':
            return 'prime' if sel[1] == 'prime' else 'nonprime'
        mem = self.m.enum_member(self.sc(), sel[1], TABLE)
        if mem:
            return 'prime' if mem == 'prime' else 'nonprime'
        if self._req_attr(sel[1], self.m.f_table) or (isinstance(sel[1], ast.Attribute) and sel[1].attr == 'value' and self._req_attr(sel[1].value, self.m.f_table)):
            return 'req'
        return '?'

    def _req_attr(self, e, field):
        if isinstance(e, ast.Name) and e.id not in self.req:
            # local alias of a request field: func = request.func
            a = self.sc().assigns().get(e.id, [])
            if len(a) != 1 or a[0][1] is not None or not isinstance(a[0][0], ast.Attribute):
                return False
            v = a[0][0]
            if field != 'value' and v.attr == 'value' and isinstance(v.value, ast.Attribute):
                v = v.value  # enum member's .value
            return self._req_attr(v, field)
        return isinstance(e, ast.Attribute) and e.attr == field and isinstance(e.value, ast.Name) and e.value.id in self.req

    def on_test(self, e, st):
        (branch, tbl, moved), env = st
        if self.req and isinstance(e, ast.Compare) and len(e.ops) == 1:
            a, b, op = e.left, e.comparators[0], e.ops[0]
            for x, y in ((a, b), (b, a)):
                if self._req_attr(x, self.m.f_func):
                    if isinstance(op, (ast.Eq, ast.Is, ast.NotEq, ast.IsNot)):
                        mem = self.m.enum_member(self.sc(), y, FUNC)
                        if mem:
                            hit = [((mem, tbl, moved), env)] if branch in ('?', mem) else []
                            miss = [st] if branch != mem else []
                            return (hit, miss) if isinstance(op, (ast.Eq, ast.Is)) else (miss, hit)
                    if isinstance(op, (ast.In, ast.NotIn)) and x is a and isinstance(y, (ast.List, ast.Tuple, ast.Set)):
                        mems = [self.m.enum_member(self.sc(), el, FUNC) for el in y.elts]
                        if all(mems):
                            hit = [(((mems[0] if len(mems) == 1 else branch), tbl, moved), env)] if branch == '?' or branch in mems else []
                            miss = [st] if branch not in mems else []
                            return (hit, miss) if isinstance(op, ast.In) else (miss, hit)
                    return (st,), (st,)
                tx = x.value if isinstance(x, ast.Attribute) and x.attr == 'value' else x
                if self._req_attr(tx, self.m.f_table) and isinstance(op, (ast.Eq, ast.Is, ast.NotEq, ast.IsNot)):
                    mem = self.m.enum_member(self.sc(), y, TABLE)
                    if mem:
                        if mem == 'prime':
                            hit = [((branch, 'prime', moved), env)] if tbl != 'nonprime' else []
                            miss = [((branch, 'nonprime', moved), env)] if tbl != 'prime' else []
                        else:
                            hit = [((branch, 'nonprime', moved), env)] if tbl != 'prime' else []
                            miss = [st]
                        return (hit, miss) if isinstance(op, (ast.Eq, ast.Is)) else (miss, hit)
        return (st,), (st,)

    def on_call(self, call, st):
        ctx, env = st
        sym = self.prog.callee(call, self.func) or ''
        self._table_anchor(call, st)
        if sym == MOVE:
            self.event('move', call, ctx, self._provenance(call, st))
            return (((ctx[0], ctx[1], True), env),)
        if sym == COMMAND:
            fname = self.m.enum_member(self.sc(), self.m.cmd_field(call, self.m.f_func), FUNC)
            val = self.m.cmd_field(call, self.m.f_value)
            tab = self.m.cmd_field(call, self.m.f_table)
            self.event('command', call, ctx, (fname, self.aval(val, st) if val is not None else None, norm(tab) if tab is not None else None))
            return (st,)
        if self.m.is_sender(sym):
            self.event('send', call, ctx, self.aval(call.args[0], st) if call.args else None)
            return (st,)
        if self.req and is_transport_write(call) and call.args:
            v = self.aval(call.args[0], st)
            self.event('send', call, ctx, v[1] if v and v[0] == 'wire' else None)
            return (st,)
        if call_name(call) == 'new_values' and len(call.args) == 1 and not call.keywords:
            a = call.args[0]
            v = self.aval(a.elts[1], st) if isinstance(a, ast.Tuple) and len(a.elts) == 2 else None
            self.event('newv', call, ctx, v)
            return (st,)
        if sym == 'dawgie.pl.message.make':
            for k in call.keywords:
                if k.arg == 'val':
                    self.event('reply', call, ctx, (self.aval(k.value, st), norm(k.value)))
            return (st,)
        argv = [a.value if isinstance(a, ast.Starred) else a for a in call.args] + [k.value for k in call.keywords]
        if has_insert_prime(call) or any(self.aval(a, st) == ('sql',) for a in argv if isinstance(a, ast.Name)):
            names = {n.id for a in argv for n in ast.walk(a) if isinstance(n, ast.Name)}
            self.event('insert', call, ctx, frozenset(v for v in (eget(env, n) for n in names) if v is not None))
            return (st,)
        fn = self.prog.funcs.get(sym)
        if fn is None and sym:
            fn = self.prog.func_of(sym) if sym not in self.prog.classes else None
        if fn is not None and fn.qname in self.m.reporters():
            params = [p for p in fn.params() if p not in ('self', 'cls')]
            self.event('harg', call, ctx, tuple((p, self.aval(call_arg(call, fn, p), st) if call_arg(call, fn, p) is not None else None) for p in params))
        # helpers of the serializer called on self (or module functions next to it) are inlined
        fn = self.prog.funcs.get(sym)
        if (
            self.req
            and fn is not None
            and self.depth < MAX_INLINE
            and fn.qname != self.func.qname
            and fn.module.name == COMMS
            and (fn.cls is None or fn.cls.qname == WORKER)
            and not isinstance(fn.node, ast.AsyncFunctionDef)
        ):
            return self._inline(call, st, fn)
        return (st,)

    def _provenance(self, call, st):
        args = call.args
        if len(args) == 1 and isinstance(args[0], ast.Starred) and not call.keywords:
            x = args[0].value
            if self.aval(x, st) == ('enc', None):
                return ('encode',)
            if self._req_attr(x, self.m.f_value):
                return ('request-value',)
            return ('unknown', norm(x))
        if len(args) == 2 and not call.keywords and not any(isinstance(a, ast.Starred) for a in args):
            a, b = args
            if self.aval(a, st) == ('enc', 0) and self.aval(b, st) == ('enc', 1):
                return ('encode',)
            if all(isinstance(x, ast.Attribute) and isinstance(x.value, ast.Name) for x in (a, b)) and a.value.id == b.value.id and a.value.id in self.func.params():
                return ('relay', a.value.id, a.attr, b.attr)
        return ('unknown', norm(call)[:80])

    def _inline(self, call, st, fn):
        ctx, env = st
        params = fn.params()
        if fn.cls is not None and not fn.is_staticmethod() and params:
            params = params[1:]
        cenv = frozenset()
        req = set()
        pos = [a for a in call.args]
        if any(isinstance(a, ast.Starred) for a in pos) or len(pos) > len(params):
            return (st,)
        binds = list(zip(params, pos)) + [(k.arg, k.value) for k in call.keywords if k.arg in params]
        for pn, a in binds:
            cenv = eset(cenv, pn, self.aval(a, st))
            if isinstance(a, ast.Name) and a.id in self.req:
                req.add(pn)
        saved = (self.func, self.req, self.depth)
        self.func, self.req, self.depth = fn, frozenset(req), self.depth + 1
        self.inlined.setdefault(fn.qname, set()).add(saved[0].qname)
        try:
            o = self.block(fn.node.body, {(ctx, cenv)})
        finally:
            self.func, self.req, self.depth = saved
        outs = set()
        k = callkey(call)
        for c2, _e2 in o.normal:
            outs.add((c2, eset(env, k, None)))
        for c2, e2 in o.ret:
            outs.add((c2, eset(env, k, eget(e2, '<ret>'))))
        if self._try and o.exc:
            self._try[-1] |= {(c2, env) for c2, _e2 in o.exc}
        return outs


def sel_class(model, sc, sel, req=frozenset()):
    """'prime' | 'nonprime' | 'req' (the table named by the request) | '?'"""
    if sel[0] == 'static':
        return 'prime' if sel[1] == 'prime' else 'nonprime'
    mem = model.enum_member(sc, sel[1], TABLE)
    if mem:
        return 'prime' if mem == 'prime' else 'nonprime'
    e = sel[1]
    if isinstance(e, ast.Attribute) and e.attr == 'value':
        e = e.value
    if isinstance(e, ast.Attribute) and e.attr == model.f_table and isinstance(e.value, ast.Name) and e.value.id in req:
        return 'req'
    return '?'


def method_callers(prog, meth):
    """call sites that do, or (receiver not resolvable, arity compatible) may, call the method: [(scope, call, definite)]"""
    params = meth.params()[1:] if meth.cls is not None and not meth.is_staticmethod() else meth.params()
    required = len(params) - len(meth.node.args.defaults)
    out = []
    for sc in all_scopes(prog):
        if f'.{meth.name}(' not in sc.module.source and f'{meth.name}(' not in sc.module.source:
            continue
        for n in sc.nodes():
            if not (isinstance(n, ast.Call) and call_name(n) == meth.name):
                continue
            sym = sc.callee(n)
            fn = prog.func_of(sym) if sym else None
            if fn is not None and fn.qname == meth.qname:
                out.append((sc, n, True))
            elif fn is None and (sym is None or sym.startswith('local:') or sym.startswith('self.')):
                k = len(n.args) + len(n.keywords)
                if required <= k <= len(params) and not any(isinstance(a, ast.Starred) for a in n.args):
                    out.append((sc, n, False))
    return out


def command_sites(prog):
    c = prog.__dict__.get('_c07_cmds')
    if c is None:
        c = []
        for sc in all_scopes(prog):
            if 'COMMAND' not in sc.module.source:
                continue
            for n in sc.nodes():
                if isinstance(n, ast.Call) and sc.callee(n) == COMMAND:
                    c.append((sc, n))
        prog.__dict__['_c07_cmds'] = c
    return c


def client_tables(model, fname):
    """tables that in-repo clients name in requests of Func.<fname>: (set of member names, [unresolved texts])"""
    prog = model.prog
    tabs, unknown = set(), []
    for sc, call in command_sites(prog):
        if model.enum_member(sc, model.cmd_field(call, model.f_func), FUNC) != fname:
            continue
        t = model.cmd_field(call, model.f_table)
        mem = model.enum_member(sc, t, TABLE) if t is not None else None
        if mem:
            tabs.add(mem)
        elif isinstance(t, ast.Constant) and t.value is None:
            continue
        elif isinstance(t, ast.Name) and sc.func is not None and t.id in sc.params() and t.id not in sc.assigns():
            g = sc.func
            params = g.params()[1:] if g.cls is not None and not g.is_staticmethod() else g.params()
            i = params.index(t.id)
            callers = method_callers(prog, g)
            if not callers:
                continue
            for csc, c, _definite in callers:
                a = c.args[i] if i < len(c.args) else next((k.value for k in c.keywords if k.arg == t.id), None)
                mem = model.enum_member(csc, a, TABLE) if a is not None else None
                if mem:
                    tabs.add(mem)
                else:
                    unknown.append(f'{csc.qname}: {norm(c)[:60]}')
        else:
            unknown.append(f'{sc.qname}: {norm(call)[:60]}')
    return tabs, unknown


# ---------------------------------------------------------------------------
# file operations on paths derived from dawgie.context.data_dbs (whole program)


class Taint:
    """shapes of path values derived from data_dbs: 'root' (the directory), 'blob' (a direct child with a computed name),
    'subdir' (below a constant-named subdirectory, e.g. the chronicles journal: not part of the blob namespace)"""

    def __init__(self, prog):
        self.prog = prog
        self.param = {}
        self.sinks = {}
        self.scopes = {sc.qname: sc for sc in all_scopes(prog)}
        todo = [sc for sc in self.scopes.values() if 'data_dbs' in sc.module.source]
        rounds = 0
        while todo and rounds < 6:
            rounds += 1
            nxt = {}
            for sc in todo:
                for q in self.analyse(sc):
                    if q in self.scopes:
                        nxt[q] = self.scopes[q]
            todo = list(nxt.values())

    def shp(self, sc, e, names):
        if e is None or isinstance(e, ast.Constant):
            return set()
        if isinstance(e, (ast.Attribute, ast.Name)):
            if sc.resolve(e) == CTX_DBS:
                return {'root'}
            if isinstance(e, ast.Name):
                return set(names.get(e.id, ()))
            return self.shp(sc, e.value, names)
        if isinstance(e, ast.Call):
            sym = sc.callee(e) or ''
            args = [a.value if isinstance(a, ast.Starred) else a for a in e.args]
            if sym == 'external:os.path.join' and args:
                base = self.shp(sc, args[0], names)
                rest = set()
                for a in args[1:]:
                    rest |= self.shp(sc, a, names)
                if 'root' in base:
                    base = (base - {'root'}) | ({'subdir'} if len(args) > 1 and isinstance(args[1], ast.Constant) and isinstance(args[1].value, str) else {'blob'})
                return base | rest
            out = set()
            for a in args + [k.value for k in e.keywords]:
                out |= self.shp(sc, a, names)
            if isinstance(e.func, ast.Attribute):
                out |= self.shp(sc, e.func.value, names)
            if sym in ('external:os.listdir', 'external:os.walk', 'external:os.scandir', 'external:glob.glob') and 'root' in out:
                out = (out - {'root'}) | {'blob'}
            return out
        out = set()
        for c in ast.iter_child_nodes(e):
            if isinstance(c, ast.expr):
                out |= self.shp(sc, c, names)
            elif isinstance(c, ast.comprehension):
                out |= self.shp(sc, c.iter, names)
        if isinstance(e, (ast.BinOp, ast.JoinedStr)) and 'root' in out:
            out = (out - {'root'}) | {'blob'}
        return out

    def analyse(self, sc):
        names = {p: set(s) for (q, p), s in self.param.items() if q == sc.qname}
        for _ in range(6):
            changed = False
            for n, vals in sc.assigns().items():
                s = set(names.get(n, ()))
                for value, _sel in vals:
                    s |= self.shp(sc, value, names)
                if s != names.get(n, set()):
                    names[n] = s
                    changed = True
            if not changed:
                break
        touched = set()
        for c in sc.nodes():
            if not isinstance(c, ast.Call):
                continue
            sym = sc.callee(c) or ''
            rel = []
            kind = None
            if sym in FILE_OPS:
                kind, idx = FILE_OPS[sym]
                if kind == 'copy':
                    idx = (1,)
                rel = [c.args[i] for i in idx if i < len(c.args)]
            elif isinstance(c.func, ast.Name) and c.func.id == 'open' and c.args and write_mode(c):
                kind, rel = 'write', [c.args[0]]
            elif isinstance(c.func, ast.Attribute) and c.func.attr in PATH_METHODS and self.shp(sc, c.func.value, names):
                kind, rel = PATH_METHODS[c.func.attr], [c.func.value]
            elif sym.startswith(SHELL):
                kind, rel = 'shell', list(c.args)
            elif sym in ('external:os.makedirs', 'external:os.mkdir'):
                kind, rel = 'mkdir', c.args[:1]
            if kind:
                s = set()
                for a in rel:
                    s |= self.shp(sc, a, names)
                if s:
                    self.sinks[(sc.qname, id(c))] = (sc, c, kind, 'blob' if s & {'root', 'blob'} else 'subdir')
                continue
            fn = self.prog.func_of(sym) if sym else None
            if fn is not None and sym not in self.prog.classes:
                params = fn.params()
                if fn.cls is not None and not fn.is_staticmethod() and params and params[0] in ('self', 'cls'):
                    params = params[1:]
                binds = [(params[i], a) for i, a in enumerate(c.args) if i < len(params) and not isinstance(a, ast.Starred)]
                binds += [(k.arg, k.value) for k in c.keywords if k.arg in params]
                for pn, a in binds:
                    s = self.shp(sc, a, names)
                    if s - self.param.get((fn.qname, pn), set()):
                        self.param.setdefault((fn.qname, pn), set()).update(s)
                        touched.add(fn.qname)
        return touched


EXITS = {'external:sys.exit', 'external:exit', 'external:quit', 'external:os._exit'}
SNAPSHOT_WRAPPERS = {'external:list', 'external:set', 'external:frozenset', 'external:tuple', 'external:sorted'}


class _Purge(Flow):
    """state = (catalogue snapshot: ?/empty/nonempty, (loop variable, ?/ref/unref) or None)"""

    def __init__(self, prog, sc, taint):
        super().__init__()
        self.prog, self.sc = prog, sc
        self.cat, self.fn = set(), set()
        self.unlinks = {}
        self.problems = []
        sinks = {id(c) for (q, _i), (s, c, k, cl) in taint.sinks.items() if q == sc.qname and cl == 'blob'}
        self.sink_ids = sinks
        for n, vals in sc.assigns().items():
            if len(vals) == 1 and vals[0][1] is None and self._snapshot(vals[0][0]):
                self.cat.add(n)
        self.pre = {}  # loop variable -> '?' | 'unref' (the iterable is already filtered by "not in <snapshot>")
        for n in sc.nodes():
            if isinstance(n, (ast.For, ast.AsyncFor)) and isinstance(n.target, ast.Name):
                k = self._listing(n.iter)
                if k is not None:
                    self.fn.add(n.target.id)
                    self.pre[n.target.id] = k if self.pre.get(n.target.id, k) == k else '?'

    def _is_root(self, e, seen=()):
        if self.sc.resolve(e) == CTX_DBS:
            return True
        if isinstance(e, ast.Name) and e.id not in seen:
            a = self.sc.assigns().get(e.id, [])
            return len(a) == 1 and a[0][1] is None and self._is_root(a[0][0], seen + (e.id,))
        return False

    def _not_in_cat(self, test, var):
        return (
            isinstance(test, ast.Compare)
            and len(test.ops) == 1
            and isinstance(test.ops[0], ast.NotIn)
            and isinstance(test.left, ast.Name)
            and test.left.id == var
            and isinstance(test.comparators[0], ast.Name)
            and test.comparators[0].id in self.cat
        )

    def _listing(self, e, seen=()):
        """None when e is not a listing of the store directory ; else '?' or 'unref' when it is pre-filtered"""
        if isinstance(e, ast.Name) and e.id not in seen:
            a = self.sc.assigns().get(e.id, [])
            if len(a) == 1 and a[0][1] is None:
                return self._listing(a[0][0], seen + (e.id,))
            return None
        if isinstance(e, ast.Call):
            sym = self.sc.callee(e) or ''
            if sym == 'external:os.listdir' and e.args and self._is_root(e.args[0]):
                return '?'
            if sym in SNAPSHOT_WRAPPERS and len(e.args) == 1:
                return self._listing(e.args[0], seen)
            if sym == 'external:filter' and len(e.args) == 2 and isinstance(e.args[0], ast.Lambda):
                k = self._listing(e.args[1], seen)
                lam = e.args[0]
                if k is not None and len(lam.args.args) == 1:
                    conj = lam.body.values if isinstance(lam.body, ast.BoolOp) and isinstance(lam.body.op, ast.And) else [lam.body]
                    if any(self._not_in_cat(t, lam.args.args[0].arg) for t in conj):
                        return 'unref'
                return k
            if isinstance(e.func, ast.Attribute) and e.func.attr == 'difference' and len(e.args) == 1:
                k = self._listing(e.func.value, seen)
                if k is not None and isinstance(e.args[0], ast.Name) and e.args[0].id in self.cat:
                    return 'unref'
                return k
            return None
        if isinstance(e, (ast.ListComp, ast.SetComp, ast.GeneratorExp)) and len(e.generators) == 1:
            g = e.generators[0]
            k = self._listing(g.iter, seen)
            if k is not None and isinstance(g.target, ast.Name) and isinstance(e.elt, ast.Name) and e.elt.id == g.target.id:
                conj = []
                for t in g.ifs:
                    conj += t.values if isinstance(t, ast.BoolOp) and isinstance(t.op, ast.And) else [t]
                if any(self._not_in_cat(t, g.target.id) for t in conj):
                    return 'unref'
                return k
            return None
        if isinstance(e, ast.BinOp) and isinstance(e.op, ast.Sub):
            k = self._listing(e.left, seen)
            r = e.right
            if isinstance(r, ast.Call) and (self.sc.callee(r) or '') in SNAPSHOT_WRAPPERS and len(r.args) == 1:
                r = r.args[0]
            if k is not None and isinstance(r, ast.Name) and r.id in self.cat:
                return 'unref'
            return k
        return None

    def _snapshot(self, e):
        if isinstance(e, ast.Call):
            sym = self.sc.callee(e) or ''
            if sym in PRIME_VALUES:
                return True
            if sym in SNAPSHOT_WRAPPERS and len(e.args) == 1:
                return self._snapshot(e.args[0])
        return False

    def on_test(self, e, st):
        vals, ref = st
        if isinstance(e, ast.Name) and e.id in self.cat:
            return ((('nonempty', ref),) if vals != 'empty' else ()), ((('empty', ref),) if vals != 'nonempty' else ())
        if isinstance(e, ast.Compare) and len(e.ops) == 1:
            a, op, b = e.left, e.ops[0], e.comparators[0]
            if isinstance(a, ast.Call) and (self.sc.callee(a) or '') == 'external:len' and a.args and isinstance(a.args[0], ast.Name) and a.args[0].id in self.cat and isinstance(b, ast.Constant) and b.value == 0:
                ne, em = (('nonempty', ref),) if vals != 'empty' else (), (('empty', ref),) if vals != 'nonempty' else ()
                if isinstance(op, ast.Eq):
                    return em, ne
                if isinstance(op, (ast.Gt, ast.NotEq)):
                    return ne, em
            if isinstance(a, ast.Name) and a.id in self.fn and isinstance(b, ast.Name) and b.id in self.cat and isinstance(op, (ast.In, ast.NotIn)):
                cur = ref[1] if ref and ref[0] == a.id else '?'
                r_, u_ = ((vals, (a.id, 'ref')),) if cur != 'unref' else (), ((vals, (a.id, 'unref')),) if cur != 'ref' else ()
                return (r_, u_) if isinstance(op, ast.In) else (u_, r_)
        return (st,), (st,)

    def on_for(self, node, st):
        if isinstance(node.target, ast.Name) and node.target.id in self.fn:
            return ((st[0], (node.target.id, self.pre.get(node.target.id, '?'))),)
        return (st,)

    def on_stmt(self, s, st):
        if isinstance(s, (ast.Assign, ast.AugAssign, ast.AnnAssign)):
            tg = s.targets if isinstance(s, ast.Assign) else [s.target]
            if any(n in self.cat for t in tg for n in target_names(t)) and not (isinstance(s, ast.Assign) and self._snapshot(s.value)):
                self.problems.append((s, 'the catalogue snapshot is changed after it was taken'))
                return (('?', st[1]),)
        return (st,)

    def on_call(self, call, st):
        sym = self.sc.callee(call) or ''
        if sym in EXITS:
            return ()
        if isinstance(call.func, ast.Attribute) and isinstance(call.func.value, ast.Name) and call.func.value.id in self.cat and call.func.attr in ('clear', 'remove', 'pop', 'append', 'extend', 'discard', 'add', 'update', 'insert'):
            self.problems.append((call, 'the catalogue snapshot is changed after it was taken'))
            return (('?', st[1]),)
        if id(call) in self.sink_ids:
            self.unlinks.setdefault(id(call), (call, set()))[1].add(st)
        return (st,)


# ---------------------------------------------------------------------------
# R-C07-3  polarity of the novelty signal


def _ctxs(obs):
    return sorted({str(c) for c, _x in obs})


def _newv_sites(prog):
    out = []
    for f in prog.funcs.values():
        if 'new_values' not in f.module.source:
            continue
        for c in f.calls():
            if call_name(c) == 'new_values' and len(c.args) == 1 and not c.keywords:
                out.append((f, c))
    return out


def _rule3(model, rep):
    prog = model.prog
    with rep.rule(
        'R-C07-3',
        'the flag handed to new_values is the negation of "identical content was already stored": the polarity is followed from the '
        'existence decision in db.util.move through the serializer reply, the RPC client and every local rebinding',
        floor=4,
        breaks='the rescheduling signal is inverted or constant: changed results do not trigger dependents, or unchanged ones always do',
    ) as r:
        if not any(q.endswith('.Task.new_values') for q in prog.funcs):
            raise AnalysisError('dawgie.Task.new_values not found')
        # (a) what the serializer replies in the Func.set branch
        run = model.run(model.do)
        rep.analysed(model.do)
        sends = [(f, n, obs) for (k, _i), (f, n, obs) in run.events.items() if k == 'send' and any(c[0] == 'set' for c, _x in obs)]
        for f, n, obs in sends:
            r.instance()
            vals = {x for c, x in obs if c[0] == 'set'}
            one = next(iter(vals)) if len(vals) == 1 else None
            good = bool(one) and one[0] == 'flag' and one[1] != 0
            r.check(
                good,
                f'{f.qname}:{norm(n)}',
                where(f, n),
                f'reply in the Func.set branch is move\'s flag with polarity {one[1] if good else "?"}',
                f'the reply {norm(n)} of the Func.set branch is not (a fixed polarity of) the flag returned by db.util.move: {sorted(str(v) for v in vals)}',
            )
        if not sends:
            r.fail(f'{WORKER_DO}:no-reply-in-set-branch', where(model.do), 'no reply is sent in the Func.set branch of the serializer: the client cannot learn whether the content was new')
        # (b) every place that reports novelty
        for f, c in _newv_sites(prog):
            r.instance()
            rep.analysed(f)
            rn = model.run(f)
            ev = rn.events.get(('newv', id(c))) if rn is not None else None
            key = f'{f.qname}:new_values'
            if ev is None:
                r.fail(key, where(f, c), 'the new_values call was not reached by the interpreter (not understood)')
                continue
            vals = {x for _c, x in ev[2]}
            via = ''
            if vals and all(v and v[0] == 'par' for v in vals):
                # the flag is a parameter of this (helper) function: judge it with what each caller passes
                eff = set()
                callers = [(csc, cc) for csc, cc, _d in method_callers(prog, f) if csc.func is not None]
                for csc, cc in callers:
                    crn = model.run(csc.func)
                    cev = crn.events.get(('harg', id(cc))) if crn else None
                    for _cx, args in (cev[2] if cev else [(None, ())]):
                        amap = dict(args)
                        for v in vals:
                            av = amap.get(v[1])
                            eff.add((av if v[2] > 0 else sig_neg(av)) if is_sig(av) else None)
                    rep.analysed(csc.func)
                vals = eff or {None}
                via = f' (flag is a parameter; judged through {len(callers)} caller(s))'
            good = vals == {('flag', -1)}
            why = ''
            if not good:
                if vals == {('flag', 1)}:
                    why = 'it has the polarity of "already stored" (inverted: an even number of negations between move and new_values)'
                elif vals == {('flag', 0)}:
                    why = 'the flag returned by db.util.move is itself not a function of prior existence (see R-C07-2)'
                else:
                    why = f'it is not derived from the existence decision of db.util.move on every path (abstract values: {sorted(str(v) for v in vals)})'
            r.check(good, key, where(f, c), 'isnew == not (content already stored), on every path' + via, f'the novelty flag given to new_values in {f.qname}: {why}')
        # (c) the cloud relay hands move's result back unchanged
        for sc, call in _move_sites(prog):
            if sc.func is None:
                continue
            rn = model.run(sc.func)
            for (k, _i), (f, n, obs) in (rn.events.items() if rn else ()):
                if k == 'reply' and any(c[2] for c, _x in obs):
                    r.instance()
                    vals = {x[0] for c, x in obs if c[2]}
                    r.check(
                        vals == {('pair', model.move_pol)},
                        f'{f.qname}:{norm(n)[:60]}',
                        where(f, n),
                        'the relayed reply carries the (name, flag) pair of move unchanged',
                        f'the reply built after db.util.move in {f.qname} does not carry its result unchanged ({sorted(str(v) for v in vals)})',
                    )
        r.note('post: the flag is conjoined with "a Prime row already names the blob" (monotone, accepted); post _update_msv reports no novelty at all (sibling difference, harmless: no input can name __metric__)')
        r.extra['move_flag_polarity'] = model.move_pol


def _move_sites(prog):
    c = prog.__dict__.get('_c07_moves')
    if c is None:
        c = []
        for sc in all_scopes(prog):
            if 'move' not in sc.module.source:
                continue
            for n in sc.nodes():
                if isinstance(n, ast.Call) and sc.callee(n) == MOVE:
                    c.append((sc, n))
        prog.__dict__['_c07_moves'] = c
    return c


# ---------------------------------------------------------------------------
# R-C07-4  file first, catalogue entry second


def _rule4(model, rep):
    prog = model.prog
    with rep.rule(
        'R-C07-4',
        'every catalogue store of the update paths is preceded on all paths by db.util.move and records the name move returned '
        '(shelve: table store in the Func.set branch; post: INSERT INTO Prime built in the functions that call move)',
        floor=3,
        breaks='a crash (or an exception of move) between the two steps leaves a catalogue entry whose file does not exist',
    ) as r:
        run = model.run(model.do)
        for (k, _i), (f, n, obs) in run.events.items():
            if k != 'table':
                continue
            setobs = [(c, x) for c, x in obs if c[0] == 'set' and x[0] == 'store']
            if not setobs:
                continue
            r.instance()
            key = f'{f.qname}:{norm(n)[:90]}'
            unmoved = [c for c, _x in setobs if not c[2]]
            vals = {x[2] for _c, x in setobs}
            txt = next(iter(setobs))[1][3]
            if unmoved:
                r.fail(key, where(f, n), f'the catalogue store {norm(n)[:70]} is reachable in the Func.set branch before db.util.move was called (state {_ctxs(setobs)})')
            elif vals != {('name',)}:
                r.fail(key, where(f, n), f'the value stored in the catalogue ({txt or "not understood"}) is not the name returned by db.util.move on every path ({sorted(str(v) for v in vals)})')
            else:
                r.ok(key, 'reached only after move; stores the name move returned', where(f, n))
        for sc, _call in _move_sites(prog):
            f = sc.func
            if f is None or not f.module.name.startswith('dawgie.db.post'):
                continue
            rep.analysed(f)
            rn = model.run(f)
            for (k, _i), (g, n, obs) in (rn.events.items() if rn else ()):
                if k != 'insert':
                    continue
                r.instance()
                key = f'{g.qname}:INSERT-Prime'
                bad = [c for c, x in obs if not c[2] or ('name',) not in x]
                r.check(
                    not bad,
                    key,
                    where(g, n),
                    'the INSERT INTO Prime parameters contain the name returned by move (data dependence => move precedes it)',
                    f'an INSERT INTO Prime built in {g.qname} does not carry the name returned by db.util.move on every path: the row may name a file that was never stored',
                )
        r.note('post _retarget and promote insert Prime rows that copy the blob name of rows already catalogued: provenance across SQL result sets is not analysed (not decided)')


# ---------------------------------------------------------------------------
# R-C07-5  who may write the catalogue / the store


def _relay_contract(model):
    """field pair under which a replacement of db.util.move ships (staged, name): [(func, (fieldA, fieldB))] ; and the stores found"""
    prog = model.prog
    stores = []
    for sc in all_scopes(prog):
        if 'db.util' not in sc.module.source:
            continue
        for n in sc.nodes():
            tg = n.targets if isinstance(n, ast.Assign) else ([n.target] if isinstance(n, (ast.AugAssign, ast.AnnAssign)) else [])
            for t in tg:
                if isinstance(t, ast.Attribute) and sc.resolve(t) in (MOVE, ENCODE, DECODE):
                    stores.append((sc, n, sc.resolve(t)))
    make = prog.funcs.get('dawgie.pl.message.make')
    kw2field = {}
    if make is not None:
        for rt in make.own_nodes():
            if isinstance(rt, ast.Return) and isinstance(rt.value, ast.Call):
                for k in rt.value.keywords:
                    if isinstance(k.value, ast.Name):
                        kw2field[k.value.id] = k.arg
    contracts = []
    for sc, n, sym in stores:
        if sym != MOVE:
            continue
        tsym = sc.resolve(n.value) if isinstance(getattr(n, 'value', None), (ast.Name, ast.Attribute)) else None
        fn = prog.func_of(tsym) if tsym else None
        pair = None
        if fn is not None:
            ps = fn.params()[1:] if fn.cls is not None and not fn.is_staticmethod() else fn.params()
            for c in fn.calls():
                if prog.callee(c, fn) == 'dawgie.pl.message.make' and len(ps) >= 2:
                    m = {k.value.id: kw2field.get(k.arg) for k in c.keywords if isinstance(k.value, ast.Name)}
                    if m.get(ps[0]) and m.get(ps[1]):
                        pair = (m[ps[0]], m[ps[1]])
        contracts.append((sc, n, fn, pair))
    return stores, contracts


def _rule5(model, rep):
    prog = model.prog
    with rep.rule(
        'R-C07-5',
        'who may write: catalogue stores only in the Func.set branch, deletes only in shelve.remove; db.util.move only receives '
        '(staged file, name) pairs made by encode; files under data_dbs are changed only by db.util.move and by purge.py under its guards',
        floor=10,
        breaks='a catalogue entry is created without its file, a stored file is removed or rewritten while referenced, or a file is stored under a name that is not its digest',
    ) as r:
        run = model.run(model.do)
        inlined = set(run.inlined)
        # ---- (a) catalogue accesses
        proofs = {}
        for (k, _i), (f, n, obs) in run.events.items():
            if k != 'table':
                continue
            key = f'{f.qname}:{norm(n)[:90]}'
            for c, x in sorted(obs, key=str):
                kind, cls = x[0], x[1]
                if c[0] == 'set' and kind == 'store':
                    r.instance()
                    r.ok(key, 'catalogue store inside the Func.set branch (content decided by R-C07-4)', where(f, n), nontrivial=False)
                    continue
                r.instance()
                eff = cls if cls != 'req' else {'prime': 'prime', 'nonprime': 'nonprime'}.get(c[1], 'req?')
                if eff == 'nonprime':
                    r.ok(key + f'@{c[0]}', f'{kind} on a table proven not to be prime (guard on the request table / constant selection)', where(f, n))
                elif eff == 'req?' and kind == 'store' and c[0] not in ('?', '-'):
                    if c[0] not in proofs:
                        proofs[c[0]] = client_tables(model, c[0])
                    tabs, unknown = proofs[c[0]]
                    r.check(
                        'prime' not in tabs and not unknown and bool(tabs),
                        key + f'@{c[0]}',
                        where(f, n),
                        f'no guard, but every in-repository client of Func.{c[0]} names a constant table in {sorted(tabs)}',
                        f'table store in the Func.{c[0]} branch may hit the prime table: clients name {sorted(tabs)}' + (f', unresolved: {unknown[:3]}' if unknown else ''),
                    )
                else:
                    r.fail(key + f'@{c[0]}', where(f, n), f'{kind} on the prime table (or a table not shown to differ from it) outside the Func.set branch (dispatch state {c})')
        r.extra['client_tables'] = {k: sorted(v[0]) for k, v in proofs.items()}
        deletes = 0
        for sc in all_scopes(prog):
            if '.tables' not in sc.module.source or sc.module.name.startswith('dawgie.db.tools'):
                continue
            if sc.qname == WORKER_DO:
                continue
            evs = [e for e in table_events(prog, sc) if e[0] != 'read']
            if not evs:
                continue
            if sc.qname in inlined:
                callers = {e.src.qname for e in model.ctx.cg.callers(sc.qname) if e.kind == 'direct'}
                seen = {id(n) for (k, _i), (f, n, _o) in run.events.items() if k == 'table' and f.qname == sc.qname}
                if callers <= ({WORKER_DO} | inlined) and all(id(a) in seen for _k, a, _v, _s in evs):
                    continue
            for kind, anchor, _val, sel in evs:
                cls = sel_class(model, sc, sel)
                if cls == 'nonprime':
                    continue
                r.instance()
                key = f'{sc.qname}:{norm(anchor)[:90]}'
                if kind == 'delete' and cls == 'prime' and sc.qname == SHELVE_REMOVE:
                    deletes += 1
                    r.ok(key, 'catalogue delete inside shelve.remove (entry only; the file stays)', sc.where(anchor), nontrivial=False)
                else:
                    r.fail(key, sc.where(anchor), f'{kind} on the prime table in {sc.qname}: catalogue entries may only be stored by the Func.set branch of the serializer and deleted by shelve.remove')
        prog.func(SHELVE_REMOVE)
        # ---- (b) what db.util.move is given
        stores, contracts = _relay_contract(model)
        set_cmds = []
        for sc, call in command_sites(prog):
            if model.enum_member(sc, model.cmd_field(call, model.f_func), FUNC) == 'set' and sc.func is not None:
                rn = model.run(sc.func)
                ev = rn.events.get(('command', id(call))) if rn else None
                set_cmds.append((sc, call, {x[1] for _c, x in ev[2]} if ev else {None}))
        for sc, call in _move_sites(prog):
            r.instance()
            key = f'{sc.qname}:{norm(call)}'
            if sc.func is None:
                r.fail(key, sc.where(call), 'db.util.move called from module-level code: provenance of its arguments not understood')
                continue
            rep.analysed(sc.func)
            rn = model.run(model.do if sc.qname in inlined else sc.func)
            ev = rn.events.get(('move', id(call))) if rn else None
            if ev is None:
                r.fail(key, sc.where(call), 'this call of db.util.move was not reached by the interpreter (not understood)')
                continue
            for c, pv in sorted({(c if pv[0] == 'request-value' else None, pv) for c, pv in ev[2]}, key=str):
                if pv[0] == 'encode':
                    r.ok(key, 'arguments are the (staged file, name) pair returned by encode', sc.where(call))
                elif pv[0] == 'request-value':
                    bad = [f'{s.qname}: {norm(cl)[:50]}' for s, cl, vals in set_cmds if vals != {('enc', None)}]
                    r.check(
                        c[0] == 'set' and set_cmds and not bad,
                        key,
                        sc.where(call),
                        f'arguments are the value field of a Func.set request; all {len(set_cmds)} client construction(s) of such a request put the result of encode there',
                        'db.util.move receives the value field of the request, but ' + ('not in the Func.set branch' if c[0] != 'set' else f'a client builds COMMAND(Func.set, ...) with a value that is not the result of encode: {bad}' if bad else 'no client builds such a request'),
                    )
                elif pv[0] == 'relay':
                    good = [fn.qname for _s, _n, fn, pair in contracts if fn is not None and pair == (pv[2], pv[3])]
                    r.check(
                        bool(contracts) and len(good) == len(contracts),
                        key,
                        sc.where(call),
                        f'relay: message fields ({pv[2]}, {pv[3]}) are what the replacement(s) of db.util.move {good} ship as (staged, name)',
                        f'relay of db.util.move takes ({pv[2]}, {pv[3]}) from the message, but the client side ships (staged, name) as {[p for _s, _n, _f, p in contracts]}',
                    )
                else:
                    r.fail(key, sc.where(call), f'db.util.move is called with arguments not shown to be a (staged file, name) pair made by encode: {pv[1]}')
        for sc, n, sym in stores:
            tsym = sc.resolve(n.value) if isinstance(getattr(n, 'value', None), (ast.Name, ast.Attribute)) else None
            fn = prog.func_of(tsym) if tsym else None
            # accepted idiom: the cloud worker (no disk access) replaces the three store functions by relays to the pipeline host
            r.check(
                fn is not None and any(prog.callee(c, fn) == 'dawgie.pl.message.make' for c in fn.calls()),
                f'{sc.qname}:{norm(n)}',
                sc.where(n),
                f'{sym} replaced by the relay {fn.qname if fn else "?"} (cloud worker; argument order checked at the relay end)',
                f'{sym} is rebound in {sc.qname} to something that is not a message relay: the store functions are no longer the single authority',
                nontrivial=False,
            )
        for sc in all_scopes(prog):
            if 'db.util' not in sc.module.source:
                continue
            par = sc.parents()
            for n in sc.nodes():
                if isinstance(n, ast.Attribute) and isinstance(n.ctx, ast.Load) and sc.resolve(n) == MOVE:
                    p = par.get(id(n))
                    if not (isinstance(p, ast.Call) and p.func is n):
                        r.instance()
                        r.fail(f'{sc.qname}:{norm(p) if p is not None else norm(n)}'[:120], sc.where(n), 'db.util.move is used as a value (alias / callback): its callers can no longer be enumerated')
        # ---- (c) files under data_dbs
        taint = Taint(prog)
        purge_mod = prog.module(PURGE)
        purge_runs = {}
        subdirs = 0
        for (q, _i), (sc, call, kind, cls) in sorted(taint.sinks.items(), key=lambda kv: (kv[0][0], kv[1][1].lineno)):
            key = f'{q}:{norm(call)[:90]}'
            if cls == 'subdir':
                subdirs += 1
                r.ok(key, f'{kind} below a constant-named subdirectory of data_dbs (not the blob namespace; purge only touches plain files directly in data_dbs)', sc.where(call), nontrivial=False)
                continue
            r.instance()
            if q == MOVE:
                r.ok(key, 'inside db.util.move (decided by R-C07-2)', sc.where(call), nontrivial=False)
            elif sc.module is purge_mod and kind == 'unlink':
                fl = purge_runs.get(q)
                if fl is None:
                    fl = purge_runs[q] = _Purge(prog, sc, taint)
                    fl.block(sc.body, {('?', None)})
                    for node, msg in fl.problems:
                        r.fail(f'{q}:{norm(node)[:80]}', sc.where(node), msg)
                _c, sts = fl.unlinks.get(id(call), (call, set()))
                pathnames = {n.id for a in (call.args[:1] or [call.func]) for n in ast.walk(a) if isinstance(n, ast.Name)}
                for _ in range(4):  # temporaries: path = os.path.join(root, fn)
                    pathnames |= {n.id for x in list(pathnames) for v, _s in sc.assigns().get(x, []) for n in ast.walk(v) if isinstance(n, ast.Name)}
                bad = sorted(str(s) for s in sts if not (s[0] == 'nonempty' and s[1] and s[1][1] == 'unref' and s[1][0] in pathnames))
                r.check(
                    bool(sts) and not bad,
                    key,
                    sc.where(call),
                    'unlink reached only with a non-empty catalogue snapshot and the listed file name tested "not in" that snapshot',
                    'purge unlinks a file of the store '
                    + ('in a state where ' + '; '.join(bad) + ' (catalogue snapshot empty/untested, or the file is/ may be referenced)' if sts else 'at a place the interpreter did not reach'),
                )
                r.extra['purge_states'] = fl.visited
            else:
                r.fail(key, sc.where(call), f'{kind} of a path derived from dawgie.context.data_dbs outside db.util.move and purge.py: stored files may be removed or rewritten behind the catalogue')
        if not purge_runs:
            r.fail(f'{PURGE}:no-unlink', purge_mod.relpath, 'purge.py no longer unlinks files of data_dbs in a recognised form (guards cannot be checked)')
        r.extra['subdirectory_writes'] = subdirs
        r.note('offline tools under db/tools are outside the catalogue-writer scan by their own contract (pipeline down); purge.py is analysed for its guards')
        r.note('DBI.open/close/copy/save_as handle whole shelve files (life-cycle), not entries; not analysed here')


# ---------------------------------------------------------------------------


def _rule6(ctx, rep):
    """a request that failed on the server is not answered as if it had been served (added after seeded change C07-9:
    Worker.dataReceived caught every exception of do() and replied None; the client's `isnew = not <reply>` turned that
    into "new" for a set whose catalogue entry was never written)"""
    prog = ctx.prog
    W = 'dawgie.db.shelve.comms.Worker'
    with rep.rule(
        'R-C07-6',
        'the shelve server sends replies only from the branch that served the request: no reply primitive (_send / transport.write) is called from an except handler or finally block of Worker.dataReceived / Worker.do',
        floor=2,
        breaks='a set that failed half way is acknowledged with a made-up value: the client reports the content as new (or as stored) although the catalogue has no entry for it',
    ) as r:
        for name in ('dataReceived', 'do'):
            f = prog.nfunc(f'{W}.{name}')
            rep.analysed(f)
            r.instance()
            bad = []
            for t in [n for n in f.own_nodes() if isinstance(n, ast.Try)]:
                for blk in [h.body for h in t.handlers] + [t.finalbody]:
                    for b in blk:
                        for x in ast.walk(b):
                            if isinstance(x, ast.Call) and isinstance(x.func, ast.Attribute) and (x.func.attr == '_send' or (x.func.attr == 'write' and norm(x.func.value).endswith('transport'))):
                                bad.append(x)
            r.check(
                not bad,
                f'{f.qname}:no-reply-from-failure-path',
                where(f, bad[0] if bad else None),
                'replies are sent only where the request was served',
                f'{f.qname} answers from an exception path ({norm(bad[0])[:50] if bad else ""}): the client cannot tell a failed request from a served one',
            )


def check(ctx):
    rep = Report(
        PID,
        ctx.tier,
        ctx.prog,
        'Decides from db/util/__init__.py, db/shelve/comms.py, db/shelve/model.py, db/post/__init__.py, pl/worker/aws.py, db/tools/purge.py and a '
        'whole-program scan: (1) typestate + def-use: the store name is exactly {md5, sha1} of the staged file read after the pickle was closed; '
        '(2) path enumeration of db.util.move under an oracle for "destination existed": test before any file operation, unlink-staged / rename-into-store, '
        'flag a function of the decision; (3) interprocedural polarity of the novelty flag from that decision through serializer reply, RPC client and '
        'locals to every new_values call; (4) dominance/data dependence: catalogue store after move and of move\'s name (shelve Func.set, post INSERT); '
        '(5) who-may-write over all modules: catalogue stores/deletes, argument provenance of every move call (encode pair, RPC value field, cloud relay '
        'field agreement), file operations on data_dbs-derived paths, and the guards of purge.py. '
        'Not decided: atomicity of shutil.move across file systems, torn writes, digest collisions, concrete store contents after a history, '
        'provenance of blob names copied between Prime rows (post _retarget/promote).',
        assumptions=[
            'shutil.move / os.unlink / md5sum / sha1sum behave as documented; rename within one file system is atomic',
            'the reply to a COMMAND request is what the serializer passes to its reply primitive in the branch of that Func (RPC edge)',
            'requests reach the serializer only from the COMMAND constructions found in the repository',
        ],
    )
    rep.not_decided = [
        'atomicity of shutil.move across file systems, torn writes, digest collisions',
        'concrete store / catalogue contents after a history',
        'post: blob names copied from existing Prime rows (_retarget, promote)',
        'post _load/_update SQL semantics',
    ]
    _rule1(ctx, rep)
    _rule2(ctx, rep)
    model = Model(ctx)
    _rule3(model, rep)
    _rule4(model, rep)
    _rule5(model, rep)
    _rule6(ctx, rep)
    from . import shared

    shared.def_time_defaults(
        ctx, rep, 'R-C07-7',
        lambda mn: mn.startswith('dawgie.db') or mn == 'dawgie.tools.detach',
        'no function of the database layer has a default argument that is evaluated at import time (a call, or a dawgie.context setting such as the store directory, which context.override / the worker entry point assign afterwards)',
        'the existence test and the destination of db.util.move use different store directories: repeated content is reported new, or a catalogue entry points at a file that was discarded',
    )
    for q, rn in model._runs.items():
        if rn.events:
            rep.analysed(ctx.prog.funcs[q])
    rep.extra['interpreter_nodes_visited'] = model.visited
    rep.extra['functions_interpreted'] = len(model._runs)
    return rep


_U = 'db/util/__init__.py'
_C = 'db/shelve/comms.py'
_M = 'db/shelve/model.py'
_P = 'db/post/__init__.py'
_S = 'db/shelve/__init__.py'
_A = 'pl/worker/aws.py'
_G = 'db/tools/purge.py'
_MD5 = "m = _extract(subprocess.check_output(['md5sum', '-b', fn]))"
_MOVE_BODY = """exists = os.path.exists(nfn)

    if exists:
        os.unlink(fn)
    else:
        shutil.move(fn, nfn)"""
_SET3 = """value, exists = dawgie.db.util.move(*request.value)
            key = str(request.keyset)
            DBI().tables[request.table.value][key] = value"""

VARIANTS = [
    V('failed request answered with None', 'B', 'db/shelve/comms.py', 'Worker.dataReceived', 'finally:\n                        self.transport.loseConnection()', 'except Exception:\n                        self._send(None)\n                    finally:\n                        self.transport.loseConnection()', 'R-C07-6'),
    # ---- R-C07-1
    V('md5 taken of the value repr instead of the file', 'B', _U, 'encode', _MD5, 'm = str(hash(repr(value)))', 'R-C07-1'),
    V('digest taken while the pickle is still open', 'B', _U, 'encode',
      "pickle.dump(value, f, pickle.HIGHEST_PROTOCOL)\n    os.chmod(fn, int('0664', 8))  # -rw-rw-r--\n    " + _MD5,
      "pickle.dump(value, f, pickle.HIGHEST_PROTOCOL)\n        " + _MD5 + "\n    os.chmod(fn, int('0664', 8))", 'R-C07-1'),
    V('name carries the temporary file name', 'B', _U, 'encode', "result = '_'.join([m, s])", "result = '_'.join([m, s, os.path.basename(fn)])", 'R-C07-1'),
    V('name is the sha1 only', 'B', _U, 'encode', "result = '_'.join([m, s])", "result = s", 'R-C07-1'),
    V('something else is pickled', 'B', _U, 'encode', 'pickle.dump(value, f,', 'pickle.dump(repr(value), f,', 'R-C07-1'),
    V('file rewritten after the digest', 'B', _U, 'encode', "result = '_'.join([m, s])", "result = '_'.join([m, s])\n    with open(fn, 'wb') as f:\n        pickle.dump(value, f, 2)", 'R-C07-1'),
    V('staging inside the store directory', 'B', _U, 'encode', 'dir=dawgie.context.data_stg', 'dir=dawgie.context.data_dbs', 'R-C07-1'),
    V('rename the staged path local', 'N', _U, 'encode', 'fn', 'staged', None, 'all'),
    V('md5 through hashlib over the closed file', 'N', _U, 'encode', _MD5, "with open(fn, 'rb') as g:\n        m = hashlib.md5(g.read()).hexdigest()", None),
    V('pickle written through the mkstemp descriptor', 'N', _U, 'encode', "os.close(fid)\n    with open(fn, 'wb') as f:", "with os.fdopen(fid, 'wb') as f:", None),
    V('logging added between dump and digest', 'N', _U, 'encode', "os.chmod(fn, int('0664', 8))", "os.chmod(fn, int('0664', 8))\n    log.debug('staged %s', fn)", None),
    # ---- R-C07-2
    V('existence evaluated after the move', 'B', _U, 'move', _MOVE_BODY, 'shutil.move(fn, nfn)\n    exists = os.path.exists(nfn)', 'R-C07-2'),
    V('stored copy unlinked instead of the staged one', 'B', _U, 'move', 'os.unlink(fn)', 'os.unlink(nfn)', 'R-C07-2'),
    V('stored copy overwritten when it exists', 'B', _U, 'move', 'if exists:\n        os.unlink(fn)\n    else:\n        shutil.move(fn, nfn)', 'shutil.move(fn, nfn)', 'R-C07-2'),
    V('copy instead of rename into the store', 'B', _U, 'move', 'shutil.move(fn, nfn)', 'shutil.copy(fn, nfn)', 'R-C07-2'),
    V('flag constant', 'B', _U, 'move', 'return result, exists', 'return result, False', 'R-C07-2'),
    V('destination not under the name', 'B', _U, 'move', 'nfn = os.path.join(dawgie.context.data_dbs, result)', 'nfn = os.path.join(dawgie.context.data_dbs, os.path.basename(fn))', 'R-C07-2'),
    V('exists inlined into the if with two returns', 'N', _U, 'move', _MOVE_BODY + '\n\n    return result, exists',
      'if os.path.exists(nfn):\n        os.unlink(fn)\n        return result, True\n    shutil.move(fn, nfn)\n    return result, False', None),
    V('os.replace instead of shutil.move', 'N', _U, 'move', 'shutil.move(fn, nfn)', 'os.replace(fn, nfn)', None),
    V('reordered branches', 'N', _U, 'move', 'if exists:\n        os.unlink(fn)\n    else:\n        shutil.move(fn, nfn)', 'if not exists:\n        shutil.move(fn, nfn)\n    else:\n        os.unlink(fn)', None),
    # ---- R-C07-3
    V('isnew not negated in _update', 'B', _M, 'Interface._update', 'isnew = not self._set_prime(vname, sv[k])', 'isnew = self._set_prime(vname, sv[k])', 'R-C07-3'),
    V('isnew not negated in _update_msv', 'B', _M, 'Interface._update_msv', 'isnew = not self._set_prime(vname, msv[k])', 'isnew = self._set_prime(vname, msv[k])', 'R-C07-3'),
    V('isnew constant', 'B', _M, 'Interface._update', 'isnew = not self._set_prime(vname, sv[k])', 'self._set_prime(vname, sv[k])\n                    isnew = True', 'R-C07-3'),
    V('double negation: serializer replies not exists', 'B', _C, 'Worker.do', 'self._send(exists)', 'self._send(not exists)', 'R-C07-3'),
    V('serializer replies a constant', 'B', _C, 'Worker.do', 'self._send(exists)', 'self._send(True)', 'R-C07-3'),
    V('_set_prime swallows the reply', 'B', _C, 'Connector._set_prime', 'return self.__do(COMMAND(Func.set, key, Table.prime, value))', 'self.__do(COMMAND(Func.set, key, Table.prime, value))\n        return True', 'R-C07-3'),
    V('post reports exists as new', 'B', _P, 'Interface._update', 'not exists,', 'exists,', 'R-C07-3'),
    V('move itself returns not exists', 'B', _U, 'move', 'return result, exists', 'return result, not exists', 'R-C07-3'),
    V('cloud relay flips the flag', 'B', _A, 'Contractor._process', 'result = dawgie.db.util.move(msg.revision, msg.target)', 'result = dawgie.db.util.move(msg.revision, msg.target)\n                result = (result[0], not result[1])', 'R-C07-3'),
    V('move result unpacked through a temporary', 'N', _C, 'Worker.do', 'value, exists = dawgie.db.util.move(*request.value)', 'tmp = dawgie.db.util.move(*request.value)\n            value, exists = tmp', None),
    V('move result taken apart by index', 'N', _C, 'Worker.do', 'value, exists = dawgie.db.util.move(*request.value)', 'res = dawgie.db.util.move(*request.value)\n            value = res[0]\n            exists = res[1]', None),
    V('isnew through a conditional expression', 'N', _M, 'Interface._update', 'isnew = not self._set_prime(vname, sv[k])', 'isnew = False if self._set_prime(vname, sv[k]) else True', None),
    V('isnew through a temporary', 'N', _M, 'Interface._update_msv', 'isnew = not self._set_prime(vname, msv[k])', 'old = self._set_prime(vname, msv[k])\n                isnew = old is False', None),
    V('_set_prime returns through a local', 'N', _C, 'Connector._set_prime', 'return self.__do(COMMAND(Func.set, key, Table.prime, value))', 'reply = self.__do(COMMAND(Func.set, key, Table.prime, value))\n        return reply', None),
    # ---- R-C07-4
    V('table store moved above move', 'B', _C, 'Worker.do', _SET3,
      'key = str(request.keyset)\n            DBI().tables[request.table.value][key] = request.value[1]\n            value, exists = dawgie.db.util.move(*request.value)', 'R-C07-4'),
    V('catalogue records the staged path', 'B', _C, 'Worker.do', 'DBI().tables[request.table.value][key] = value', 'DBI().tables[request.table.value][key] = request.value[0]', 'R-C07-4'),
    V('catalogue store only when new, before the move on the other path', 'B', _C, 'Worker.do', _SET3,
      'key = str(request.keyset)\n            if key in DBI().tables[request.table.value]:\n                DBI().tables[request.table.value][key] = request.value[1]\n            ' + _SET3, 'R-C07-4'),
    V('post INSERT names something else than the moved blob', 'B', _P, 'Interface._update', 'val_ID[0],\n                            result,', 'val_ID[0],\n                            vn,', 'R-C07-4'),
    V('key computed before the move', 'N', _C, 'Worker.do', _SET3,
      'key = str(request.keyset)\n            value, exists = dawgie.db.util.move(*request.value)\n            DBI().tables[request.table.value][key] = value', None),
    V('logging between move and store', 'N', _C, 'Worker.do', 'key = str(request.keyset)\n            DBI().tables[request.table.value][key] = value', "key = str(request.keyset)\n            log.debug('set %s', key)\n            DBI().tables[request.table.value][key] = value", None),
    # ---- R-C07-5
    V('second catalogue writer in shelve.reset', 'B', _S, 'reset', "pk = [runid, DBI().tables.target[tn], DBI().tables.task[tskn]]", "pk = [runid, DBI().tables.target[tn], DBI().tables.task[tskn]]\n    DBI().tables.prime[str(tuple(pk))] = 'x'", 'R-C07-5'),
    V('catalogue written through an alias', 'B', _S, 'trace', 'result = {}', "result = {}\n    cat = DBI().tables.prime\n    cat.update({'k': 'v'})", 'R-C07-5'),
    V('client appends to the prime table', 'B', _S, 'update', 'foreman.append(Table.value, util.construct(vn, svid, v))', 'foreman.append(Table.prime, util.construct(vn, svid, v))', 'R-C07-5'),
    V('store in the get branch of the serializer', 'B', _C, 'Worker.do', 'self._send(DBI().tables[request.table.value][key])', "DBI().tables[request.table.value][key] = 'x'\n            self._send(DBI().tables[request.table.value][key])", 'R-C07-5'),
    V('relay passes (name, staged) swapped', 'B', _A, 'Contractor._process', 'dawgie.db.util.move(msg.revision, msg.target)', 'dawgie.db.util.move(msg.target, msg.revision)', 'R-C07-5'),
    V('cloud client ships (name, staged) swapped', 'B', _A, 'Context.move', 'dawgie.pl.message.make(rev=fn, target=result, typ=self.__cloud)', 'dawgie.pl.message.make(rev=result, target=fn, typ=self.__cloud)', 'R-C07-5'),
    V('move fed with a pair not made by encode', 'B', _P, 'Interface._update_msv', 'dawgie.db.util.move(*dawgie.db.util.encode(val))[0]', 'dawgie.db.util.move(str(val), vn)[0]', 'R-C07-5'),
    V('Func.set request carries something else than encode()', 'B', _C, 'Connector._set_prime', 'value = dawgie.db.util.encode(value)', "value = (str(value), 'x')", 'R-C07-5'),
    V('move aliased', 'B', _P, 'Interface._update_msv', 'valid = True', 'valid = True\n        mv = dawgie.db.util.move', 'R-C07-5'),
    V('purge guard inverted', 'B', _G, None, 'if fn not in values and', 'if fn in values and', 'R-C07-5'),
    V('purge abort-if-no-keys removed', 'B', _G, None, 'sys.exit(-1)', 'pass', 'R-C07-5'),
    V('purge snapshot filtered', 'B', _G, None, 'values = list(dawgie.db._prime_values())', 'values = [v for v in dawgie.db._prime_values() if v]', 'R-C07-5'),
    V('stored file unlinked in decode', 'B', _U, 'decode', 'return result', 'os.unlink(os.path.join(dawgie.context.data_dbs, entry))\n    return result', 'R-C07-5'),
    V('stored file rewritten through a helper', 'B', _U, 'decode', 'return result', "rotate(os.path.join(dawgie.context.data_dbs, entry), [], {})\n    return result", 'R-C07-5'),
    V('stored file rewritten in place', 'B', 'util/metrics.py', None, 'self.__real = dawgie.db.util.decode(self.__blobname)', "self.__real = dawgie.db.util.decode(self.__blobname)\n                open(os.path.join(dawgie.context.data_dbs, self.__blobname), 'wb').close()", 'R-C07-5'),
    V('purge abort written with len', 'N', _G, None, 'if not values:', 'if len(values) == 0:', None),
    V('purge snapshot as a set', 'N', _G, None, 'values = list(dawgie.db._prime_values())', 'values = frozenset(dawgie.db._prime_values())', None),
    V('extra read of the catalogue', 'N', _S, 'reset', "pk = [runid, DBI().tables.target[tn], DBI().tables.task[tskn]]", "pk = [runid, DBI().tables.target[tn], DBI().tables.task[tskn]]\n    n = len(DBI().tables.prime)", None),
    V('another journal file below chronicles', 'N', 'pl/logger/chronicle.py', None, "with open(journal, 'tw', encoding='utf-8') as file:", "with open(journal + '.tmp', 'tw', encoding='utf-8') as file:", None),
    V('remove deletes through pop', 'N', _S, 'remove', 'del prime[key]', 'prime.pop(key)', None),
    V('purge sweep with early continue guards and a path temporary', 'N', _G, None,
      "if fn not in values and os.path.isfile(\n            os.path.join(dawgie.context.data_dbs, fn)\n        ):\n            os.unlink(os.path.join(dawgie.context.data_dbs, fn))",
      "if fn in values:\n            continue\n        path = os.path.join(dawgie.context.data_dbs, fn)\n        if not os.path.isfile(path):\n            continue\n        if True:\n            os.unlink(path)", None),
    V('purge sweep over a pre-filtered comprehension', 'N', _G, None, 'for fn in os.listdir(dawgie.context.data_dbs):\n        if fn not in values and', 'for fn in [f for f in os.listdir(dawgie.context.data_dbs) if f not in values]:\n        if', None),
    V('purge comprehension filtered the wrong way', 'B', _G, None, 'for fn in os.listdir(dawgie.context.data_dbs):\n        if fn not in values and', 'for fn in [f for f in os.listdir(dawgie.context.data_dbs) if f in values]:\n        if', 'R-C07-5'),
    V('dispatch comparison with swapped operands', 'N', _C, 'Worker.do', 'elif request.func == Func.set:', 'elif Func.set == request.func:', None),
    V('reply written to the transport inline', 'N', _C, 'Worker.do', 'self._send(exists)', "self.transport.write(struct.pack('>I', len(pickle.dumps(exists))) + pickle.dumps(exists))", None),
    V('inline reply of the wrong polarity', 'B', _C, 'Worker.do', 'self._send(exists)', "self.transport.write(struct.pack('>I', 5) + pickle.dumps(not exists))", 'R-C07-3'),
    V('move result split by a tuple assignment', 'N', _C, 'Worker.do', 'value, exists = dawgie.db.util.move(*request.value)', 'res = dawgie.db.util.move(*request.value)\n            value, exists = res[0], res[1]', None),
    V('tuple assignment swaps name and flag', 'B', _C, 'Worker.do', 'value, exists = dawgie.db.util.move(*request.value)', 'res = dawgie.db.util.move(*request.value)\n            value, exists = res[1], res[0]', 'R-C07-4'),
    V('encode result through a local in post', 'N', _P, 'Interface._update_msv', 'result = dawgie.db.util.move(*dawgie.db.util.encode(val))[0]', 'pair = dawgie.db.util.encode(val)\n            result = dawgie.db.util.move(*pair)[0]', None),
]
