"""C04  Idle means idle: runnable work is released and the pipeline quiesces."""

import ast
import itertools

from .. import AnalysisError
from ..flow import Flow
from ..report import Report
from ..util import where, norm, get_key, names_in
from ..variants import V
from .. import wsa
from . import shared

PID = 'C04'


class _Prune(Flow):
    """Inv-B (a): after elements were taken out of <X>.todo / <X>.doing the function must pass a *prune point* for X
    (test 'both empty' -> que.remove(X)) before it returns.  state: frozenset of dirty variable names."""

    def __init__(self, prog, f, moves):
        super().__init__()
        self.prog = prog
        self.f = f
        self.moves = moves  # id(call nodes) that are the 'remove' half of a todo -> doing move
        self.prunes = []

    def _exec_flag(self, name, v, before_line):
        """local `name` is the flag "<elem> in <v>.doing", taken before the removals"""
        defs = [a.value for a in self.f.own_nodes() if isinstance(a, ast.Assign) and any(isinstance(t, ast.Name) and t.id == name for t in a.targets)]
        return (
            len(defs) == 1
            and isinstance(defs[0], ast.Compare)
            and len(defs[0].ops) == 1
            and isinstance(defs[0].ops[0], ast.In)
            and (gk := get_key(defs[0].comparators[0])) is not None
            and gk[1] == 'doing'
            and isinstance(gk[0], ast.Name)
            and gk[0].id == v
            and defs[0].lineno < before_line
        )

    def _semantic_prune(self, s: ast.If):
        """truth table of the test over (todo non-empty, doing non-empty, queued, executing) of a candidate node variable:
        a prune point is any test that (a) is true only for nodes with both sets empty and (b) is true for every queued
        node with both sets empty that is not exempt as executing - whatever its syntactic form"""
        import itertools as _it

        removed = [
            n.args[0].id
            for n in ast.walk(ast.Module(body=s.body, type_ignores=[]))
            if isinstance(n, ast.Call)
            and isinstance(n.func, ast.Attribute)
            and n.func.attr == 'remove'
            and isinstance(n.func.value, (ast.Name, ast.Attribute))
            and self.prog.resolve_in(n.func.value, self.f) == wsa.QUE
            and n.args
            and isinstance(n.args[0], ast.Name)
        ]
        for v in removed:
            def ev(e, t, d, q, x):
                if isinstance(e, ast.BoolOp):
                    vals = [ev(u, t, d, q, x) for u in e.values]
                    if any(u is None for u in vals):
                        return None
                    return all(vals) if isinstance(e.op, ast.And) else any(vals)
                if isinstance(e, ast.UnaryOp) and isinstance(e.op, ast.Not):
                    u = ev(e.operand, t, d, q, x)
                    return None if u is None else not u
                if isinstance(e, ast.Call) and isinstance(e.func, ast.Name) and e.func.id in ('len', 'bool') and e.args:
                    return ev(e.args[0], t, d, q, x)
                if isinstance(e, ast.Compare) and len(e.ops) == 1:
                    if isinstance(e.left, ast.Name) and e.left.id == v and isinstance(e.comparators[0], (ast.Name, ast.Attribute)) and self.prog.resolve_in(e.comparators[0], self.f) == wsa.QUE:
                        return q if isinstance(e.ops[0], ast.In) else (not q if isinstance(e.ops[0], ast.NotIn) else None)
                    if isinstance(e.comparators[0], ast.Constant) and e.comparators[0].value == 0:
                        u = ev(e.left, t, d, q, x)
                        if u is None:
                            return None
                        return u if isinstance(e.ops[0], (ast.Gt, ast.NotEq)) else ((not u) if isinstance(e.ops[0], ast.Eq) else None)
                gk = get_key(e)
                if gk and isinstance(gk[0], ast.Name) and gk[0].id == v and gk[1] in ('todo', 'doing'):
                    return t if gk[1] == 'todo' else d
                if isinstance(e, ast.Name) and self._exec_flag(e.id, v, s.lineno):
                    return x
                return None

            rows = {}
            for t, d, q, x in _it.product((False, True), repeat=4):
                rows[(t, d, q, x)] = ev(s.test, t, d, q, x)
            if any(r is None for r in rows.values()):
                continue
            only_idle = all(not r or (not t and not d) for (t, d, q, x), r in rows.items())
            all_idle = all(rows[(False, False, True, False)] for _ in (0,))
            if only_idle and all_idle:
                return v
        return None

    def _prune_var(self, s: ast.If):
        """If statement that is a prune point -> variable name"""
        v = self._semantic_prune(s)
        if v is not None:
            return v
        for v in sorted(names_in(s.test)):
            table = shared.predicate_table(s.test, v)
            if table is None:
                continue
            if table[(False, False)] and not table[(True, False)] and not table[(False, True)] and not table[(True, True)]:
                for n in ast.walk(ast.Module(body=s.body, type_ignores=[])):
                    if (
                        isinstance(n, ast.Call)
                        and isinstance(n.func, ast.Attribute)
                        and n.func.attr == 'remove'
                        and isinstance(n.func.value, (ast.Name, ast.Attribute))
                        and self.prog.resolve_in(n.func.value, self.f) == wsa.QUE
                        and n.args
                        and isinstance(n.args[0], ast.Name)
                        and n.args[0].id == v
                    ):
                        return v
        # `X in que and both-empty` form; the both-empty predicate may itself be spread over several conjuncts
        # (`not X.get('todo') and not X.get('doing')`)
        if isinstance(s.test, ast.BoolOp) and isinstance(s.test.op, ast.And):
            for cand in sorted(names_in(s.test)):
                understood = [p for p in s.test.values if shared.predicate_table(p, cand) is not None]
                if not understood:
                    continue
                part = ast.BoolOp(op=ast.And(), values=understood) if len(understood) > 1 else understood[0]
                inner = ast.If(test=part, body=s.body, orelse=[])
                v = self._prune_var(inner) if not (isinstance(part, ast.BoolOp) and len(understood) == len(s.test.values)) else None
                if v is None and isinstance(part, ast.BoolOp):
                    table = shared.predicate_table(part, cand)
                    if table and table[(False, False)] and not table[(True, False)] and not table[(False, True)] and not table[(True, True)]:
                        v = self._prune_var(ast.If(test=ast.UnaryOp(op=ast.Not(), operand=ast.BoolOp(op=ast.Or(), values=[ast.UnaryOp(op=ast.Not(), operand=u) for u in understood])), body=s.body, orelse=[]))
                if v is not None:
                    others = [p for p in s.test.values if not any(p is u for u in understood)]
                    # the remaining conjuncts may only (a) test queue membership of the same node, or
                    # (b) exempt a node for which the withdrawn element was *executing* (flag = `elem in X.get('doing')`
                    # taken before the removal): that node has a reply outstanding and complete() prunes it then
                    def _ok(o):
                        if (
                            isinstance(o, ast.Compare)
                            and len(o.ops) == 1
                            and isinstance(o.ops[0], ast.In)
                            and isinstance(o.left, ast.Name)
                            and o.left.id == v
                            and self.prog.resolve_in(o.comparators[0], self.f) == wsa.QUE
                        ):
                            return True
                        if isinstance(o, ast.UnaryOp) and isinstance(o.op, ast.Not) and isinstance(o.operand, ast.Name):
                            defs = [
                                a.value
                                for a in self.f.own_nodes()
                                if isinstance(a, ast.Assign) and any(isinstance(t, ast.Name) and t.id == o.operand.id for t in a.targets)
                            ]
                            return len(defs) == 1 and isinstance(defs[0], ast.Compare) and len(defs[0].ops) == 1 and isinstance(defs[0].ops[0], ast.In) and (
                                (gk := get_key(defs[0].comparators[0])) is not None and gk[1] == 'doing' and isinstance(gk[0], ast.Name) and gk[0].id == v
                            ) and defs[0].lineno < s.lineno
                        return False

                    if all(_ok(o) for o in others):
                        return v
        return None

    def _s_If(self, s, states):
        v = self._prune_var(s)
        out = super()._s_If(s, states)
        if v is not None:
            self.prunes.append((s, v))
            out.normal = {frozenset(x for x in st if x != v) for st in out.normal}
        return out

    def on_call(self, call, st):
        if isinstance(call.func, ast.Attribute):
            gk = get_key(call.func.value)
            if gk and gk[1] in ('todo', 'doing') and isinstance(gk[0], ast.Name):
                if call.func.attr in wsa.SHRINK and id(call) not in self.moves:
                    return (st | {gk[0].id},)
        return (st,)

    def on_stmt(self, s, st):
        if isinstance(s, ast.AugAssign) and isinstance(s.op, (ast.Sub, ast.BitAnd)):
            gk = get_key(s.target)
            if gk and gk[1] in ('todo', 'doing') and isinstance(gk[0], ast.Name):
                return (st | {gk[0].id},)
        return (st,)

    def on_for(self, node, st):
        # a fresh loop variable denotes another node
        names = {n.id for n in ast.walk(node.target) if isinstance(n, ast.Name)}
        return (frozenset(x for x in st if x not in names),) if False else (st,)


def _moves(prog, f):
    """remove-from-todo calls that are one half of a move into doing: inside `for a in S` with a later X.doing.update(S)"""
    out = set()
    for loop in [n for n in f.own_nodes() if isinstance(n, ast.For) and isinstance(n.iter, ast.Name) and isinstance(n.target, ast.Name)]:
        S, a = loop.iter.id, loop.target.id
        for c in ast.walk(loop):
            if isinstance(c, ast.Call) and isinstance(c.func, ast.Attribute) and c.func.attr in ('remove', 'discard') and c.args and isinstance(c.args[0], ast.Name) and c.args[0].id == a:
                gk = get_key(c.func.value)
                if gk and gk[1] == 'todo' and isinstance(gk[0], ast.Name):
                    x = gk[0].id
                    for u in f.calls():
                        if isinstance(u.func, ast.Attribute) and u.func.attr in ('update', '__ior__') and u.args and isinstance(u.args[0], ast.Name) and u.args[0].id == S:
                            g2 = get_key(u.func.value)
                            if g2 and g2[1] == 'doing' and isinstance(g2[0], ast.Name) and g2[0].id == x and u.lineno > loop.lineno:
                                out.add(id(c))
    return out


def rule1(ctx, rep):
    prog = ctx.prog
    with rep.rule(
        'R-C04-1',
        'Inv-B: a queued node always has something pending or executing (every shrink of todo/doing is followed by a prune point; every insertion into the queue is of a node with work)',
        floor=5,
        breaks='an entry with nothing to do stays queued: every downstream analysis is blocked by it and the queue-empty waiter never returns',
    ) as r:
        ops = wsa.all_ops(prog)
        # (a) shrink sites
        funcs = {}
        for op in ops:
            if op.kind in ('todo', 'doing') and op.op in wsa.SHRINK:
                funcs.setdefault(op.func.qname, []).append(op)
        for q, fops in sorted(funcs.items()):
            f = prog.nfunc(q)
            rep.analysed(f)
            mv = _moves(prog, f)
            fl = _Prune(prog, f, mv)
            exits = fl.exits(f.node, frozenset())
            for op in fops:
                r.instance()
                owner = op.owner.id if isinstance(op.owner, ast.Name) else norm(op.owner)
                key = f'{q}:{norm(op.node)}'
                if id(op.node) in mv:
                    r.ok(key, 'element moved from todo to doing of the same node (release)', op.where)
                    continue
                dirty = [st for st in exits if owner in st]
                r.check(
                    not dirty,
                    key,
                    op.where,
                    f'every path from this removal to the function exit passes a prune point for {owner} (both-empty test -> que.remove)',
                    f'{q} takes elements out of {owner}.{op.kind} ({norm(op.node)}) and can return without checking whether {owner} has become idle and must leave the queue',
                )
        # (b) insertion sites
        for op in ops:
            if op.kind != 'que':
                continue
            if op.op in ('append', 'extend', 'insert'):
                r.instance()
                rep.analysed(op.func)
                fl = shared.emptiness(prog, op.func)
                sts = fl.at.get(id(op.node), [])
                var = op.args[-1].id if op.args and isinstance(op.args[-1], ast.Name) else None
                ok = bool(sts) and var is not None and all(
                    (var, 'todo', 'nonempty') in st or (var, 'doing', 'nonempty') in st for st in sts
                )
                r.check(
                    ok,
                    f'{op.func.qname}:{norm(op.node)}',
                    op.where,
                    f'{var} has non-empty todo/doing on all {len(sts)} abstract paths reaching the insertion',
                    f'{op.func.qname} inserts {var} into the queue on a path where neither its todo nor its doing is known to be non-empty',
                )
            elif op.op == 'rebind':
                r.instance()
                rep.analysed(op.func)
                ok, detail = shared.rebind_drops_idle(prog, op)
                r.check(ok, f'{op.func.qname}:{norm(op.node)[:120]}', op.where, detail, f'{op.func.qname} rebuilds the queue: {detail}')


def _gate(prog, f):
    """the condition(s) that dominate the release loop"""
    outer = None
    for n in f.own_nodes():
        if isinstance(n, ast.For):
            srcs = [prog.resolve_in(x, f) for x in ast.walk(n.iter) if isinstance(x, (ast.Name, ast.Attribute))]
            if wsa.QUE in srcs and (outer is None or n.lineno < outer.lineno):
                outer = n
    gates = []

    def find(body, conds):
        for s in body:
            if s is outer:
                gates.extend(conds)
                return True
            if isinstance(s, ast.If):
                if find(s.body, conds + [(s.test, True)]) or find(s.orelse, conds + [(s.test, False)]):
                    return True
            elif isinstance(s, (ast.For, ast.While, ast.With, ast.Try)):
                for b in (getattr(s, 'body', []), getattr(s, 'orelse', []), getattr(s, 'finalbody', [])):
                    if find(b, conds):
                        return True
        return False

    find(f.node.body, [])
    return outer, gates


def _formula(e, atoms):
    """boolean formula over call atoms -> python lambda over assignment dict; atoms collected by text"""
    if isinstance(e, ast.BoolOp):
        subs = [_formula(v, atoms) for v in e.values]
        if isinstance(e.op, ast.And):
            return lambda a: all(s(a) for s in subs)
        return lambda a: any(s(a) for s in subs)
    if isinstance(e, ast.UnaryOp) and isinstance(e.op, ast.Not):
        s = _formula(e.operand, atoms)
        return lambda a: not s(a)
    k = norm(e)
    atoms[k] = e
    return lambda a: a[k]


def rule2(ctx, rep):
    prog = ctx.prog
    f = prog.nfunc('dawgie.pl.schedule.next_job_batch')
    rep.analysed(f)
    with rep.rule(
        'R-C04-2',
        'no over-blocking: with every queued ancestor idle for the target (or none queued) the pending target is released and the job is returned in the batch; the only gate is promotion / pause',
        floor=4,
        breaks='a runnable unit is never released: the pipeline does not quiesce',
    ) as r:
        for label, kw in (('queued-ancestors-idle', {'others_idle': True}), ('no-queued-ancestor', {'others_idle': True, 'no_ancestor': True})):
            ra = wsa.release_analysis(prog, f, atoms=('tau_is_all',), **kw)
            for bits, res in sorted(ra['results'].items()):
                rho = res['rho']
                if rho['tau_is_all'] and label == 'queued-ancestors-idle':
                    # documented unconditional block: an all-targets unit waits while *any* ancestor is queued;
                    # under Inv-B (R-C04-1) a queued ancestor has work, so this is not over-blocking
                    r.instance()
                    r.ok(f'{f.qname}:{label}[tau_is_all]', 'all-targets unit blocked by a queued ancestor: exact under Inv-B', where(f), nontrivial=False)
                    continue
                r.instance()
                key = f'{f.qname}:{label}[{"tau_is_all" if rho["tau_is_all"] else "plain-target"}]'
                if res['problems']:
                    r.fail(key, where(f, res['problems'][0].node), res['problems'][0].msg)
                    continue
                fin = res['finals']
                rel = [st for st in fin if ('released', 'do') in st and ('released', 'doing') in st]
                batched = [st for st in rel if ('batched',) in st]
                r.check(
                    bool(fin) and len(rel) == len(fin) and len(batched) == len(rel),
                    key,
                    where(f, ra['outer']),
                    f'released to do and doing and job appended to the batch on all {len(fin)} abstract paths',
                    f'a pending target whose queued ancestors are all idle is withheld on {len(fin) - len(rel)} of {len(fin)} abstract paths '
                    f'(or released without returning the job: {len(rel) - len(batched)})',
                )
        # the gate
        outer, gates = _gate(prog, f)
        r.instance()
        atoms = {}
        forms = [(_formula(t, atoms), pol) for t, pol in gates]
        resolved = {}
        for k, e in atoms.items():
            sym = prog.resolve_in(e.func, f) if isinstance(e, ast.Call) else None
            resolved[k] = sym
        want = {'dawgie.pl.schedule.promote', 'dawgie.pl.schedule.is_paused'}
        okatoms = set(resolved.values()) == want and len(resolved) == 2
        oktable = False
        if okatoms:
            oktable = True
            for vals in itertools.product((False, True), repeat=len(atoms)):
                a = dict(zip(atoms, vals))
                open_ = all(fm(a) == pol for fm, pol in forms)
                if open_ != (not any(vals)):
                    oktable = False
        r.check(
            okatoms and oktable,
            f'{f.qname}:gate',
            where(f, outer),
            'release loop guarded by exactly: not promoting and not paused',
            f'release loop is guarded by {sorted(atoms)} (resolved {sorted(str(v) for v in resolved.values())}); expected exactly "no promotion pending and not paused"',
        )
        # the batch handed back is the list the jobs were appended to
        rets = [n for n in f.own_nodes() if isinstance(n, ast.Return)]
        r.instance()
        appended = {c.func.value.id for c in f.calls() if isinstance(c.func, ast.Attribute) and c.func.attr == 'append' and isinstance(c.func.value, ast.Name) and c.args and isinstance(c.args[0], ast.Name) and c.args[0].id == (outer.target.id if outer is not None else '')}
        r.check(
            len(rets) >= 1 and all(isinstance(x.value, ast.Name) and x.value.id in appended for x in rets),
            f'{f.qname}:returns-batch',
            where(f),
            f'returns the batch list {sorted(appended)}',
            'the function does not return the list the released jobs were appended to',
        )


def rule3(ctx, rep):
    prog = ctx.prog
    with rep.rule(
        'R-C04-3',
        'idle observers read the work queue',
        floor=3,
        breaks='the pipeline reports idle / busy from something else than the queue',
    ) as r:
        f = prog.nfunc('dawgie.pl.state.FSM.is_todo_done')
        rep.analysed(f)
        r.instance()
        ws = [n for n in f.own_nodes() if isinstance(n, ast.While)]
        ok = any(wsa.QUE in {prog.resolve_in(x, f) for x in ast.walk(w.test) if isinstance(x, (ast.Name, ast.Attribute))} for w in ws)
        r.check(ok, f'{f.qname}:polls-que', where(f), 'poll loop condition reads schedule.que', 'the queue-empty poller does not read schedule.que')
        # ... and reads the live binding on every iteration (organize / build rebind the module attribute): same analysis
        # as R-C12-2, added after seeded change C04-4
        from . import c12 as _c12

        for pq in ('dawgie.pl.state.FSM.is_todo_done', 'dawgie.pl.state.FSM.is_doing_done', 'dawgie.pl.state.FSM.is_crew_done'):
            raw = prog.func(pq)
            r.instance()
            stale = _c12._stale_locals(prog, raw)
            r.check(
                not stale,
                f'{pq}:live-condition',
                where(raw, stale[0][0] if stale else None),
                'the polling condition is re-evaluated per iteration',
                f'{pq} polls on ' + '; '.join(f'local "{n}" bound once before the loop to {d}' for _l, n, d in stale) + ': the observer never sees the queue drain',
            )
        for q in ('dawgie.pl.schedule.view_todo', 'dawgie.pl.schedule.view_doing'):
            g = prog.nfunc(q)
            rep.analysed(g)
            r.instance()
            srcs = {prog.resolve_in(x, g) for x in g.own_nodes() if isinstance(x, (ast.Name, ast.Attribute))}
            r.check(wsa.QUE in srcs, f'{q}:reads-que', where(g), 'view filters schedule.que', f'{q} does not read schedule.que')
        d = prog.nfunc('dawgie.pl.state.FSM.is_doing_done')
        rep.analysed(d)
        r.instance()
        ok = any(
            'dawgie.pl.schedule.view_doing' in {prog.resolve_in(x.func, d) for x in ast.walk(w.test) if isinstance(x, ast.Call)}
            for w in [n for n in d.own_nodes() if isinstance(n, ast.While)]
        )
        r.check(ok, f'{d.qname}:polls-view_doing', where(d), 'poll loop condition reads schedule.view_doing()', 'the nothing-executing poller does not read schedule.view_doing()')
        # view_doing must list a node exactly while it executes something: status running is set by dispatch, reset by complete
        vd = prog.nfunc('dawgie.pl.schedule.view_doing')
        r.instance()
        uses_doing = any((gk := get_key(n)) and gk[1] == 'doing' for n in vd.own_nodes())
        r.check(uses_doing, f'{vd.qname}:reports-doing', where(vd), "reports the nodes' doing sets", 'view_doing does not report the doing sets')


def rule4(ctx, rep):
    """a released job stays in the dispatch batch until its task messages exist (added after seeded change C04-2 / C03-2:
    `while _jobs: j = _jobs.pop(0)` drops the job before rerunid()/_put(); when the hand-out raises - the surrounding bare
    except exists for exactly that - the job is gone although its targets were already moved to do/doing: nothing is in
    flight, nothing will ever complete, the queue never empties)"""
    prog = ctx.prog
    disp = prog.nfunc('dawgie.pl.farm.dispatch')
    rep.analysed(disp)
    with rep.rule(
        'R-C04-4',
        'a job leaves the dispatch batch (_jobs) only after its run id was obtained and its task messages were queued, so that a failed hand-out is retried on the next tick',
        floor=1,
        breaks='an exception during hand-out loses a released unit: it stays "doing" for ever with nothing in flight and the pipeline never quiesces',
    ) as r:
        loop, jv = shared.job_loop(prog, disp)
        fallible = {'dawgie.pl.farm._put', 'dawgie.pl.farm.rerunid'}

        class It(Flow):
            def __init__(s):
                super().__init__()
                s.late = []

            def on_call(s, call, st):
                sym = prog.callee(call, disp)
                if isinstance(call.func, ast.Attribute) and call.func.attr in ('remove', 'pop', 'popleft') and shared.resolve_container(prog, disp, call.func.value) == 'dawgie.pl.farm._jobs':
                    return ('left',)
                if sym in fallible and st == 'left':
                    s.late.append(call)
                return (st,)

        it = It()
        # the loop header of the `while _jobs: j = _jobs.pop(0)` form belongs to the iteration
        it.block(loop.body, {'in-batch'})
        r.instance()
        r.check(
            not it.late,
            f'{disp.qname}:job-leaves-batch-after-hand-out',
            where(disp, loop),
            'rerunid()/_put() are only reached while the job is still in _jobs',
            f'{sorted({norm(c) for c in it.late})} can run (and raise) after the job was already taken out of _jobs: the unit is lost on failure',
        )


def rule5(ctx, rep):
    """what is queued for the cloud gets drained (added after seeded change C04-8: farm._put chose the cloud list under
    `_agency and ...` - the one-element holder list, always true - while dispatch drains that list only under
    `_agency[0]`; without a provider a cloud-classified unit sat on a list nobody reads, its target stayed in doing)"""
    prog = ctx.prog
    put = prog.nfunc('dawgie.pl.farm._put')
    disp = prog.nfunc('dawgie.pl.farm.dispatch')
    rep.analysed(put, disp)
    with rep.rule(
        'R-C04-5',
        'farm._put selects the cloud list only under the very condition under which farm.dispatch drains it',
        floor=1,
        breaks='a released unit is parked on a list that is never handed to anybody: its target stays in doing and the queue never empties',
    ) as r:
        CLOUD = 'dawgie.pl.farm._cloud'

        def conjuncts(e, depth=0):
            if isinstance(e, ast.Name) and depth < 3:
                # a flag computed just before: follow its single definition
                for fn in (put, disp):
                    defs = [d.value for d in fn.own_nodes() if isinstance(d, ast.Assign) and any(isinstance(t, ast.Name) and t.id == e.id for t in d.targets)]
                    if len(defs) == 1:
                        return conjuncts(defs[0], depth + 1)
            if isinstance(e, ast.BoolOp) and isinstance(e.op, ast.And):
                out = []
                for v in e.values:
                    out += conjuncts(v)
                return out
            return [e]

        # drain condition: the tests of the if statements of dispatch whose body hands _cloud entries on / clears it
        # (by role: the loop over _cloud that hands the entries on, else the statement that clears it; the condition is the
        # path condition of that statement - enclosing ifs and guard clauses alike)
        drains = []
        site = None
        for n in disp.own_nodes():
            if isinstance(n, ast.For) and any(isinstance(x, (ast.Name, ast.Attribute)) and prog.resolve_in(x, disp) == CLOUD for x in ast.walk(n.iter)):
                site = n
                break
        if site is None:
            for n in disp.own_nodes():
                if isinstance(n, ast.Call) and isinstance(n.func, ast.Attribute) and n.func.attr == 'clear' and prog.resolve_in(n.func.value, disp) == CLOUD:
                    site = n
                    break
        if site is not None:
            # conditions that gate the whole dispatch pass (they dominate the production of the messages as well: the
            # entry test on something_to_do()) are not part of the drain condition
            prod = next((c for c in disp.calls() if prog.callee(c, disp) == put.qname), None)
            common = {(id(t), o) for t, o in shared.path_condition(disp, prod)} if prod is not None else set()
            for t, outcome in shared.path_condition(disp, site):
                if (id(t), outcome) in common:
                    continue
                drains.append(t if outcome else ast.UnaryOp(op=ast.Not(), operand=t))
        # selection condition in _put
        sel = []
        for n in put.own_nodes():
            if isinstance(n, ast.IfExp):
                if isinstance(n.body, (ast.Name, ast.Attribute)) and prog.resolve_in(n.body, put) == CLOUD:
                    sel.append(n.test)
                elif isinstance(n.orelse, (ast.Name, ast.Attribute)) and prog.resolve_in(n.orelse, put) == CLOUD:
                    sel.append(ast.UnaryOp(op=ast.Not(), operand=n.test))
            if isinstance(n, ast.If) and any(isinstance(x, ast.Call) and isinstance(x.func, ast.Attribute) and x.func.attr in ('append', 'extend') and prog.resolve_in(x.func.value, put) == CLOUD for b in n.body for x in ast.walk(b)):
                sel.append(n.test)
        if not drains or not sel:
            raise AnalysisError('farm: the selection of the cloud list in _put or its drain in dispatch was not found')
        r.instance()
        # semantic implication selection => drain, over the atoms of both conditions (a comparison is the same atom in
        # either orientation; flags are followed to their definition)
        import itertools as _it

        def expand(e, depth=0):
            if isinstance(e, ast.Name) and depth < 3:
                for fn in (put, disp):
                    defs = [d.value for d in fn.own_nodes() if isinstance(d, ast.Assign) and any(isinstance(t, ast.Name) and t.id == e.id for t in d.targets)]
                    if len(defs) == 1:
                        return expand(defs[0], depth + 1)
            if isinstance(e, ast.BoolOp):
                return ast.BoolOp(op=e.op, values=[expand(v, depth) for v in e.values])
            if isinstance(e, ast.UnaryOp) and isinstance(e.op, ast.Not):
                return ast.UnaryOp(op=ast.Not(), operand=expand(e.operand, depth))
            return e

        def atom(e):
            if isinstance(e, ast.Compare) and len(e.ops) == 1 and isinstance(e.ops[0], (ast.Eq, ast.NotEq, ast.Is, ast.IsNot)):
                a, b = sorted([norm(e.left), norm(e.comparators[0])])
                return (f'{a} == {b}', isinstance(e.ops[0], (ast.NotEq, ast.IsNot)))
            return (norm(e), False)

        def atoms(e, acc):
            if isinstance(e, ast.BoolOp):
                for v in e.values:
                    atoms(v, acc)
            elif isinstance(e, ast.UnaryOp) and isinstance(e.op, ast.Not):
                atoms(e.operand, acc)
            else:
                acc.add(atom(e)[0])

        def ev(e, env):
            if isinstance(e, ast.BoolOp):
                vals = [ev(v, env) for v in e.values]
                return all(vals) if isinstance(e.op, ast.And) else any(vals)
            if isinstance(e, ast.UnaryOp) and isinstance(e.op, ast.Not):
                return not ev(e.operand, env)
            k, negd = atom(e)
            return env[k] != negd

        sels = [expand(t) for t in sel]
        drs = [expand(d) for d in drains]
        names = set()
        for e in sels + drs:
            atoms(e, names)
        names = sorted(names)
        counter = None
        for vals in _it.product((False, True), repeat=len(names)):
            env = dict(zip(names, vals))
            if any(ev(t, env) for t in sels) and not all(ev(d, env) for d in drs):
                counter = {k: v for k, v in env.items()}
                break
        need = {norm(c) for d in drains for c in conjuncts(d)}
        have = {norm(c) for t in sel for c in conjuncts(t)}
        r.check(
            counter is None and len(names) <= 6,
            f'{put.qname}:cloud-selected-only-when-drained',
            where(put),
            f'selection {sorted(have)} implies the drain condition {sorted(need)}',
            f'{put.qname} puts messages on the cloud list under {sorted(have)} but dispatch drains that list only under {sorted(need)}: with {sorted(need - have)} false the message is never handed out',
        )


def rule6(ctx, rep):
    """retire, then record (added after seeded change C04-9: complete() wrote the chronicle before it took the target out
    of doing; an IO fault in the journal - a truncated <run>.json, a full disk - then left the target in doing for ever
    although no reply will come again)"""
    prog = ctx.prog
    f = prog.nfunc('dawgie.pl.schedule.complete')
    rep.analysed(f)
    with rep.rule(
        'R-C04-6',
        'schedule.complete retires the finished target (doing shrinks, idle node pruned from the queue) before it calls into the journal (chronicle.append does file IO and can raise)',
        floor=1,
        breaks='an exception of the journal leaves a finished target in doing: the queue never empties and everything downstream stays blocked',
    ) as r:
        pr = _Prune(prog, f, set())

        class Ord(Flow):
            def __init__(s):
                super().__init__()
                s.at = []

            def _s_If(s, node, states):
                out = Flow._s_If(s, node, states)
                if pr._prune_var(node) is not None:
                    out.normal = {'retired' for _ in out.normal} or out.normal
                return out

            def on_call(s, call, st):
                if (prog.resolve_in(call.func, f) or '').endswith('chronicle.append'):
                    s.at.append((call, st))
                return (st,)

        o = Ord()
        o.run(f.node, 'pending')
        if not o.at:
            raise AnalysisError('schedule.complete no longer calls chronicle.append')
        r.instance()
        early = [c for c, st in o.at if st != 'retired']
        r.check(
            not early,
            f'{f.qname}:retire-before-record',
            where(f, early[0] if early else o.at[0][0]),
            'the prune point of the finished job dominates the journal write',
            f'{f.qname} calls chronicle.append before the finished target left doing and the idle node left the queue: if the journal write raises, the target stays in doing for ever',
        )


def check(ctx):
    rep = Report(
        PID,
        ctx.tier,
        ctx.prog,
        'Decides the structural half of quiescence: Inv-B (a queued node has work) is preserved by every function that shrinks todo/doing '
        '(must-pass-through a prune point, path-sensitive) and by every insertion / rebuild of the queue (emptiness domain, filter truth table); '
        'the release filter (abstract truth table, converse direction) releases a pending target whenever every queued ancestor is idle for it and '
        'returns the job; the only gate is promotion/pause; the idle observers read the queue. Termination for every completion order is argued '
        'from Inv-B + acyclicity + answering workers in DESIGN.md, not computed.',
        assumptions=['workers always answer', 'the dependency graph is acyclic'],
    )
    rep.not_decided = ['termination for every completion order (induction argued, not computed)', 'timing of the 5 s dispatch tick']
    rule1(ctx, rep)
    rule2(ctx, rep)
    rule3(ctx, rep)
    rule4(ctx, rep)
    rule5(ctx, rep)
    rule6(ctx, rep)
    shared.borrow(ctx, rep, [
        ('c03', lambda m: (m.rule4(ctx, rep), m.rule5(ctx, rep)), 'an entry that is never taken off the busy list, or a cloud job neither hired nor handed back, keeps the farm from ever reporting idle'),
        ('c15', lambda m: m._rule4(ctx, rep), 'every node owns its work sets: a set shared by two nodes is emptied for both when one of them is released, and the other stays queued with nothing to do'),
        ('c12', lambda m: m.rule34(ctx, rep), 'a poller slot that is not released starves every later waiter on "queue empty"'),
    ])
    return rep


VARIANTS = [
    V('cloud choice through a flag', 'N', 'pl/farm.py', '_put', '(\n        _cloud\n        if _agency[0] and where == dawgie.Distribution.cloud\n        else _cluster\n    ).append(msg)', 'use_cloud = _agency[0] and where == dawgie.Distribution.cloud\n    (_cloud if use_cloud else _cluster).append(msg)', None),
    V('cloud list chosen on the holder instead of the provider', 'B', 'pl/farm.py', '_put', 'if _agency[0] and where == dawgie.Distribution.cloud', 'if _agency and where == dawgie.Distribution.cloud', 'R-C04-5'),
    V('purge does not prune', 'B', 'pl/schedule.py', 'purge', "if node in que and not (node.get('todo', []) or node.get('doing', [])):\n        que.remove(node)", 'pass', 'R-C04-1'),
    V('complete never removes from que', 'B', 'pl/schedule.py', 'complete', 'que.remove(job)', 'pass', 'R-C04-1'),
    V('complete prunes on todo only', 'B', 'pl/schedule.py', 'complete', "if not (job.get('todo') or job.get('doing')):", "if not job.get('todo') and False:", 'R-C04-1'),
    V('organize queues idle nodes', 'B', 'pl/schedule.py', 'organize', "filter(lambda j: j.get('todo') or j.get('doing'), jobs.values())", 'jobs.values()', 'R-C04-1'),
    V('defer queues without targets', 'B', 'pl/schedule.py', 'defer', "if t.get('todo'):", 'if True:', 'R-C04-1'),
    V('available.clear() unconditional', 'B', 'pl/schedule.py', 'next_job_batch', 'dependency = find(dep)', 'dependency = find(dep)\n                    available.clear()', 'R-C04-2'),
    V('extra gate on ARCHIVE', 'B', 'pl/schedule.py', 'next_job_batch', 'if not (promote() or dawgie.pl.schedule.is_paused()):', 'if not (promote() or dawgie.pl.schedule.is_paused() or booted):', 'R-C04-2'),
    V('job not appended to batch', 'B', 'pl/schedule.py', 'next_job_batch', 'if available:\n                todo.append(job)', 'if not available:\n                todo.append(job)', 'R-C04-2'),
    V('todo poller reads per', 'B', 'pl/state.py', 'FSM.is_todo_done', 'while dawgie.pl.schedule.que and', 'while dawgie.pl.schedule.per and', 'R-C04-3'),
    V('prune via len()', 'N', 'pl/schedule.py', 'complete', "if not (job.get('todo') or job.get('doing')):", "if len(job.get('todo')) == 0 and len(job.get('doing')) == 0:", None),
    V('gate reordered', 'N', 'pl/schedule.py', 'next_job_batch', 'if not (promote() or dawgie.pl.schedule.is_paused()):', 'if not dawgie.pl.schedule.is_paused() and not promote():', None),
]
