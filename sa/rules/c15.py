"""C15  Version order is total and a version change reschedules exactly its owner."""

import ast
import itertools

from .. import AnalysisError
from ..flow import Flow
from ..report import Report
from ..util import where, norm, call_name, calls_to, arg
from ..variants import V

PID = 'C15'

VERSION_CLS = 'dawgie.Version'
ACCESSORS = ('design', 'implementation', 'bugfix')  # semantic components 0, 1, 2 (lexicographic significance)
COMPONENT_WORD = ('design', 'implementation', 'bug fix')
DUNDER = {ast.Eq: '__eq__', ast.NotEq: '__ne__', ast.Lt: '__lt__', ast.LtE: '__le__', ast.Gt: '__gt__', ast.GtE: '__ge__'}
REFLECT = {'__lt__': '__gt__', '__gt__': '__lt__', '__le__': '__ge__', '__ge__': '__le__', '__eq__': '__eq__', '__ne__': '__ne__'}
SIGN_TEST = {
    '__eq__': lambda s: s == 0,
    '__ne__': lambda s: s != 0,
    '__lt__': lambda s: s < 0,
    '__le__': lambda s: s <= 0,
    '__gt__': lambda s: s > 0,
    '__ge__': lambda s: s >= 0,
}
HOOKS = ('_get_ver', '_set_ver')  # the overridable access path documented in the class docstring
_WRAPPERS = ('sorted', 'list', 'set', 'tuple', 'frozenset')


class Unsupported(Exception):
    """the construct is outside the statement / expression subset of the evaluator (B.7): obligation undischarged"""


def _is_log_call(e):
    """log.debug(...) / logging.info(...): accepted idiom, no effect on any tracked fact"""
    if not isinstance(e, ast.Call):
        return False
    f = e.func
    while isinstance(f, ast.Attribute):
        f = f.value
    return isinstance(f, ast.Name) and f.id in ('log', 'logging', 'LOG', 'logger')


# ---------------------------------------------------------------------------
# R-C15-1: sign-domain evaluator (B.7)


def _lex(signs):
    for s in signs:
        if s:
            return s
    return 0


class _SignEval:
    """evaluates method bodies of dawgie.Version over two symbolic versions a, b whose components are related only
    through the sign triple ``signs[i] = sign(a_i - b_i)``.

    values: True/False/None, ('obj', side) a Version instance, ('nt', side) its VERSION tuple,
    ('fld', side, i) semantic component i, ('tup', (v, ...)), ('str', fld), ('join', sep, (parts...))
    """

    def __init__(self, prog, cls, fields, sem, signs):
        self.prog = prog
        self.cls = cls
        self.fields = fields  # VERSION field names by position
        self.sem = sem  # VERSION field name -> semantic component index (None while deriving it)
        self.signs = signs
        self.depth = 0
        self.steps = 0
        self.stack = []  # names of the methods being evaluated
        self.direct = []  # (method name, expression) of data-attribute reads outside the documented hook

    # ---- oracle
    def sign(self, x, y):
        if not (isinstance(x, tuple) and isinstance(y, tuple) and x[0] == 'fld' and y[0] == 'fld'):
            raise Unsupported('comparison of something other than two version components')
        if x[2] != y[2]:
            raise Unsupported(f'compares the {COMPONENT_WORD[x[2]]} component with the {COMPONENT_WORD[y[2]]} component')
        if x[1] == y[1]:
            return 0
        return self.signs[x[2]] if x[1] == 'a' else -self.signs[x[2]]

    def order(self, x, y):
        """sign of x - y for components, tuples of components and VERSION tuples"""
        x, y = self._as_tup(x), self._as_tup(y)
        if x[0] == 'tup' and y[0] == 'tup':
            if len(x[1]) != len(y[1]):
                raise Unsupported('comparison of tuples of different length')
            for p, q in zip(x[1], y[1]):
                s = self.order(p, q)
                if s:
                    return s
            return 0
        return self.sign(x, y)

    def _as_tup(self, v):
        if isinstance(v, tuple) and v[0] == 'nt':
            if self.sem is None:
                raise Unsupported('VERSION tuple used as a whole')
            return ('tup', tuple(('fld', v[1], self.sem[f]) for f in self.fields))
        return v

    @staticmethod
    def truth(v):
        if v is True or v is False:
            return v
        if v is None:
            return False
        raise Unsupported('truth value of a non-boolean')

    # ---- methods
    def method(self, name):
        return self.prog.method(self.cls.qname, name)

    def call_method(self, name, recv, args, kwargs=None):
        m = self.method(name)
        if m is None and name == '__ne__' and len(args) == 1 and self.method('__eq__') is not None:
            return not self.truth(self.call_method('__eq__', recv, args))  # object.__ne__ inverts __eq__
        if m is None:
            raise Unsupported(f'{self.cls.name}.{name} is not defined in the repository')
        params = m.params()
        if not params:
            raise Unsupported(f'{name} has no self parameter')
        env = {params[0]: recv}
        rest = params[1:]
        if len(args) > len(rest):
            raise Unsupported(f'too many arguments for {name}')
        for p, a in zip(rest, args):
            env[p] = a
        for k, a in (kwargs or {}).items():
            if k not in rest or k in env:
                raise Unsupported(f'bad keyword {k} for {name}')
            env[k] = a
        if set(rest) - set(env):
            raise Unsupported(f'missing argument for {name}')
        self.depth += 1
        if self.depth > 24:
            raise Unsupported('comparison methods are defined in terms of each other without a base case')
        self.stack.append(name)
        try:
            r = self.block(m.node.body, env)
        finally:
            self.depth -= 1
            self.stack.pop()
        return r[1] if r is not None else None

    def compare_objs(self, op, x, y):
        """``x <op> y`` on two Version instances: Python's rich comparison dispatch"""
        name = DUNDER[type(op)]
        if self.method(name) is not None:
            return self.call_method(name, x, [y])
        if name == '__ne__' and self.method('__eq__') is not None:  # default __ne__ inverts __eq__
            return not self.truth(self.call_method('__eq__', x, [y]))
        if name not in ('__eq__', '__ne__') and self.method(REFLECT[name]) is not None:
            return self.call_method(REFLECT[name], y, [x])
        raise Unsupported(f'{name} is not defined (identity comparison / TypeError)')

    # ---- statements
    def block(self, stmts, env):
        for s in stmts:
            self.steps += 1
            if isinstance(s, ast.Return):
                return ('ret', self.eval(s.value, env) if s.value is not None else None)
            if isinstance(s, ast.If):
                r = self.block(s.body if self.truth(self.eval(s.test, env)) else s.orelse, env)
                if r is not None:
                    return r
            elif isinstance(s, ast.Assign) and all(isinstance(t, ast.Name) for t in s.targets):
                v = self.eval(s.value, env)
                for t in s.targets:
                    env[t.id] = v
            elif isinstance(s, ast.AnnAssign) and isinstance(s.target, ast.Name) and s.value is not None:
                env[s.target.id] = self.eval(s.value, env)
            elif isinstance(s, ast.Pass):
                pass
            elif isinstance(s, ast.Expr) and (isinstance(s.value, ast.Constant) or _is_log_call(s.value)):
                pass  # docstring / logging
            else:
                raise Unsupported(f'statement {norm(s)[:60]}')
        return None

    # ---- expressions
    def eval(self, e, env):
        self.steps += 1
        if isinstance(e, ast.Constant):
            if e.value is True or e.value is False or e.value is None:
                return e.value
            if isinstance(e.value, str):
                return ('lit', e.value)
            raise Unsupported(f'constant {e.value!r}')
        if isinstance(e, ast.Name):
            if e.id in env:
                return env[e.id]
            raise Unsupported(f'name {e.id}')
        if isinstance(e, ast.Attribute):
            base = self.eval(e.value, env)
            if isinstance(base, tuple) and base[0] == 'obj':
                if self.method(e.attr) is not None:
                    raise Unsupported(f'method {e.attr} used as a value')
                # the one data attribute of a Version: its VERSION tuple (class docstring).  The documented extension point
                # is _get_ver()/_set_ver(): a read anywhere else bypasses an implementer's override of the hook
                if not self.stack or self.stack[-1] not in HOOKS:
                    self.direct.append((self.stack[-1] if self.stack else '?', norm(e)))
                return ('nt', base[1])
            if isinstance(base, tuple) and base[0] == 'nt':
                if e.attr in self.fields:
                    return ('fld', base[1], self.sem[e.attr] if self.sem is not None else e.attr)
            raise Unsupported(f'attribute {norm(e)}')
        if isinstance(e, ast.Subscript):
            base = self.eval(e.value, env)
            if (
                isinstance(base, tuple)
                and base[0] == 'nt'
                and isinstance(e.slice, ast.Constant)
                and isinstance(e.slice.value, int)
                and -len(self.fields) <= e.slice.value < len(self.fields)
            ):
                f = self.fields[e.slice.value]
                return ('fld', base[1], self.sem[f] if self.sem is not None else f)
            raise Unsupported(f'subscript {norm(e)}')
        if isinstance(e, (ast.Tuple, ast.List)):
            return ('tup', tuple(self.eval(x, env) for x in e.elts))
        if isinstance(e, ast.UnaryOp) and isinstance(e.op, ast.Not):
            return not self.truth(self.eval(e.operand, env))
        if isinstance(e, ast.BoolOp):
            if isinstance(e.op, ast.And):
                for v in e.values:
                    if not self.truth(self.eval(v, env)):
                        return False
                return True
            for v in e.values:
                if self.truth(self.eval(v, env)):
                    return True
            return False
        if isinstance(e, ast.IfExp):
            return self.eval(e.body if self.truth(self.eval(e.test, env)) else e.orelse, env)
        if isinstance(e, ast.Compare):
            left = self.eval(e.left, env)
            for op, c in zip(e.ops, e.comparators):
                right = self.eval(c, env)
                if not self.compare(op, left, right):
                    return False
                left = right
            return True
        if isinstance(e, ast.JoinedStr):
            parts = []
            for v in e.values:
                if isinstance(v, ast.Constant):
                    parts.append(('lit', v.value))
                elif isinstance(v, ast.FormattedValue) and v.format_spec is None and v.conversion in (-1, 115):
                    parts.append(self._str(self.eval(v.value, env)))
                else:
                    raise Unsupported('format specification in f-string')
            return ('cat', tuple(parts))
        if isinstance(e, ast.Call):
            return self.call(e, env)
        raise Unsupported(f'expression {norm(e)[:60]}')

    @staticmethod
    def _str(v):
        if isinstance(v, tuple) and v[0] == 'fld':
            return ('str', v)
        if isinstance(v, tuple) and v[0] in ('str', 'lit', 'cat'):
            return v
        raise Unsupported('str() of something other than a version component')

    def compare(self, op, x, y):
        if type(op) not in DUNDER:
            raise Unsupported(f'operator {type(op).__name__}')
        if isinstance(x, tuple) and isinstance(y, tuple) and x[0] == 'obj' and y[0] == 'obj':
            return self.truth(self.compare_objs(op, x, y))
        return SIGN_TEST[DUNDER[type(op)]](self.order(x, y))

    def call(self, e, env):
        if any(isinstance(a, ast.Starred) for a in e.args) or any(k.arg is None for k in e.keywords):
            raise Unsupported('star arguments')
        if isinstance(e.func, ast.Name):
            n = e.func.id
            if n in ('all', 'any') and len(e.args) == 1 and not e.keywords and isinstance(e.args[0], (ast.List, ast.Tuple, ast.Set)):
                vals = [self.truth(self.eval(x, env)) for x in e.args[0].elts]  # the list is built first: no short circuit
                return all(vals) if n == 'all' else any(vals)
            if n == 'bool' and len(e.args) == 1 and not e.keywords:
                return self.truth(self.eval(e.args[0], env))
            if n == 'str' and len(e.args) == 1 and not e.keywords:
                return self._str(self.eval(e.args[0], env))
            if n in ('tuple', 'list') and len(e.args) == 1 and not e.keywords:
                return self._as_tup(self.eval(e.args[0], env))
            raise Unsupported(f'call of {n}')
        if isinstance(e.func, ast.Attribute):
            recv = self.eval(e.func.value, env)
            if isinstance(recv, tuple) and recv[0] == 'obj':
                args = [self.eval(a, env) for a in e.args]
                kw = {k.arg: self.eval(k.value, env) for k in e.keywords}
                return self.call_method(e.func.attr, recv, args, kw)
            if isinstance(recv, tuple) and recv[0] == 'lit' and e.func.attr == 'join' and len(e.args) == 1 and not e.keywords:
                seq = self.eval(e.args[0], env)
                if isinstance(seq, tuple) and seq[0] == 'tup':
                    return ('join', recv[1], tuple(self._str(p) for p in seq[1]))
            raise Unsupported(f'call {norm(e)[:60]}')
        raise Unsupported(f'call {norm(e)[:60]}')


def _version_fields(prog):
    m = prog.module('dawgie')
    vals = m.globals.get('VERSION')
    if not vals or len(vals) != 1:
        raise AnalysisError('dawgie.VERSION is no longer a single module-level definition')
    v = vals[0]
    if not (isinstance(v, ast.Call) and call_name(v) == 'namedtuple' and len(v.args) >= 2):
        raise AnalysisError('dawgie.VERSION is no longer a namedtuple')
    fl = v.args[1]
    if isinstance(fl, (ast.List, ast.Tuple)) and all(isinstance(x, ast.Constant) and isinstance(x.value, str) for x in fl.elts):
        fields = [x.value for x in fl.elts]
    elif isinstance(fl, ast.Constant) and isinstance(fl.value, str):
        fields = fl.value.replace(',', ' ').split()
    else:
        raise AnalysisError('field list of dawgie.VERSION is not literal')
    if len(fields) != 3 or len(set(fields)) != 3:
        raise AnalysisError(f'dawgie.VERSION has fields {fields}, expected three')
    return fields


def _describe(signs):
    word = {-1: 'self < other', 0: 'equal', 1: 'self > other'}
    return ', '.join(f'{COMPONENT_WORD[i]}: {word[s]}' for i, s in enumerate(signs))


def _subclasses(prog, root):
    out, changed = {root}, True
    while changed:
        changed = False
        for c in prog.classes.values():
            if c.qname not in out and any(b in out for b in c.bases):
                out.add(c.qname)
                changed = True
    return out - {root}


def _rule1(ctx, rep):
    prog = ctx.prog
    cls = prog.cls(VERSION_CLS)
    fields = _version_fields(prog)
    with rep.rule(
        'R-C15-1',
        'the six comparison methods and newer() of dawgie.Version equal the lexicographic order on (design, implementation, bug fix) '
        'for all 27 sign triples; asstring() is injective; no subclass overrides them',
        floor=9,
        breaks='two versions compare inconsistently (a > b and a <= b, or a bump not seen as newer), or two different versions '
        'share one persisted string, so a version change is not recognised',
    ) as r:
        for name in ['__eq__', 'newer', 'asstring'] + list(ACCESSORS):
            if prog.method(cls.qname, name) is None:
                raise AnalysisError(f'anchor method {VERSION_CLS}.{name} not found')
        r.instance(len(SIGN_TEST) + 3)  # six comparisons, newer, asstring, the override census
        # semantic component of each VERSION field, derived from the accessor methods design()/implementation()/bugfix()
        sem = {}
        for i, an in enumerate(ACCESSORS):
            m = prog.method(cls.qname, an)
            if m is None:
                raise AnalysisError(f'anchor method {VERSION_CLS}.{an} not found')
            rep.analysed(m)
            try:
                aev = _SignEval(prog, cls, fields, None, (0, 0, 0))
                v = aev.call_method(an, ('obj', 'a'), [])
            except Unsupported as e:
                r.fail(f'{m.qname}:accessor', where(m), f'accessor {an}() is not understood by the evaluator: {e}')
                return
            r.check(
                not aev.direct,
                f'{m.qname}:hook',
                where(m),
                f'{an}() obtains the version through _get_ver()',
                f'{an}() reads {sorted({x for _m, x in aev.direct})} directly instead of going through _get_ver(), the documented '
                'override point: an implementer overriding _get_ver() is ignored',
            )
            if not (isinstance(v, tuple) and v[0] == 'fld' and v[1] == 'a') or v[2] in sem:
                r.fail(f'{m.qname}:accessor', where(m), f'accessor {an}() does not return its own field of the VERSION tuple (got {v})')
                return
            sem[v[2]] = i
        r.extra['field_correspondence'] = {f: ACCESSORS[i] for f, i in sem.items()}
        triples = list(itertools.product((-1, 0, 1), repeat=3))
        evaluations = 0
        ops = {v: k for k, v in DUNDER.items()}
        targets = [(n, ('obj', 'b'), SIGN_TEST[n]) for n in ('__eq__', '__ne__', '__lt__', '__le__', '__gt__', '__ge__')]
        targets.append(('newer', ('nt', 'b'), SIGN_TEST['__gt__']))
        for name, other, expect in targets:
            m = prog.method(cls.qname, name)
            # a comparison method that is not defined is served by Python's default (__ne__ = not __eq__) or by the
            # reflected method of the other operand; compare_objs follows that dispatch
            key = f'{cls.qname}.{name}:order'
            loc = where(m) if m is not None else f'{cls.module.relpath}:{cls.node.lineno}'
            if m is not None:
                rep.analysed(m)
                if len(m.params()) != 2:
                    r.fail(key, loc, f'{name} does not take exactly one other version')
                    continue
            bad = None
            direct = set()
            try:
                for t in triples:
                    ev = _SignEval(prog, cls, fields, sem, t)
                    ev.direct = direct_log = []
                    if name in ops:
                        got = ev.truth(ev.compare_objs(ops[name](), ('obj', 'a'), other))
                    else:
                        got = ev.truth(ev.call_method(name, ('obj', 'a'), [other]))
                    evaluations += 1
                    direct |= set(direct_log)
                    if got != expect(_lex(t)):
                        bad = (t, got)
                        break
            except Unsupported as e:
                r.fail(key, loc, f'{name} is outside the evaluated subset, order not shown: {e}')
                continue
            r.check(
                bad is None,
                key,
                loc,
                'agrees with the lexicographic order on all 27 sign triples',
                f'{name} disagrees with the lexicographic order: for ({_describe(bad[0])}) it returns {bad[1]}, expected {not bad[1]}'
                if bad
                else '',
            )
            r.check(
                not direct,
                f'{cls.qname}.{name}:hook',
                loc,
                f'{name} reads the components of both versions only through design()/implementation()/bugfix()/_get_ver()',
                f'{name} reads the version attribute directly ({", ".join(sorted(f"{x} in {mn}" for mn, x in direct))}) instead of through the '
                'accessors / _get_ver(), the documented override point: for an implementer overriding _get_ver() this method orders a '
                'different value than newer()/asstring() use, so the operators and newer() are no longer mutually consistent',
            )
        r.extra['sign_triples'] = len(triples)
        r.extra['evaluations'] = evaluations
        r.extra['exhaustive'] = True
        # asstring: the persisted / compared text determines the version
        m = prog.method(cls.qname, 'asstring')
        if m is None:
            raise AnalysisError(f'anchor method {VERSION_CLS}.asstring not found')
        rep.analysed(m)
        key = f'{m.qname}:injective'
        try:
            sev = _SignEval(prog, cls, fields, sem, (0, 0, 0))
            v = sev.call_method('asstring', ('obj', 'a'), [])
            comps, ok = _string_components(v)
            if sev.direct:
                ok = False
        except Unsupported as e:
            r.fail(key, where(m), f'asstring() is outside the evaluated subset, injectivity not shown: {e}')
        else:
            r.check(
                ok and sorted(comps) == [0, 1, 2],
                key,
                where(m),
                'text is the three components, each once, separated by a non-numeric literal',
                f'asstring() does not render each of the three components exactly once with a non-numeric separator (components {comps}): '
                'two different versions can share one string and a bump is then not detected against the persisted list',
            )
        # nobody overrides the order in a subclass
        names = set(ACCESSORS) | set(SIGN_TEST) | {'newer', 'asstring', '_get_ver'}
        over = []
        subs = _subclasses(prog, cls.qname)
        for q in sorted(subs):
            for n in sorted(names & set(prog.classes[q].methods)):
                over.append(f'{q}.{n}')
        r.extra['subclasses_inspected'] = len(subs)
        r.check(
            not over,
            f'{cls.qname}:no-override',
            f'{cls.module.relpath}:{cls.node.lineno}',
            f'{len(subs)} repository subclasses define none of the order methods',
            f'order / accessor methods overridden in subclasses (order no longer the one evaluated): {over}',
        )


def _string_components(v):
    """('join', sep, parts) or ('cat', parts) -> ([component indices], separators are non-empty and non-numeric)"""
    if not isinstance(v, tuple):
        raise Unsupported('asstring() does not return a string built from the components')
    if v[0] == 'join':
        seq = []
        for i, p in enumerate(v[2]):
            if i:
                seq.append(('lit', v[1]))
            seq.append(p)
    elif v[0] == 'cat':
        seq = list(v[1])
    else:
        raise Unsupported('asstring() does not return a string built from the components')
    comps, ok, prev_comp = [], True, False
    for p in seq:
        if p[0] == 'str':
            if prev_comp:
                ok = False  # two numbers side by side: 1,12 and 11,2 collide
            comps.append(p[1][2])
            prev_comp = True
        elif p[0] == 'lit':
            if p[1] == '':
                continue
            if any(ch.isdigit() or ch in '+-' for ch in p[1]):
                ok = False
            prev_comp = False
        else:
            raise Unsupported('nested string construction')
    return comps, ok


# ---------------------------------------------------------------------------
# R-C15-2: truth table of the difference predicate


class _Err(Exception):
    """the analysed code raises in this scenario"""


SCENARIOS = (
    ('absent', 'name has no persisted version list', True),
    ('known', 'current version is in the persisted list of the name', False),
    ('unknown', 'name is persisted with other versions only', True),
    ('empty', 'name is persisted with an empty version list', True),
)


class _DiffEval:
    """abstract value of an expression of _diff for ONE symbolic key k under one scenario.

    values: 'K' the key, 'CV' curr[k], 'CURR', 'PREV', 'PL' prev[k], 'EMPTY', 'NONE', 'RES' (result collection),
    ('count', 'zero'|'pos'), ('int', n), True/False
    """

    def __init__(self, scen, curr, prev, prog=None, func=None):
        self.scen = scen
        self.curr = curr
        self.prev = prev
        self.prog = prog
        self.func = func
        self.depth = 0

    def _helper(self, e, env):
        """a call of a plain helper function of the same module is executed on the values of its arguments (see _run)"""
        if self.prog is None or self.depth >= 3:
            return None
        sym = self.prog.callee(e, self.func)
        h = self.prog.func_of(sym) if sym else None
        if h is None or sym in self.prog.classes or h.module is not self.func.module or h.cls is not None or h.parent is not None:
            return None
        if h.node.args.vararg or h.node.args.kwarg or any(isinstance(n, (ast.Yield, ast.YieldFrom, ast.Await)) for n in h.own_nodes()):
            return None
        b = _bind_args(e, h)
        if b is None or set(b) != set(h.params()):
            return None
        env2 = {p: self.eval(a, env) for p, a in b.items()}
        saved = (self.func, self.curr, self.prev)
        self.func, self.curr, self.prev = h, '', ''
        self.depth += 1
        try:
            done, v = self._run(h.node.body, env2)
            return ('value', v if done else 'NONE')
        finally:
            self.depth -= 1
            self.func, self.curr, self.prev = saved

    def _run(self, stmts, env):
        """execute the statements of a helper on abstract values (under ONE scenario every guard has one outcome, so this is
        plain sequential execution) -> (returned?, value); env is updated in place.  Accepted statements: docstring / pass /
        logging, assignment of a plain local, if / elif / else, return; anything else is not understood."""
        for s in stmts:
            if isinstance(s, ast.Pass) or (isinstance(s, ast.Expr) and (isinstance(s.value, ast.Constant) or _is_log_call(s.value))):
                continue
            if isinstance(s, ast.Return):
                return True, ('NONE' if s.value is None else self.eval(s.value, env))
            if isinstance(s, ast.If):
                done, v = self._run(s.body if self.truth(self.eval(s.test, env)) else s.orelse, env)
                if done:
                    return True, v
                continue
            if isinstance(s, (ast.Assign, ast.AnnAssign)) and s.value is not None:
                tg = s.targets if isinstance(s, ast.Assign) else [s.target]
                if all(isinstance(t, ast.Name) for t in tg):
                    try:
                        v = self.eval(s.value, env)
                    except Unsupported:
                        v = 'UNK'  # only a problem when the value is read
                    for t in tg:
                        env[t.id] = v
                    continue
            if isinstance(s, ast.Raise):
                raise _Err(f'{norm(s)[:60]} in helper {self.func.qname}')
            raise Unsupported(f'statement {norm(s)[:60]} in helper {self.func.qname}')
        return False, 'NONE'

    def truth(self, v):
        if v is True or v is False:
            return v
        if v in ('NONE', 'EMPTY'):
            return False
        if isinstance(v, tuple) and v[0] == 'count':
            return v[1] == 'pos'
        if isinstance(v, tuple) and v[0] == 'int':
            return v[1] != 0
        if v == 'PL':
            return self.scen != 'empty'
        if v in ('K', 'CV'):
            raise Unsupported('truth value of a name / version string')
        raise Unsupported(f'truth value of {v}')

    def eval(self, e, env):
        if isinstance(e, ast.Constant):
            if e.value is True or e.value is False:
                return e.value
            if e.value is None:
                return 'NONE'
            if isinstance(e.value, int):
                return ('int', e.value)
            raise Unsupported(f'constant {e.value!r}')
        if isinstance(e, ast.Name):
            if e.id in env:
                v = env[e.id]
                if v == 'UNK':
                    raise Unsupported(f'value of {e.id} is not understood (a local outside the subset, or a parameter that call sites set)')
                return v
            if e.id == self.curr:
                return 'CURR'
            if e.id == self.prev:
                return 'PREV'
            raise Unsupported(f'name {e.id}')
        if isinstance(e, (ast.List, ast.Tuple, ast.Set)) and not e.elts:
            return 'EMPTY'
        if isinstance(e, ast.Dict) and not e.keys:
            return 'EMPTY'
        if isinstance(e, ast.UnaryOp) and isinstance(e.op, ast.Not):
            return not self.truth(self.eval(e.operand, env))
        if isinstance(e, ast.BoolOp):
            last = None
            for v in e.values:
                last = self.eval(v, env)
                t = self.truth(last)
                if isinstance(e.op, ast.And) and not t:
                    return last
                if isinstance(e.op, ast.Or) and t:
                    return last
            return last
        if isinstance(e, ast.IfExp):
            return self.eval(e.body if self.truth(self.eval(e.test, env)) else e.orelse, env)
        if isinstance(e, ast.Subscript):
            base = self.eval(e.value, env)
            idx = self.eval(e.slice, env)
            if base == 'PREV' and idx == 'K':
                if self.scen == 'absent':
                    raise _Err(f'KeyError in {norm(e)}')
                return 'PL'
            if base == 'CURR' and idx == 'K':
                return 'CV'
            raise Unsupported(f'subscript {norm(e)}')
        if isinstance(e, ast.Compare):
            left = self.eval(e.left, env)
            for op, c in zip(e.ops, e.comparators):
                right = self.eval(c, env)
                if not self.compare(op, left, right, e):
                    return False
                left = right
            return True
        if isinstance(e, ast.Call):
            return self.call(e, env)
        raise Unsupported(f'expression {norm(e)[:60]}')

    def compare(self, op, x, y, e):
        if isinstance(op, (ast.In, ast.NotIn)):
            if x == 'K' and y == 'PREV':
                r = self.scen != 'absent'
            elif x == 'K' and y == 'CURR':
                r = True
            elif x == 'CV' and y == 'PL':
                r = self.scen == 'known'
            elif x in ('CV', 'K') and y == 'EMPTY':
                r = False
            elif y == 'NONE':
                raise _Err(f'TypeError (membership test on None) in {norm(e)}')
            else:
                raise Unsupported(f'membership test {norm(e)[:60]}')
            return r if isinstance(op, ast.In) else not r
        if isinstance(op, (ast.Is, ast.IsNot)):
            if 'NONE' in (x, y):
                r = x == y
                return r if isinstance(op, ast.Is) else not r
            raise Unsupported(f'identity test {norm(e)[:60]}')
        if type(op) in DUNDER:
            xs, ys = self._ints(x), self._ints(y)
            if xs is None or ys is None:
                raise Unsupported(f'comparison {norm(e)[:60]}')
            test = SIGN_TEST[DUNDER[type(op)]]
            res = {test((a > b) - (a < b)) for a in xs for b in ys}
            if len(res) != 1:
                raise Unsupported(
                    f'{norm(e)[:60]} depends on how many times the version occurs in the persisted list (duplicates are normal)'
                )
            return res.pop()
        raise Unsupported(f'operator in {norm(e)[:60]}')

    @staticmethod
    def _ints(v):
        if isinstance(v, tuple) and v[0] == 'int':
            return [v[1]]
        if isinstance(v, tuple) and v[0] == 'count':
            return [0] if v[1] == 'zero' else list(range(1, 40))
        return None

    def call(self, e, env):
        if any(isinstance(a, ast.Starred) for a in e.args) or any(k.arg is None for k in e.keywords):
            raise Unsupported('star arguments')
        hv = self._helper(e, env)
        if hv is not None:
            return hv[1]
        if isinstance(e.func, ast.Name):
            n = e.func.id
            if n in _WRAPPERS and not e.keywords:
                if not e.args:
                    return 'EMPTY'
                if len(e.args) == 1:
                    v = self.eval(e.args[0], env)
                    if v in ('PL', 'EMPTY', 'CURR', 'PREV', 'RES'):
                        return v
                    if v == 'NONE':
                        raise _Err(f'TypeError in {norm(e)}')
            if n == 'bool' and len(e.args) == 1 and not e.keywords:
                return self.truth(self.eval(e.args[0], env))
            raise Unsupported(f'call of {n}')
        if isinstance(e.func, ast.Attribute):
            recv = self.eval(e.func.value, env)
            a = e.func.attr
            if a == 'keys' and recv in ('PREV', 'CURR') and not e.args:
                return recv
            if a in ('startswith', 'endswith') and recv in ('K', 'CV') and len(e.args) == 1 and not e.keywords:
                if self.eval(e.args[0], env) == 'EMPTY':
                    return False  # str.startswith(()) is constant False
                raise Unsupported(f'{norm(e)} is a condition on the name itself, not on whether its version is persisted')
            if a == 'get' and recv in ('PREV', 'CURR') and 1 <= len(e.args) <= 2 and not e.keywords:
                if self.eval(e.args[0], env) != 'K':
                    raise Unsupported(f'lookup of something other than the key in {norm(e)}')
                dflt = self.eval(e.args[1], env) if len(e.args) == 2 else 'NONE'
                if recv == 'CURR':
                    return 'CV'
                return dflt if self.scen == 'absent' else 'PL'
            if a == 'count' and len(e.args) == 1 and not e.keywords:
                if self.eval(e.args[0], env) != 'CV':
                    raise Unsupported(f'count of something other than the current version in {norm(e)}')
                if recv == 'PL':
                    return ('count', 'pos' if self.scen == 'known' else 'zero')
                if recv == 'EMPTY':
                    return ('count', 'zero')
                if recv == 'NONE':
                    raise _Err(f'AttributeError (None.count) in {norm(e)}')
            raise Unsupported(f'call {norm(e)[:60]}')
        raise Unsupported(f'call {norm(e)[:60]}')


class _DiffFlow(Flow):
    """one iteration of the loop of _diff for a symbolic key; state = (selected?, env)"""

    def __init__(self, ev, res):
        super().__init__()
        self.ev = ev
        self.res = res
        self.problems = []  # (kind, node, text)

    @staticmethod
    def _env(st):
        return dict(st[1])

    def _ev(self, e, st):
        try:
            return self.ev.eval(e, self._env(st))
        except _Err as x:
            self.problems.append(('raises', e, str(x)))
            return _Err
        except Unsupported as x:
            self.problems.append(('not-understood', e, str(x)))
            return Unsupported

    def on_test(self, e, st):
        v = self._ev(e, st)
        if v is _Err:
            return (), ()
        if v is Unsupported:
            return (st,), (st,)
        try:
            t = self.ev.truth(v)
        except Unsupported as x:
            self.problems.append(('not-understood', e, str(x)))
            return (st,), (st,)
        return ((st,), ()) if t else ((), (st,))

    def on_stmt(self, s, st):
        sel, env = st
        if isinstance(s, (ast.Assign, ast.AnnAssign)) and s.value is not None:
            tg = s.targets if isinstance(s, ast.Assign) else [s.target]
            if not all(isinstance(t, ast.Name) for t in tg) or any(t.id == self.res for t in tg):
                self.problems.append(('not-understood', s, 'assignment to something other than a plain local'))
                return (st,)
            v = self._ev(s.value, st)
            if v is _Err:
                return ()
            d = dict(env)
            for t in tg:
                d[t.id] = 'UNK' if v is Unsupported else v
            if v is Unsupported:
                self.problems.pop()  # only a problem if the value is used by a guard
            return ((sel, frozenset(d.items())),)
        if isinstance(s, ast.AugAssign):
            if (
                isinstance(s.target, ast.Name)
                and s.target.id == self.res
                and isinstance(s.op, ast.Add)
                and isinstance(s.value, (ast.List, ast.Tuple))
                and len(s.value.elts) == 1
                and self._ev(s.value.elts[0], st) == 'K'
            ):
                return ((True, env),)
            self.problems.append(('not-understood', s, 'augmented assignment'))
            return (st,)
        if isinstance(s, (ast.Pass, ast.Expr)):
            return (st,)
        self.problems.append(('not-understood', s, f'statement kind {type(s).__name__}'))
        return (st,)

    def on_call(self, call, st):
        sel, env = st
        f = call.func
        if isinstance(f, ast.Attribute) and isinstance(f.value, ast.Name) and f.value.id == self.res:
            if f.attr in ('append', 'add') and len(call.args) == 1 and not call.keywords and self._ev(call.args[0], st) == 'K':
                return ((True, env),)
            self.problems.append(('not-understood', call, f'operation {f.attr} on the result collection'))
            return (st,)
        if any(isinstance(n, ast.Name) and n.id == self.res for a in call.args for n in ast.walk(a)) and not _is_log_call(call):
            self.problems.append(('not-understood', call, 'result collection passed to a call'))
        return (st,)

    def on_return(self, node, st):
        self.problems.append(('early-exit', node, 'return inside the loop drops the remaining names'))
        return (st,)

    def on_raise(self, node, st):
        self.problems.append(('raises', node, 'raise inside the loop'))
        return (st,)


def _loop_binding(it, target, curr):
    """for <target> in <it> over the names of curr -> initial env or None"""
    while isinstance(it, ast.Call) and isinstance(it.func, ast.Name) and it.func.id in _WRAPPERS and len(it.args) == 1 and not it.keywords:
        it = it.args[0]
    if isinstance(it, ast.Name) and it.id == curr and isinstance(target, ast.Name):
        return {target.id: 'K'}
    if isinstance(it, ast.Call) and isinstance(it.func, ast.Attribute) and isinstance(it.func.value, ast.Name) and it.func.value.id == curr and not it.args:
        if it.func.attr == 'keys' and isinstance(target, ast.Name):
            return {target.id: 'K'}
        if it.func.attr == 'items' and isinstance(target, ast.Tuple) and len(target.elts) == 2 and all(isinstance(x, ast.Name) for x in target.elts):
            return {target.elts[0].id: 'K', target.elts[1].id: 'CV'}
    return None


def _is_empty_coll(e):
    if isinstance(e, (ast.List, ast.Tuple, ast.Set)) and not e.elts:
        return True
    return isinstance(e, ast.Call) and isinstance(e.func, ast.Name) and e.func.id in ('list', 'set') and not e.args and not e.keywords


def _extra_params(f, sites):
    """parameters of _diff after (current, persisted) -> abstract value: the value of the default when every call site leaves
    the parameter at its default (and the default is understood), else 'UNK' (any guard reading it is then not understood)"""
    a = f.node.args
    pos = a.posonlyargs + a.args
    dflt = dict(zip([x.arg for x in pos[len(pos) - len(a.defaults):]], a.defaults))
    dflt.update({x.arg: d for x, d in zip(a.kwonlyargs, a.kw_defaults) if d is not None})
    out = {}
    for i, p in enumerate(f.params()[2:], start=2):
        out[p] = 'UNK'
        passed = any(len(c.args) > i or any(k.arg in (p, None) for k in c.keywords) or any(isinstance(x, ast.Starred) for x in c.args) for c in sites)
        if p in dflt and not passed:
            try:
                out[p] = _DiffEval('known', '', '').eval(dflt[p], {})
            except (Unsupported, _Err):
                pass
    return out


def _diff_table(prog, f, sites=()):
    """-> ({scenario: set of selected flags}, [problems], evaluations) for dawgie.pl.schedule._diff"""
    params = f.params()
    if len(params) < 2 or f.node.args.vararg or f.node.args.kwarg:
        raise AnalysisError(f'{f.qname} no longer takes (current, persisted)')
    curr, prev = params[:2]
    extras = _extra_params(f, sites)
    body = [s for s in f.node.body if not (isinstance(s, ast.Pass) or (isinstance(s, ast.Expr) and (isinstance(s.value, ast.Constant) or _is_log_call(s.value))))]
    rets = [n for n in f.own_nodes() if isinstance(n, ast.Return)]
    problems, table = [], {}
    if len(rets) != 1 or not body or body[-1] is not rets[0] or rets[0].value is None:
        return table, [('not-understood', f.node, 'the function does not end in its single return of the result')], 0
    rv = rets[0].value
    while isinstance(rv, ast.Call) and isinstance(rv.func, ast.Name) and rv.func.id in _WRAPPERS and len(rv.args) == 1 and not rv.keywords:
        rv = rv.args[0]
    comp, res, loop = None, None, None
    rest = body[:-1]
    if isinstance(rv, (ast.ListComp, ast.SetComp, ast.GeneratorExp)):
        comp = rv
    elif isinstance(rv, ast.Name):
        res = rv.id
        if len(rest) == 1 and isinstance(rest[0], ast.Assign) and isinstance(rest[0].value, (ast.ListComp, ast.SetComp)):
            comp = rest[0].value
            if not (len(rest[0].targets) == 1 and isinstance(rest[0].targets[0], ast.Name) and rest[0].targets[0].id == res):
                return table, [('not-understood', rest[0], 'result is not the comprehension')], 0
            rest = []
    else:
        return table, [('not-understood', rets[0], 'returned value is not the collected result')], 0
    evaluations = 0
    if comp is not None:
        if rest or len(comp.generators) != 1 or comp.generators[0].is_async:
            return table, [('not-understood', comp, 'extra statements or generators around the comprehension')], 0
        g = comp.generators[0]
        env0 = _loop_binding(g.iter, g.target, curr)
        if env0 is None:
            return table, [('not-understood', g.iter, 'comprehension does not iterate over the names of the current table')], 0
        env0 = {**extras, **env0}
        for scen, _txt, _exp in SCENARIOS:
            ev = _DiffEval(scen, curr, prev, prog, f)
            try:
                if ev.eval(comp.elt, env0) != 'K':
                    raise Unsupported('collected element is not the name')
                sel = True
                for c in g.ifs:
                    evaluations += 1
                    if not ev.truth(ev.eval(c, env0)):
                        sel = False
                        break
                table[scen] = {sel}
            except _Err as x:
                problems.append(('raises', comp, f'[{scen}] {x}'))
            except Unsupported as x:
                problems.append(('not-understood', comp, f'[{scen}] {x}'))
        return table, problems, evaluations
    # loop form: RES = <empty>; for k in curr: ...; return RES
    for s in rest:
        if isinstance(s, ast.Assign) and len(s.targets) == 1 and isinstance(s.targets[0], ast.Name) and s.targets[0].id == res and _is_empty_coll(s.value):
            continue
        if isinstance(s, ast.For) and loop is None and not s.orelse:
            loop = s
            continue
        problems.append(('not-understood', s, f'statement outside the loop: {norm(s)[:60]}'))
    if loop is None:
        return table, problems + [('not-understood', f.node, 'no loop over the current table')], 0
    env0 = _loop_binding(loop.iter, loop.target, curr)
    if env0 is None:
        return table, problems + [('not-understood', loop.iter, 'loop does not iterate over the names of the current table')], 0
    env0 = {**extras, **env0}
    for scen, _txt, _exp in SCENARIOS:
        fl = _DiffFlow(_DiffEval(scen, curr, prev, prog, f), res)
        out = fl.block(loop.body, {(False, frozenset(env0.items()))})
        evaluations += fl.visited
        for kind, node, text in fl.problems:
            problems.append((kind, node, f'[{scen}] {text}'))
        if out.brk:
            problems.append(('early-exit', loop, f'[{scen}] break inside the loop drops the remaining names'))
        table[scen] = {st[0] for st in out.normal | out.cont}
    return table, problems, evaluations


def _rule2(ctx, rep):
    prog = ctx.prog
    f = prog.func('dawgie.pl.schedule._diff')
    rep.analysed(f)
    with rep.rule(
        'R-C15-2',
        'schedule._diff selects a name exactly when it is not persisted or its current version is not in its persisted list '
        '(truth table over {name persisted, version in list}, evaluation errors included)',
        floor=4,
        breaks='a bumped version is not rescheduled, an unchanged one is rerun on every reload, or the reload crashes on a new name',
    ) as r:
        sites = [e.call for e in ctx.cg.callers(f.qname, kinds={'direct'})]
        table, problems, evaluations = _diff_table(prog, f, sites)
        r.extra['truth_table_rows'] = len(SCENARIOS)
        r.extra['evaluations'] = evaluations
        seen = set()
        for kind, node, text in problems:
            k = f'{f.qname}:{kind}:{norm(node)[:80] if not isinstance(node, (ast.FunctionDef, ast.For)) else type(node).__name__}'
            if k in seen:
                continue
            seen.add(k)
            r.fail(k, where(f, node), f'{text} ({norm(node)[:70]})')
        for scen, txt, expect in SCENARIOS:
            r.instance()
            got = table.get(scen)
            key = f'{f.qname}:row-{scen}'
            if got is None or not got:
                if not problems:
                    r.fail(key, where(f), f'when the {txt}: no outcome computed')
                else:
                    r.fail(key, where(f), f'when the {txt}: the loop body does not complete (see the other findings)')
                continue
            r.check(
                got == {expect},
                key,
                where(f),
                f'when the {txt}: selected={expect}',
                f'when the {txt} the name is {"selected" if True in got else "not selected"}'
                f'{" on some paths" if len(got) > 1 else ""}, expected {"selected" if expect else "not selected"}',
            )


# ---------------------------------------------------------------------------
# R-C15-3: table agreement (B.6 string shapes: sequences of components joined by '.')

SEP = '.'
ARITY = (('algorithm', 2), ('state vector', 3), ('value', 4))


def _single_assignments(func):
    """local name -> the one expression it is assigned (plain ``name = expr``); names assigned more than once are absent"""
    seen = {}
    for n in func.own_nodes():
        tg = []
        if isinstance(n, ast.Assign):
            tg = [(t, n.value) for t in n.targets]
        elif isinstance(n, ast.AnnAssign) and n.value is not None:
            tg = [(n.target, n.value)]
        elif isinstance(n, ast.AugAssign):
            tg = [(n.target, None)]
        elif isinstance(n, (ast.For, ast.comprehension)):
            tg = [(x, None) for x in ast.walk(n.target) if isinstance(x, ast.Name)]
        elif isinstance(n, ast.withitem) and n.optional_vars is not None:
            tg = [(x, None) for x in ast.walk(n.optional_vars) if isinstance(x, ast.Name)]
        for t, v in tg:
            if isinstance(t, ast.Name):
                seen.setdefault(t.id, []).append(v)
            elif isinstance(t, (ast.Tuple, ast.List)):
                for x in ast.walk(t):
                    if isinstance(x, ast.Name):
                        seen.setdefault(x.id, []).append(None)
    for p in func.params():
        seen.setdefault(p, []).append(None)
    return {k: v[0] for k, v in seen.items() if len(v) == 1 and v[0] is not None}


def _items_bindings(func):
    """``for k, v in S.items()`` -> {v: 'S[k]' as an expression}"""
    out = {}
    for n in func.own_nodes():
        if (
            isinstance(n, (ast.For, ast.comprehension))
            and isinstance(n.target, ast.Tuple)
            and len(n.target.elts) == 2
            and all(isinstance(x, ast.Name) for x in n.target.elts)
            and isinstance(n.iter, ast.Call)
            and isinstance(n.iter.func, ast.Attribute)
            and n.iter.func.attr == 'items'
            and not n.iter.args
        ):
            k, v = n.target.elts
            out[v.id] = ast.Subscript(value=n.iter.func.value, slice=ast.Name(id=k.id, ctx=ast.Load()), ctx=ast.Load())
    return out


class _Subst(ast.NodeTransformer):
    def __init__(self, table):
        self.table = table

    def visit_Name(self, node):
        if isinstance(node.ctx, ast.Load) and node.id in self.table:
            return self.table[node.id]
        return node


def _cp(expr, func, depth=3):
    """copy propagation of single-assignment locals and of items() loop values (so hoisting a component is benign)"""
    import copy

    table = dict(_single_assignments(func))
    table.update(_items_bindings(func))
    for _ in range(depth):
        before = ast.dump(expr)
        expr = ast.fix_missing_locations(_Subst(table).visit(copy.deepcopy(expr)))
        if ast.dump(expr) == before:
            break
    return expr


def _join_parts(e):
    """the component expressions of a '.'-joined name, or None when e is not such a construction"""
    if (
        isinstance(e, ast.Call)
        and isinstance(e.func, ast.Attribute)
        and e.func.attr == 'join'
        and isinstance(e.func.value, ast.Constant)
        and e.func.value.value == SEP
        and len(e.args) == 1
        and not e.keywords
        and isinstance(e.args[0], (ast.List, ast.Tuple))
        and not any(isinstance(x, ast.Starred) for x in e.args[0].elts)
    ):
        return list(e.args[0].elts)
    if isinstance(e, ast.JoinedStr):
        parts, expect_sep = [], False
        for v in e.values:
            if isinstance(v, ast.Constant):
                if v.value != SEP or not expect_sep:
                    return None
                expect_sep = False
            elif isinstance(v, ast.FormattedValue) and v.format_spec is None and not expect_sep:
                parts.append(v.value)
                expect_sep = True
            else:
                return None
        return parts if parts and expect_sep else None
    if isinstance(e, ast.BinOp) and isinstance(e.op, ast.Add):
        flat, todo = [], [e]
        while todo:
            x = todo.pop()
            if isinstance(x, ast.BinOp) and isinstance(x.op, ast.Add):
                todo.append(x.right)
                todo.append(x.left)
            else:
                flat.append(x)
        if len(flat) % 2 == 1 and all(isinstance(x, ast.Constant) and x.value == SEP for x in flat[1::2]) and not any(
            isinstance(x, ast.Constant) for x in flat[0::2]
        ):
            return flat[0::2]
    return None


class _Shapes(Flow):
    """reaching shapes of '.'-joined names; records every store ``D[name] = v`` / ``D[name].append(v)`` (also through a
    one-level repository helper such as post._append_ver).  state = frozenset of (local, shape); shape = tuple of
    normalised component expressions"""

    def __init__(self, prog, func):
        super().__init__()
        self.prog = prog
        self.f = func
        self.stores = []  # (dict name, shape or None, kind 'assign'|'append', value expr or None, node)
        self._helpers = {}

    def shape(self, e, st):
        env = dict(st)
        if isinstance(e, ast.Name) and e.id in env:
            return env[e.id]
        parts = _join_parts(e)
        if parts is None:
            return None
        out = []
        for p in parts:
            if isinstance(p, ast.Name) and p.id in env and env[p.id] is not None:
                out.extend(env[p.id])  # a joined name used as the prefix of a longer one
            else:
                if isinstance(p, ast.Call) and isinstance(p.func, ast.Name) and p.func.id == 'str' and len(p.args) == 1:
                    p = p.args[0]
                out.append(norm(_cp(p, self.f)))
        return tuple(out)

    def on_stmt(self, s, st):
        if isinstance(s, (ast.Assign, ast.AnnAssign)) and s.value is not None:
            tg = s.targets if isinstance(s, ast.Assign) else [s.target]
            for t in tg:
                if isinstance(t, ast.Name):
                    sh = self.shape(s.value, st)
                    d = {k: v for k, v in st if k != t.id}
                    if sh is not None:
                        d[t.id] = sh
                    st = frozenset(d.items())
                elif isinstance(t, ast.Subscript) and isinstance(t.value, ast.Name):
                    self._store(t.value.id, self.shape(t.slice, st), 'assign', s.value, s)
        return (st,)

    def on_for(self, node, st):
        names = {x.id for x in ast.walk(node.target) if isinstance(x, ast.Name)}
        return (frozenset((k, v) for k, v in st if k not in names),)

    def _store(self, d, shape, kind, value, node):
        rec = (d, shape, kind, value, node)
        if not any(x[0] == d and x[1] == shape and x[2] == kind and x[4] is node for x in self.stores):
            self.stores.append(rec)

    def on_call(self, call, st):
        f = call.func
        # D[key].append(v)
        if (
            isinstance(f, ast.Attribute)
            and f.attr == 'append'
            and isinstance(f.value, ast.Subscript)
            and isinstance(f.value.value, ast.Name)
            and len(call.args) == 1
        ):
            self._store(f.value.value.id, self.shape(f.value.slice, st), 'append', call.args[0], call)
            return (st,)
        # D.setdefault(key, []).append(v)
        if (
            isinstance(f, ast.Attribute)
            and f.attr == 'append'
            and isinstance(f.value, ast.Call)
            and isinstance(f.value.func, ast.Attribute)
            and f.value.func.attr == 'setdefault'
            and isinstance(f.value.func.value, ast.Name)
            and f.value.args
            and len(call.args) == 1
        ):
            self._store(f.value.func.value.id, self.shape(f.value.args[0], st), 'append', call.args[0], call)
            return (st,)
        # helper(D, key, v) whose body stores into its parameter
        sym = self.prog.callee(call, self.f)
        h = self.prog.func_of(sym) if sym else None
        if h is not None and sym not in self.prog.classes and not call.keywords and not any(isinstance(a, ast.Starred) for a in call.args):
            for dp, kp, kind, vp in self._summary(h):
                if dp < len(call.args) and kp < len(call.args) and isinstance(call.args[dp], ast.Name):
                    val = call.args[vp] if vp is not None and vp < len(call.args) else None
                    self._store(call.args[dp].id, self.shape(call.args[kp], st), kind, val, call)
        return (st,)

    def _summary(self, h):
        """[(dict param index, key param index, kind, value param index or None)] for ``p[q] = ...`` / ``p[q].append(r)``"""
        if h.qname in self._helpers:
            return self._helpers[h.qname]
        ps = h.params()
        out = []

        def pq(sub):
            if isinstance(sub, ast.Subscript) and isinstance(sub.value, ast.Name) and isinstance(sub.slice, ast.Name):
                if sub.value.id in ps and sub.slice.id in ps:
                    return ps.index(sub.value.id), ps.index(sub.slice.id)
            return None

        for n in h.own_nodes():
            if isinstance(n, ast.Assign):
                for t in n.targets:
                    x = pq(t)
                    if x:
                        vals = n.value.elts if isinstance(n.value, ast.List) else [n.value]
                        if not vals:
                            out.append((x[0], x[1], 'assign', None))
                        for v in vals:
                            out.append((x[0], x[1], 'assign', ps.index(v.id) if isinstance(v, ast.Name) and v.id in ps else None))
            elif isinstance(n, ast.Call) and isinstance(n.func, ast.Attribute) and n.func.attr == 'append' and len(n.args) == 1:
                x = pq(n.func.value)
                if x:
                    v = n.args[0]
                    out.append((x[0], x[1], 'append', ps.index(v.id) if isinstance(v, ast.Name) and v.id in ps else None))
        self._helpers[h.qname] = out
        return out


def _returned_names(func, n):
    """the n local names of the single ``return a, b, ...`` of func"""
    rets = [x for x in func.own_nodes() if isinstance(x, ast.Return)]
    if len(rets) != 1 or not isinstance(rets[0].value, ast.Tuple) or len(rets[0].value.elts) != n:
        return None
    if not all(isinstance(x, ast.Name) for x in rets[0].value.elts):
        return None
    return [x.id for x in rets[0].value.elts]


def _version_values(kind, value):
    """the version-string expressions put into a table by one store"""
    if value is None:
        return []
    if kind == 'assign' and isinstance(value, (ast.List, ast.Tuple)):
        return list(value.elts)
    return [value]


def _is_asstring(e):
    return isinstance(e, ast.Call) and isinstance(e.func, ast.Attribute) and e.func.attr == 'asstring' and not e.args and not e.keywords


def _table_shapes(prog, func, names, rule, label, lists):
    """per returned table: its stores; reports tables without stores / with non-uniform or non-'.'-joined names.
    -> {table name: shape tuple set}"""
    fl = _Shapes(prog, func)
    fl.run(func.node, frozenset())
    out = {}
    for tn in names:
        st = [s for s in fl.stores if s[0] == tn]
        shapes = {s[1] for s in st}
        out[tn] = (shapes, st)
        if not st:
            rule.fail(f'{func.qname}:{label}:{tn}:no-store', where(func), f'no store into the returned table {tn} was recognised: its name format is not shown')
        elif None in shapes:
            bad = [s for s in st if s[1] is None][0]
            rule.fail(
                f'{func.qname}:{label}:{tn}:{norm(bad[4])[:70]}',
                where(func, bad[4]),
                f"the key of {norm(bad[4])[:70]} is not a '.'-joined name whose components are visible: name format not shown",
            )
        if lists:
            for s in st:
                for v in _version_values(s[2], s[3]):
                    if not _is_asstring(v):
                        rule.fail(
                            f'{func.qname}:{label}:{tn}:value:{norm(v)[:60]}',
                            where(func, s[4]),
                            f'{norm(v)[:60]} stored in the version list of {tn} is not the asstring() text that pl.version.current compares against',
                        )
    return fl, out


def _value_matches(func, shape, value):
    """the stored version text belongs to the object named by the last component of the name"""
    if not _is_asstring(value) or not shape:
        return False
    o = _cp(value.func.value, func)
    if shape[-1] == f'{norm(o)}.name()':
        return True
    return (
        isinstance(o, ast.Subscript)
        and norm(o.slice) == shape[-1]
        and len(shape) >= 2
        and shape[-2] == f'{norm(o.value)}.name()'
    )


def _strip(e):
    while isinstance(e, ast.Call) and isinstance(e.func, ast.Name) and e.func.id in _WRAPPERS and len(e.args) == 1 and not e.keywords:
        e = e.args[0]
    return e


def _returns_call_to(prog, func, targets):
    rets = [n for n in func.own_nodes() if isinstance(n, ast.Return)]
    return bool(rets) and all(isinstance(x.value, ast.Call) and prog.callee(x.value, func) in targets for x in rets)


def _bind_args(call, func):
    """param name -> argument expression of a call of func (a plain function)"""
    ps = func.params()
    out = {}
    for i, a in enumerate(call.args):
        if isinstance(a, ast.Starred) or i >= len(ps):
            return None
        out[ps[i]] = a
    for k in call.keywords:
        if k.arg is None or k.arg not in ps:
            return None
        out[k.arg] = k.value
    return out


class _PrefixEval:
    """B.6: value of the scheduled-name expression for an item that is a '.'-joined name of n components"""

    def __init__(self, var, n):
        self.var = var
        self.comps = tuple(f'c{i}' for i in range(n))

    def eval(self, e):
        if isinstance(e, ast.Name):
            if e.id == self.var:
                return ('name', self.comps)
            raise Unsupported(f'name {e.id}')
        if isinstance(e, ast.Constant) and isinstance(e.value, str):
            return ('lit', e.value)
        if isinstance(e, (ast.List, ast.Tuple)):
            out = []
            for x in e.elts:
                v = self.eval(x)
                if v[0] != 'name':
                    raise Unsupported('list element is not a name')
                out.extend(v[1])
            return ('list', tuple(out))
        if isinstance(e, ast.BinOp) and isinstance(e.op, ast.Add):
            a, b = self.eval(e.left), self.eval(e.right)
            if a[0] == 'list' and b[0] == 'list':
                return ('list', a[1] + b[1])
            raise Unsupported(f'{norm(e)[:50]}')
        if isinstance(e, ast.Subscript):
            base = self.eval(e.value)
            if base[0] != 'list':
                raise Unsupported(f'subscript of a string in {norm(e)[:50]}')
            s = e.slice
            if isinstance(s, ast.Slice):
                b = []
                for x in (s.lower, s.upper, s.step):
                    if x is None:
                        b.append(None)
                    elif isinstance(x, ast.Constant) and isinstance(x.value, int):
                        b.append(x.value)
                    elif isinstance(x, ast.UnaryOp) and isinstance(x.op, ast.USub) and isinstance(x.operand, ast.Constant):
                        b.append(-x.operand.value)
                    else:
                        raise Unsupported('non-literal slice bound')
                return ('list', base[1][slice(*b)])
            if isinstance(s, ast.Constant) and isinstance(s.value, int):
                if not -len(base[1]) <= s.value < len(base[1]):
                    raise Unsupported(f'index {s.value} out of range for a name of {len(self.comps)} components')
                return ('name', (base[1][s.value],))
            raise Unsupported(f'subscript {norm(e)[:50]}')
        if isinstance(e, ast.Call) and isinstance(e.func, ast.Attribute) and not e.keywords:
            recv = self.eval(e.func.value)
            if e.func.attr == 'split' and recv[0] == 'name' and len(e.args) == 1 and self.eval(e.args[0]) == ('lit', SEP):
                return ('list', recv[1])
            if e.func.attr == 'join' and recv == ('lit', SEP) and len(e.args) == 1:
                v = self.eval(e.args[0])
                if v[0] == 'list' and v[1]:
                    return ('name', v[1])
            raise Unsupported(f'call {norm(e)[:50]}')
        raise Unsupported(f'expression {norm(e)[:50]}')


def _parents(root):
    out = {}
    for n in ast.walk(root):
        for c in ast.iter_child_nodes(n):
            out[c] = n
    return out


class _Cx:
    """a function analysed in the context of one call chain that starts at build(): parameters are bound to the
    caller's argument expressions (helper extraction / inlining must not change the verdict)"""

    def __init__(self, func, bind=None, call=None, parent=None):
        self.func = func
        self.bind = bind or {}  # param -> (argument expression, caller _Cx)
        self.call = call
        self.parent = parent
        self.depth = 0 if parent is None else parent.depth + 1
        self.single = _single_assignments(func)
        self.stored = {n.id for n in func.own_nodes() if isinstance(n, ast.Name) and isinstance(n.ctx, (ast.Store, ast.Del))}
        self.unpack = {}
        for n in func.own_nodes():
            if isinstance(n, ast.Assign) and len(n.targets) == 1 and isinstance(n.targets[0], ast.Tuple) and isinstance(n.value, ast.Name):
                for i, t in enumerate(n.targets[0].elts):
                    if isinstance(t, ast.Name):
                        self.unpack[t.id] = None if t.id in self.unpack else (n.value.id, i)
        # a, b = x, y  binds each name once: same as two single assignments
        count = {}
        for n in func.own_nodes():
            if isinstance(n, ast.Name) and isinstance(n.ctx, (ast.Store, ast.Del)):
                count[n.id] = count.get(n.id, 0) + 1
        for n in func.own_nodes():
            if (
                isinstance(n, ast.Assign)
                and len(n.targets) == 1
                and isinstance(n.targets[0], ast.Tuple)
                and isinstance(n.value, ast.Tuple)
                and len(n.targets[0].elts) == len(n.value.elts)
                and not any(isinstance(x, ast.Starred) for x in n.targets[0].elts + n.value.elts)
            ):
                for t, v in zip(n.targets[0].elts, n.value.elts):
                    if isinstance(t, ast.Name) and count.get(t.id) == 1 and t.id not in func.params():
                        self.single[t.id] = v
        self.sub = {}  # id(call node) -> _Cx of the followed callee
        self._par = None

    @property
    def parents(self):
        if self._par is None:
            self._par = _parents(self.func.node)
        return self._par

    def chain(self):
        out, c = [], self
        while c is not None:
            out.append(c.func.qname)
            c = c.parent
        return out


def _scope(prog, root, exclude, maxdepth=2):
    """root plus the plain functions of its module that it calls (two levels), each in its calling context"""
    out, i = [_Cx(root)], 0
    while i < len(out):
        cx = out[i]
        i += 1
        if cx.depth >= maxdepth:
            continue
        for c in sorted(cx.func.calls(), key=lambda n: (n.lineno, n.col_offset)):
            sym = prog.callee(c, cx.func)
            h = prog.func_of(sym) if sym else None
            if h is None or sym in prog.classes or h.module is not root.module or h.cls is not None or h.parent is not None:
                continue
            if h.qname in exclude or h.qname in cx.chain():
                continue
            b = _bind_args(c, h)
            if b is None:
                continue
            sub = _Cx(h, {p: (a, cx) for p, a in b.items()}, c, cx)
            cx.sub[id(c)] = sub
            out.append(sub)
    return out


def _single_return(func):
    rets = [n for n in func.own_nodes() if isinstance(n, ast.Return)]
    if len(rets) == 1 and rets[0].value is not None and func.node.body and func.node.body[-1] is rets[0]:
        return rets[0].value
    return None


def _resolve(e, cx, trail, depth=0):
    """follow single-assignment locals, parameters (to the caller's argument) and calls of followed helpers (to their
    single returned expression) -> (expression, context); trail collects the (local name, context) passed through"""
    e = _strip(e)
    if depth > 10:
        return e, cx
    if isinstance(e, ast.Name):
        if e.id in cx.single:
            trail.append((e.id, cx))
            return _resolve(cx.single[e.id], cx, trail, depth + 1)
        if e.id in cx.bind and e.id not in cx.stored:
            trail.append((e.id, cx))
            a, c2 = cx.bind[e.id]
            return _resolve(a, c2, trail, depth + 1)
    elif isinstance(e, ast.Call) and id(e) in cx.sub:
        rv = _single_return(cx.sub[id(e)].func)
        if rv is not None:
            return _resolve(rv, cx.sub[id(e)], trail, depth + 1)
    return e, cx


def _origin(e, cx, root):
    """(parameter of root, index) when e denotes ``param[index]`` (directly, through locals, unpacking or helper parameters)"""

    def base(b, bcx):
        b, bcx = _resolve(b, bcx, [])
        if isinstance(b, ast.Name) and bcx.func is root and b.id in root.params() and b.id not in bcx.stored:
            return b.id
        return None

    e, cx = _resolve(e, cx, [])
    if isinstance(e, ast.Subscript) and isinstance(e.slice, ast.Constant) and isinstance(e.slice.value, int):
        p = base(e.value, cx)
        return (p, e.slice.value) if p else None
    if isinstance(e, ast.Name) and cx.unpack.get(e.id):
        src, i = cx.unpack[e.id]
        p = base(ast.Name(id=src, ctx=ast.Load()), cx)
        return (p, i) if p else None
    return None


def _loop_source(name, cx, node):
    """the for loop binding ``name`` around ``node`` (continuing at the call site when name is a helper's parameter)"""
    for _ in range(4):
        x = node
        while x in cx.parents:
            x = cx.parents[x]
            if isinstance(x, ast.For) and isinstance(x.target, ast.Name) and x.target.id == name:
                return x, cx
        if name in cx.bind and cx.call is not None and name not in cx.stored:
            a, c2 = cx.bind[name]
            a = _strip(a)
            if not isinstance(a, ast.Name):
                return None
            name, node, cx = a.id, cx.call, c2
            continue
        return None
    return None


def _foreign_uses(prog, name, cx, organize_call, readers):
    """loads of a local that are not plain reads on the way to organize -> [(node, reason)]"""
    out = []
    par = cx.parents
    for n in cx.func.own_nodes():
        if not (isinstance(n, ast.Name) and n.id == name and isinstance(n.ctx, ast.Load)):
            continue
        x, ok = n, False
        while x in par and not ok:
            p = par[x]
            if isinstance(p, ast.Call) and isinstance(p.func, ast.Name) and p.func.id in _WRAPPERS + ('len',) and x in p.args:
                x = p
            elif isinstance(p, ast.BinOp) and isinstance(p.op, ast.Add):
                x = p  # concatenation builds a new list
            elif isinstance(p, ast.keyword):
                x = p
            elif isinstance(p, ast.Call) and x is not p.func and (
                p is organize_call or id(p) in cx.sub or call_name(p) == 'chain' or _is_log_call(p)
            ):
                ok = True
            elif isinstance(p, ast.Call) and x is not p.func and (prog.callee(p, cx.func) in readers):
                ok = True
            elif isinstance(p, (ast.For, ast.comprehension)) and p.iter is x:
                ok = True
            elif isinstance(p, (ast.Return, ast.Assign, ast.AnnAssign)) and getattr(p, 'value', None) is x:
                ok = True  # returned / copied to another local that is resolved in turn
            else:
                q = p
                while q in par and not ok:
                    ok = _is_log_call(q)
                    q = par[q]
                break
        if not ok:
            p = par.get(n, n)
            out.append((p, 'method call' if isinstance(p, ast.Attribute) else 'not a plain read'))
    return out


def _todo_value(prog, cx, e, asp, depth=0):
    """abstract value of the collection put into 'todo': 'ALL' (exactly the all-targets marker), 'TARGETS' (db.targets()) or text"""
    if depth > 8:
        return 'too deep'
    func = cx.func
    if isinstance(e, ast.Call):
        sym = prog.callee(e, func)
        if sym == 'dawgie.db.targets' and not e.args:
            return 'TARGETS'
        wrapper = (isinstance(e.func, ast.Name) and e.func.id in _WRAPPERS) or (sym or '').startswith('dawgie.util.fifo.Unique')
        if wrapper and len(e.args) == 1 and not e.keywords:
            return _todo_value(prog, cx, e.args[0], asp, depth + 1)
        if id(e) in cx.sub and _single_return(cx.sub[id(e)].func) is not None:  # followed helper
            return _todo_value(prog, cx.sub[id(e)], _single_return(cx.sub[id(e)].func), asp, depth + 1)
    if isinstance(e, ast.IfExp):
        t, neg = e.test, False
        while isinstance(t, ast.UnaryOp) and isinstance(t.op, ast.Not):
            t, neg = t.operand, not neg
        if isinstance(t, ast.Call) and prog.resolve_in(t.func, func) == 'dawgie.pl.schedule._is_asp':
            return _todo_value(prog, cx, e.body if asp != neg else e.orelse, asp, depth + 1)
    if isinstance(e, (ast.List, ast.Tuple, ast.Set)) and all(isinstance(x, ast.Constant) for x in e.elts):
        vals = [x.value for x in e.elts]
        return 'ALL' if vals == ['__all__'] else f'literal {vals}'
    if isinstance(e, ast.Name):
        if e.id in cx.single:
            return _todo_value(prog, cx, cx.single[e.id], asp, depth + 1)
        if e.id in cx.bind and e.id not in cx.stored:
            a, c2 = cx.bind[e.id]
            return _todo_value(prog, c2, a, asp, depth + 1)
    return f'not understood: {norm(e)[:50]}'


class _TodoFlow(Flow):
    """state: is the current node an analysis (all-targets) node?  '?' / True / False, split by tests of _is_asp"""

    def __init__(self, prog, func, sites):
        super().__init__()
        self.prog = prog
        self.f = func
        self.sites = {id(c): set() for c in sites}

    def on_for(self, node, st):
        return ('?',)

    def on_test(self, e, st):
        if isinstance(e, ast.Call) and self.prog.resolve_in(e.func, self.f) == 'dawgie.pl.schedule._is_asp':
            return (True,), (False,)
        return (st,), (st,)

    def on_call(self, call, st):
        if id(call) in self.sites:
            self.sites[id(call)].add(st)
        return (st,)


def _rule3(ctx, rep):
    prog, cg = ctx.prog, ctx.cg
    cur = prog.func('dawgie.pl.version.current')
    per = prog.func('dawgie.pl.version.persistent')
    dbv = prog.func('dawgie.db.versions')
    build = prog.func('dawgie.pl.schedule.build')
    diff = prog.func('dawgie.pl.schedule._diff')
    org = prog.func('dawgie.pl.schedule.organize')
    isasp = prog.func('dawgie.pl.schedule._is_asp')
    backends = [prog.func(b + '.versions') for b in ('dawgie.db.shelve', 'dawgie.db.post')]
    rep.analysed(cur, per, dbv, build, org, isasp, *backends)
    with rep.rule(
        'R-C15-3',
        'current and persisted version tables that build() compares have the same name format (alg: task.alg, state vector: +sv, '
        'value: +value) in both database backends; the scheduled names are exactly the task.alg prefixes of the differing names; '
        "todo is the all-targets marker for analysis nodes and the known target list otherwise",
        floor=19,
        breaks='names of one table are looked up in a table of another format (everything or nothing differs on every reload), '
        'a changed state vector or value does not reschedule its own algorithm, or an analysis is queued per target',
    ) as r:
        # ---- (a) software side: pl.version.current
        names = _returned_names(cur, 3)
        cur_arity = [None, None, None]
        if names is None:
            r.instance(3)
            r.fail(f'{cur.qname}:return', where(cur), 'current() does not end in one return of its three tables: format not shown')
        else:
            _fl, tabs = _table_shapes(prog, cur, names, r, 'table', lists=False)
            r.extra['current_shapes'] = {n: sorted(' | '.join(s) for s in tabs[n][0] if s) for n in names}
            for i, (word, ar) in enumerate(ARITY):
                r.instance()
                shapes, stores = tabs[names[i]]
                if not stores or None in shapes:
                    continue  # already reported
                key = f'{cur.qname}:{word}-names'
                good = all(len(s) == ar for s in shapes)
                if good:
                    cur_arity[i] = ar
                r.check(
                    good,
                    key,
                    where(cur, stores[0][4]),
                    f'{word} names have {ar} components: {sorted(" | ".join(s) for s in shapes)}',
                    f'{word} names of current() do not have {ar} components: {sorted(" | ".join(s) for s in shapes)}',
                )
                if i:
                    prev_shapes = tabs[names[i - 1]][0]
                    ok = all(s[:-1] in prev_shapes for s in shapes)
                    r.check(
                        ok,
                        f'{cur.qname}:{word}-owner',
                        where(cur, stores[0][4]),
                        f'every {word} name extends the name of its owning {ARITY[i - 1][0]}',
                        f'a {word} name is not its owner\'s name plus one component ({sorted(" | ".join(s) for s in shapes)} vs '
                        f'{sorted(" | ".join(s) for s in prev_shapes if s)}): the task.alg prefix no longer identifies the algorithm to rerun',
                    )
                for s in stores:
                    for v in _version_values(s[2], s[3]):
                        r.check(
                            _value_matches(cur, s[1], v),
                            f'{cur.qname}:{word}-version:{norm(v)[:60]}',
                            where(cur, s[4]),
                            f'{norm(v)} is the version of the object named last in {" | ".join(s[1])}',
                            f'the version stored under {" | ".join(s[1])} is {norm(v)[:60]}, which is not the asstring() of the {word} the name ends with: '
                            f'a bump of that {word} is not detected',
                        )
        # ---- (b) persisted side: db.versions() of each backend
        r.instance()
        chain_ok = _returns_call_to(prog, per, {'dawgie.db.versions'}) and _returns_call_to(prog, dbv, {'dbimpl:versions'})
        r.check(
            chain_ok,
            f'{per.qname}:source',
            where(per),
            'persistent() returns db.versions(), which dispatches to the backend in use',
            'pl.version.persistent() no longer returns the versions() of the database backend in use',
        )
        prev_arity = {}
        for b in backends:
            names4 = _returned_names(b, 4)
            prev_arity[b.qname] = [None] * 4
            if names4 is None:
                r.instance(3)
                r.fail(f'{b.qname}:return', where(b), 'versions() does not end in one return of its four tables: format not shown')
                continue
            _fl, tabs = _table_shapes(prog, b, names4[1:], r, 'table', lists=True)
            for i, (word, ar) in enumerate(ARITY):
                r.instance()
                shapes, stores = tabs[names4[i + 1]]
                if not stores or None in shapes:
                    continue
                good = all(len(s) == ar for s in shapes)
                if good:
                    prev_arity[b.qname][i + 1] = ar
                r.check(
                    good,
                    f'{b.qname}:{word}-names',
                    where(b, stores[0][4]),
                    f'persisted {word} names (result {i + 1}) have {ar} components',
                    f'persisted {word} names (result {i + 1} of versions()) do not have {ar} components: {sorted(" | ".join(s) for s in shapes)}',
                )
        # ---- (c) build(): which table is compared with which
        callers = [e for e in cg.callers(build.qname, kinds={'direct'}) if e.src is not None]
        if not callers:
            raise AnalysisError('schedule.build has no caller in the repository')
        p_latest = p_prev = None
        for e in callers:
            r.instance()
            rep.analysed(e.src)
            key = f'{e.src.qname}:build-arguments'
            binding = _bind_args(e.call, build)
            role = {}
            for p, a in (binding or {}).items():
                a = _cp(a, e.src)
                sym = prog.callee(a, e.src) if isinstance(a, ast.Call) else None
                if sym == cur.qname:
                    role[p] = ('latest', a)
                elif sym in (per.qname, 'dawgie.db.versions'):
                    role[p] = ('previous', a)
            lat = [p for p, v in role.items() if v[0] == 'latest']
            prv = [p for p, v in role.items() if v[0] == 'previous']
            if len(lat) != 1 or len(prv) != 1 or (p_latest, p_prev) not in ((None, None), (lat[0], prv[0])):
                r.fail(key, where(e.src, e.call), 'build() is not called with (…, version.current(…), version.persistent()) in recognisable positions')
                continue
            p_latest, p_prev = lat[0], prv[0]
            cur_call = role[p_latest][1]
            kinds = set()
            for a in cur_call.args[:1]:
                for n in ast.walk(_cp(a, e.src)):
                    if isinstance(n, ast.Attribute):
                        s = prog.resolve_in(n, e.src) or ''
                        if s.startswith('dawgie.Factories.'):
                            kinds.add(s.split('.')[2])
            r.check(
                kinds == {'analysis', 'regress', 'task'},
                key,
                where(e.src, e.call),
                'current() is given the analysis, regress and task factories; persistent() supplies the other side',
                f'current() is given the factories {sorted(kinds)} instead of analysis, regress and task: the versions of the missing '
                'kind are never compared (or events are treated as engines)',
            )
        # build() is analysed together with the same-module helpers it calls (parameters bound to the caller's arguments)
        scope = _scope(prog, build, {diff.qname, org.qname, isasp.qname})
        r.extra['functions_in_scope_of_build'] = sorted({cx.func.qname for cx in scope})
        rep.analysed(*[cx.func for cx in scope])
        dcalls = [(c, cx) for cx in scope for c in calls_to(prog, cx.func, diff.qname)]
        compared = {}
        for c, cx in dcalls:
            r.instance()
            key = f'{cx.func.qname}:{norm(c)}'
            bound = _bind_args(c, diff) or {}  # extra (defaulted) arguments are R-C15-2's business
            dp = diff.params()
            a = _origin(e=bound[dp[0]], cx=cx, root=build) if len(dp) >= 2 and dp[0] in bound else None
            b = _origin(e=bound[dp[1]], cx=cx, root=build) if len(dp) >= 2 and dp[1] in bound else None
            if p_latest is None or a is None or b is None or a[0] != p_latest or b[0] != p_prev:
                r.fail(key, where(cx.func, c), f'{norm(c)} does not compare a table of the current versions (first) with a table of the persisted versions (second)')
                continue
            i, j = a[1], b[1]
            ca = cur_arity[i] if 0 <= i < 3 else None
            bad = []
            for bq, ars in prev_arity.items():
                pa = ars[j] if 0 <= j < 4 else None
                if ca is None or pa is None or ca != pa or j == 0:
                    bad.append(f'{bq}: result {j} has {pa if pa else "unknown / task"} components')
            compared.setdefault(i, []).append(c)
            r.check(
                not bad,
                key,
                where(cx.func, c),
                f'current table {i} ({ARITY[i][0] if 0 <= i < 3 else "?"} names, {ca} components) is compared with persisted table {j} of the same format in both backends',
                f'current table {i} ({ca} name components) is compared with a persisted table of another name format: ' + '; '.join(bad),
            )
        r.instance(1 + max(0, 3 - len(dcalls)))
        r.check(
            sorted(compared) == [0, 1, 2] and all(len(v) == 1 for v in compared.values()),
            f'{build.qname}:all-tables-compared',
            where(build),
            'algorithm, state-vector and value tables are each compared once',
            f'build() compares the current tables {sorted(compared)}; algorithm (0), state-vector (1) and value (2) versions must each be compared',
        )
        # ---- (d) scheduled names
        ocalls = [(c, cx) for cx in scope for c in calls_to(prog, cx.func, org.qname)]
        r.instance(2)  # the source of the scheduled names, and the prefix expression
        comp = None
        if len(ocalls) != 1:
            r.fail(f'{build.qname}:organize', where(build), f'build() calls organize {len(ocalls)} times, expected once with the differing algorithms')
        else:
            oc, ocx = ocalls[0]
            a0 = arg(oc, 0, 'task_names')
            trail = []
            comp, ccx = _resolve(a0, ocx, trail) if a0 is not None else (None, ocx)
            key = f'{build.qname}:scheduled-names'
            if not isinstance(comp, (ast.SetComp, ast.ListComp, ast.GeneratorExp)):
                r.fail(key, where(ocx.func, oc), f'the names given to organize ({norm(oc)[:60]}) are not a comprehension over the differences: what is scheduled is not shown')
                comp = None
            elif len(comp.generators) != 1 or comp.generators[0].ifs or not isinstance(comp.generators[0].target, ast.Name):
                r.fail(key, where(ccx.func, comp), 'the comprehension building the scheduled names filters or nests: what is scheduled is not shown')
            else:
                g = comp.generators[0]
                srcs, unknown, todo = [], [], [(g.iter, ccx)]
                while todo:
                    x, xcx = todo.pop()
                    v, vcx = _resolve(x, xcx, trail)  # through locals, helper parameters and helper results
                    if isinstance(v, ast.BinOp) and isinstance(v.op, ast.Add):
                        todo += [(v.right, vcx), (v.left, vcx)]
                    elif isinstance(v, ast.Call) and call_name(v) == 'chain' and not v.keywords:
                        todo += [(y, vcx) for y in reversed(v.args)]
                    elif any(v is c for c, _cx in dcalls):
                        srcs.append(v)
                    else:
                        unknown.append(norm(x)[:40])
                missing = [norm(c) for c, _cx in dcalls if not any(c is s for s in srcs)]
                r.check(
                    not unknown and not missing and len(srcs) == len(dcalls),
                    f'{build.qname}:scheduled-sources',
                    where(ccx.func, comp),
                    f'the scheduled names are drawn from the {len(dcalls)} differences and nothing else',
                    f'the scheduled names are not drawn from exactly the differences: not a difference {unknown}, difference not used {missing}',
                )
                arities = sorted({cur_arity[i] for i in compared if 0 <= i < 3 and cur_arity[i]}) or [2, 3, 4]
                bad = []
                for n in arities:
                    try:
                        got = _PrefixEval(g.target.id, n).eval(comp.elt)
                    except Unsupported as x:
                        bad.append(f'not understood for a {n}-component name: {x}')
                        continue
                    if got != ('name', ('c0', 'c1')):
                        bad.append(f'a {n}-component name yields components {list(got[1]) if got[0] != "lit" else got[1]}')
                r.check(
                    not bad,
                    f'{build.qname}:{norm(comp.elt)}',
                    where(ccx.func, comp),
                    f'{norm(comp.elt)} is the task.alg prefix for names of {arities} components',
                    f'{norm(comp.elt)} is not the task.alg prefix of a differing name: ' + '; '.join(bad),
                )
            # every local the names (or a difference) travel through is only read on the way to organize
            for nm, ncx in {(n, id(c)): (n, c) for n, c in trail}.values():
                for use, why in _foreign_uses(prog, nm, ncx, oc, {diff.qname}):
                    r.fail(
                        f'{ncx.func.qname}:{nm}:{norm(use)[:60]}',
                        where(ncx.func, use),
                        f'{nm}, which carries the names to schedule, is used in {norm(use)[:60]} ({why}), which may change it before organize sees it',
                    )
        # ---- (e) todo marker
        sites = [
            (c, cx)
            for cx in scope
            for c in sorted(cx.func.calls(), key=lambda n: (n.lineno, n.col_offset))
            if isinstance(c.func, ast.Attribute) and c.func.attr == 'set' and len(c.args) == 2 and isinstance(c.args[0], ast.Constant) and c.args[0].value == 'todo'
        ]
        if not sites:
            r.instance()
            r.fail(f'{build.qname}:todo', where(build), "build() no longer sets the 'todo' of the rescheduled nodes: task and regression nodes are queued with nothing to do")
        flows = {}
        for c, cx in sites:
            r.instance()
            key = f'{cx.func.qname}:{norm(c)[:90]}'
            node_ok = False
            if isinstance(c.func.value, ast.Name) and comp is not None:
                ls = _loop_source(c.func.value.id, cx, c)
                if ls is not None:
                    it = _strip(ls[0].iter)
                    if isinstance(it, ast.Call) and call_name(it) == 'locate' and len(it.args) == 1 and isinstance(_strip(it.args[0]), ast.Name):
                        ls2 = _loop_source(_strip(it.args[0]).id, ls[1], ls[0])
                        if ls2 is not None:
                            node_ok = _resolve(ls2[0].iter, ls2[1], [])[0] is comp
            r.check(
                node_ok,
                key + ':nodes',
                where(cx.func, c),
                'todo is replaced only on the nodes located by a scheduled name',
                'todo is replaced on nodes that are not the ones located by the differing algorithm names',
            )
            if id(cx.func) not in flows:
                fl = flows[id(cx.func)] = _TodoFlow(prog, cx.func, [s for s, sx in sites if sx.func is cx.func])
                fl.run(cx.func.node, '?')
            states = set()
            for s in flows[id(cx.func)].sites[id(c)]:
                states |= {True, False} if s == '?' else {s}
            if not states:
                r.fail(key + ':value', where(cx.func, c), 'this todo assignment is not reachable in the flow of its function')
                continue
            bad = []
            for asp in sorted(states):
                got = _todo_value(prog, cx, c.args[1], asp)
                want = 'ALL' if asp else 'TARGETS'
                if got != want:
                    bad.append(f'{"analysis" if asp else "task/regression"} node gets {got}, expected {want}')
            r.check(
                not bad,
                key + ':value',
                where(cx.func, c),
                "analysis node: ['__all__']; any other node: db.targets()",
                'todo of a rescheduled node is wrong: ' + '; '.join(bad),
            )
        # ---- (f) what "analysis node" means
        r.instance()
        syms = set()
        for n in isasp.own_nodes():
            if isinstance(n, ast.Attribute):
                s = prog.resolve_in(n, isasp) or ''
                if s.startswith('dawgie.Factories.'):
                    syms.add(s.split('.')[2])
        r.check(
            syms == {'analysis'},
            f'{isasp.qname}:factory',
            where(isasp),
            '_is_asp tests the factory against Factories.analysis',
            f'_is_asp refers to the factories {sorted(syms)}, expected analysis only',
            nontrivial=False,
        )


def _rule4(ctx, rep):
    """every node owns its work sets (added after seeded change C15-5: build() created the two initial todo sets once,
    before the loop, and gave the same object to every located node; handing out the first job emptied the todo of
    every other bumped algorithm)"""
    from .. import wsa

    prog = ctx.prog
    with rep.rule(
        'R-C15-4',
        'no aliasing of work sets: every assignment of a todo / doing / do attribute stores a container constructed in that very statement (constructor call or literal), so no two nodes share one set',
        floor=3,
        breaks='two nodes share one todo object: releasing or completing a target of one node silently removes it from the other, whose new version is then never run for that target',
    ) as r:
        for op in wsa.all_ops(prog):
            if op.op != 'assign' or op.kind not in wsa.KINDS:
                continue
            rep.analysed(op.func)
            r.instance()
            v = op.args[0]

            def fresh(e):
                if isinstance(e, (ast.List, ast.Set, ast.Dict, ast.ListComp, ast.SetComp)):
                    return True
                if isinstance(e, ast.IfExp):
                    return fresh(e.body) and fresh(e.orelse)
                if isinstance(e, ast.Call):
                    q = prog.resolve_in(e.func, op.func) or ''
                    name = q.replace('external:', '').rsplit('.', 1)[-1] if q else (call_name(e) or '')
                    return name in ('Unique', 'set', 'list', 'frozenset', 'deque', 'copy', 'deepcopy') or q in prog.classes
                if isinstance(e, ast.Name):
                    # a local constructed once per node: every definition is fresh and sits in the innermost loop
                    # (or, without a loop, the function) that contains the assignment
                    defs = [d for d in op.func.own_nodes() if isinstance(d, ast.Assign) and any(isinstance(t, ast.Name) and t.id == e.id for t in d.targets)]
                    loops = [l for l in op.func.own_nodes() if isinstance(l, (ast.For, ast.While)) and any(x is op.node for b in l.body for x in ast.walk(b))]
                    inner = None
                    for l in loops:
                        if inner is None or any(x is l for b in inner.body for x in ast.walk(b)):
                            inner = l
                    scope = [x for b in (inner.body if inner is not None else op.func.node.body) for x in ast.walk(b)]
                    return bool(defs) and all(fresh(d.value) and any(x is d for x in scope) for d in defs)
                return False

            r.check(
                fresh(v),
                f'{op.func.qname}:{norm(op.node)[:80]}:fresh',
                op.where,
                f'{norm(v)[:60]} is constructed in the assignment',
                f'{op.func.qname}: {norm(op.node)[:100]} stores an object that exists outside this statement ({norm(v)[:60]}): every node that receives it shares one work set',
            )


def _rule5(ctx, rep):
    """the known targets a bumped algorithm is scheduled for (added after seeded change C15-8: db.targets() dropped every
    name that merely starts with "__"; such targets were silently left out when their algorithm's version changed)"""
    prog = ctx.prog
    f = prog.nfunc('dawgie.db.targets')
    rep.analysed(f)
    with rep.rule(
        'R-C15-5',
        'db.targets() keeps a stored target name unless it is a reserved marker - starts AND ends with "__" - or the full list is asked for: the filter is evaluated for all 8 combinations of (starts with __, ends with __, fulllist)',
        floor=1,
        breaks='a version change reschedules its owner for fewer (or more) targets than the database knows',
    ) as r:
        full = f.params()[0] if f.params() else 'fulllist'

        class NU(Exception):
            pass

        def truth(e, var, S, E, F):
            if isinstance(e, ast.BoolOp):
                vals = [truth(v, var, S, E, F) for v in e.values]
                return all(vals) if isinstance(e.op, ast.And) else any(vals)
            if isinstance(e, ast.UnaryOp) and isinstance(e.op, ast.Not):
                return not truth(e.operand, var, S, E, F)
            if isinstance(e, ast.Name) and e.id == full:
                return F
            if isinstance(e, ast.Call) and isinstance(e.func, ast.Attribute) and isinstance(e.func.value, ast.Name) and e.func.value.id == var and e.args and isinstance(e.args[0], ast.Constant) and e.args[0].value == '__':
                if e.func.attr == 'startswith':
                    return S
                if e.func.attr == 'endswith':
                    return E
            if isinstance(e, ast.Compare) and len(e.ops) == 1 and isinstance(e.comparators[0], ast.Constant) and e.comparators[0].value == '__' and isinstance(e.left, ast.Subscript) and isinstance(e.left.value, ast.Name) and e.left.value.id == var and isinstance(e.ops[0], (ast.Eq, ast.NotEq)):
                sl = norm(e.left.slice)
                v = S if sl == ':2' else (E if sl == '-2:' else None)
                if v is not None:
                    return v if isinstance(e.ops[0], ast.Eq) else not v
            raise NU(norm(e))

        def kept(e, S, E, F, depth=0):
            """is a stored name with (S, E) in the value of e, given fulllist = F"""
            if depth > 5:
                raise NU('depth')
            if isinstance(e, ast.Name):
                defs = [d.value for d in f.own_nodes() if isinstance(d, ast.Assign) and any(isinstance(t, ast.Name) and t.id == e.id for t in d.targets)]
                if len(defs) == 1:
                    return kept(defs[0], S, E, F, depth + 1)
                raise NU(e.id)
            if isinstance(e, ast.Call) and isinstance(e.func, ast.Name) and e.func.id in ('list', 'sorted', 'tuple', 'set') and e.args:
                return kept(e.args[0], S, E, F, depth + 1)
            if isinstance(e, ast.Call) and isinstance(e.func, ast.Name) and e.func.id == 'filter' and len(e.args) == 2 and isinstance(e.args[0], ast.Lambda):
                lam = e.args[0]
                return kept(e.args[1], S, E, F, depth + 1) and truth(lam.body, lam.args.args[0].arg, S, E, F)
            if isinstance(e, (ast.ListComp, ast.GeneratorExp, ast.SetComp)) and len(e.generators) == 1 and isinstance(e.generators[0].target, ast.Name) and isinstance(e.elt, ast.Name) and e.elt.id == e.generators[0].target.id:
                g = e.generators[0]
                return kept(g.iter, S, E, F, depth + 1) and all(truth(c, g.target.id, S, E, F) for c in g.ifs)
            if isinstance(e, ast.IfExp):
                return kept(e.body, S, E, F, depth + 1) if truth(e.test, '', S, E, F) else kept(e.orelse, S, E, F, depth + 1)
            if isinstance(e, ast.Call) and isinstance(e.func, ast.Attribute) and e.func.attr == 'targets':
                return True  # the back end's own list
            raise NU(norm(e)[:60])

        rets = [n for n in f.own_nodes() if isinstance(n, ast.Return) and n.value is not None]
        r.instance()
        key = f'{f.qname}:reserved-names-only'
        if len(rets) != 1:
            r.fail(key, where(f), 'db.targets() does not end in a single return of the filtered list')
        else:
            try:
                wrong = []
                for S in (False, True):
                    for E in (False, True):
                        for F in (False, True):
                            got = kept(rets[0].value, S, E, F)
                            want = F or not (S and E)
                            if got != want:
                                wrong.append((S, E, F, got))
                r.check(
                    not wrong,
                    key,
                    where(f, rets[0]),
                    'kept iff fulllist or not (startswith("__") and endswith("__")) for all 8 cases',
                    f'db.targets() is wrong for (starts with __, ends with __, fulllist, kept) = {wrong}: ordinary target names are dropped (or reserved ones kept)',
                )
            except NU as e_:
                r.fail(key, where(f, rets[0]), f'filter of db.targets() not understood: {e_}')


def _rule6(ctx, rep):
    """the six operators are Version's own (added after seeded change C15-9: Version.__ne__ was deleted "because python 3
    derives it from __eq__"; StateVector is class StateVector(Version, dict), so `!=` fell through to dict.__ne__ and
    compared contents: two state vectors were neither equal nor different, and < / > - written with __ne__ - followed)"""
    prog = ctx.prog
    with rep.rule(
        'R-C15-6',
        'dawgie.Version defines all six rich comparisons itself, and no class that derives from it together with another base lists that base first or re-defines one of them: the operators of a versioned object are always the version order',
        floor=2,
        breaks='for a versioned class with a second base (StateVector is also a dict) a missing operator is taken from that base: the order is no longer total and the operators disagree',
    ) as r:
        V_ = 'dawgie.Version'
        OPS = ('__eq__', '__ne__', '__lt__', '__le__', '__gt__', '__ge__')
        vc = prog.cls(V_)
        r.instance()
        missing = [o for o in OPS if o not in vc.methods]
        r.check(not missing, f'{V_}:defines-all-operators', f'{vc.module.relpath}:{vc.node.lineno}', 'six operators defined on Version', f'{V_} no longer defines {missing}: subclasses with a second base (dict) take them from that base')
        for q, c in sorted(prog.classes.items()):
            if V_ not in c.bases or len(c.bases) < 2:
                continue
            r.instance()
            probs = []
            if c.bases[0] != V_:
                probs.append(f'bases {c.bases}: Version is not first in the MRO')
            over = [o for o in OPS if o in c.methods]
            if over:
                probs.append(f're-defines {over}')
            r.check(not probs, f'{q}:version-operators-win', f'{c.module.relpath}:{c.node.lineno}', 'Version first, no operator re-defined', f'{q}: ' + '; '.join(probs))


def check(ctx):
    rep = Report(
        PID,
        ctx.tier,
        ctx.prog,
        'Decides from the source of dawgie/__init__.py, pl/version.py, pl/schedule.py, pl/state.py and both db backends: '
        '(1) abstract evaluation of the six comparison methods and newer() of dawgie.Version over all 27 sign triples against '
        'the lexicographic order, injectivity of asstring(); (2) truth table of the difference predicate of schedule._diff '
        'including evaluation errors; (3) name formats of the current and persisted version tables, the pairing done by build(), '
        'that exactly the task.alg prefixes of the differing names are organised, and the todo marker per node kind. '
        'Not decided: the concrete persisted version lists (what a backend actually stored), non-negativity of components.',
        assumptions=[
            'components of a version are integers compared with the built-in operators',
            'the only data attribute of a dawgie.Version is its VERSION tuple (class docstring); _get_ver is not overridden outside the repository',
            "name components do not contain '.'",
        ],
    )
    rep.not_decided = [
        'concrete persisted version lists (contents of the database)',
        'that db.targets() is the complete list of known targets',
        'what organize/next_job_batch do with the queued nodes (C01-C04)',
    ]
    _rule1(ctx, rep)
    _rule2(ctx, rep)
    _rule3(ctx, rep)
    _rule4(ctx, rep)
    _rule5(ctx, rep)
    _rule6(ctx, rep)
    return rep


_I = '__init__.py'
_S = 'pl/schedule.py'
_PV = 'pl/version.py'

VARIANTS = [
    V('Version.__ne__ renamed away', 'B', '__init__.py', 'Version.__ne__', 'def __ne__(self, other):', 'def _differs(self, other):', 'R-C15-6'),
    V('targets drops every name starting with a dunder', 'B', 'db/__init__.py', 'targets', "not (s.startswith('__') and s.endswith('__'))", "not s.startswith('__')", 'R-C15-5'),
    V('targets as a comprehension', 'N', 'db/__init__.py', 'targets', "list(\n        filter(\n            lambda s: fulllist or not (s.startswith('__') and s.endswith('__')),\n            _db_in_use().targets(),\n        )\n    )", "[s for s in _db_in_use().targets() if fulllist or not s.startswith('__') or not s.endswith('__')]", None),
    V('build shares one initial todo set between nodes', 'B', 'pl/schedule.py', 'build', "dawgie.util.fifo.Unique(\n                        ['__all__'] if _is_asp(n) else trglist\n                    ),", 'trglist,', 'R-C15-4'),
    V('build constructs the set in either arm', 'N', 'pl/schedule.py', 'build', "dawgie.util.fifo.Unique(\n                        ['__all__'] if _is_asp(n) else trglist\n                    ),", "dawgie.util.fifo.Unique(['__all__']) if _is_asp(n) else dawgie.util.fifo.Unique(trglist),", None),
    # ---- R-C15-1
    V('__gt__ as __ge__ and __eq__', 'B', _I, 'Version.__gt__', 'self.__ge__(other) and self.__ne__(other)', 'self.__ge__(other) and self.__eq__(other)', 'R-C15-1'),
    V('__le__ compares bug fix with <', 'B', _I, 'Version.__le__', 'return self.bugfix() <= other.bugfix()', 'return self.bugfix() < other.bugfix()', 'R-C15-1'),
    V('newer ignores impl', 'B', _I, 'Version.newer', 'and than.impl == self.implementation()', '', 'R-C15-1'),
    V('__eq__ with any', 'B', _I, 'Version.__eq__', 'return all(', 'return any(', 'R-C15-1'),
    V('implementation() reads design', 'B', _I, 'Version.implementation', 'return self._get_ver().impl', 'return self._get_ver().design', 'R-C15-1'),
    V('asstring drops bug fix', 'B', _I, 'Version.asstring', '[str(self.design()), str(self.implementation()), str(self.bugfix())]', '[str(self.design()), str(self.implementation())]', 'R-C15-1'),
    V('subclass overrides __lt__', 'B', 'db/post/__init__.py', 'MyVersion', 'pass', 'def __lt__(self, other):\n        return False', 'R-C15-1'),
    V('__lt__ written out lexicographically', 'N', _I, 'Version.__lt__', 'return self.__le__(other) and self.__ne__(other)',
      'if self.design() != other.design():\n            return self.design() < other.design()\n        if self.implementation() != other.implementation():\n            return self.implementation() < other.implementation()\n        return self.bugfix() < other.bugfix()', None),
    V('__gt__ compares the attribute behind the hook', 'B', _I, 'Version.__gt__', 'return self.__ge__(other) and self.__ne__(other)', 'return self._version_ > other._version_', 'R-C15-1'),
    V('design() bypasses _get_ver', 'B', _I, 'Version.design', 'return self._get_ver().design', 'return self._version_.design', 'R-C15-1'),
    V('__gt__ as tuple comparison of the accessors', 'N', _I, 'Version.__gt__', 'return self.__ge__(other) and self.__ne__(other)', 'return (self.design(), self.implementation(), self.bugfix()) > (other.design(), other.implementation(), other.bugfix())', None),
    V('newer as tuple comparison', 'N', _I, 'Version.newer', 'return (\n            than.design < self.design()', 'mine = (self.design(), self.implementation(), self.bugfix())\n        if True:\n            return mine > (than.design, than.impl, than.bugfix)\n        return (\n            than.design < self.design()', None),
    # ---- R-C15-2
    V('_diff with != 0', 'B', _S, '_diff', 'prev[k].count(curr[k]) == 0', 'prev[k].count(curr[k]) != 0', 'R-C15-2'),
    V('_diff requires a single occurrence', 'B', _S, '_diff', 'prev[k].count(curr[k]) == 0', 'prev[k].count(curr[k]) != 1', 'R-C15-2'),
    V('_diff stops at the first difference', 'B', _S, '_diff', 'diff.append(k)', 'diff.append(k)\n            break', 'R-C15-2'),
    V('_diff skips names by an undelimited prefix', 'B', _S, '_diff', 'def _diff(curr, prev):\n    diff = []\n    for k in curr:', "def _diff(curr, prev, known=('x',)):\n    diff = []\n    for k in curr:\n        if k.startswith(known):\n            continue", 'R-C15-2'),
    V('_diff gets a defaulted parameter nobody sets', 'N', _S, '_diff', 'def _diff(curr, prev):\n    diff = []\n    for k in curr:', "def _diff(curr, prev, known=(), verbose=False):\n    diff = []\n    for k in curr:\n        if verbose:\n            log.debug('checking %s', k)\n        if k.startswith(known):\n            continue", None),
    V('_diff guard in a helper', 'N', _S, '_diff', 'def _diff(curr, prev):\n    diff = []\n    for k in curr:\n        if k not in prev or prev[k].count(curr[k]) == 0:', 'def _persisted(name, ver, table):\n    return name in table and ver in table[name]\n\n\ndef _diff(curr, prev):\n    diff = []\n    for k in curr:\n        if not _persisted(k, curr[k], prev):', None),
    V('_diff as not in prev.get', 'N', _S, '_diff', 'if k not in prev or prev[k].count(curr[k]) == 0:', 'if curr[k] not in prev.get(k, []):', None),
    V('_diff with continue and logging', 'N', _S, '_diff', 'if k not in prev or prev[k].count(curr[k]) == 0:\n            diff.append(k)',
      'known = prev.get(k)\n        if known is not None and curr[k] in known:\n            continue\n        log.debug("version of %s changed", k)\n        diff.append(k)', None),
    V('_diff as comprehension', 'N', _S, '_diff', 'diff = []\n    for k in curr:\n        if k not in prev or prev[k].count(curr[k]) == 0:\n            diff.append(k)\n        pass\n    return diff',
      'return [k for k, v in curr.items() if not (k in prev and v in prev[k])]', None),
    V('_diff as comprehension over a helper with an early return', 'N', _S, '_diff', 'def _diff(curr, prev):\n    diff = []\n    for k in curr:\n        if k not in prev or prev[k].count(curr[k]) == 0:\n            diff.append(k)\n        pass\n    return diff',
      'def _is_persisted(name, version, prev):\n    """is it"""\n    if name not in prev:\n        return False\n    return version in prev[name]\n\n\ndef _diff(curr, prev):\n    return [name for name, version in curr.items() if not _is_persisted(name, version, prev)]', None),
    V('_diff helper with an early return treats a new name as persisted', 'B', _S, '_diff', 'def _diff(curr, prev):\n    diff = []\n    for k in curr:\n        if k not in prev or prev[k].count(curr[k]) == 0:\n            diff.append(k)\n        pass\n    return diff',
      'def _is_persisted(name, version, prev):\n    if name not in prev:\n        return True\n    return prev[name].count(version) > 0\n\n\ndef _diff(curr, prev):\n    return [name for name, version in curr.items() if not _is_persisted(name, version, prev)]', 'R-C15-2'),
    # ---- R-C15-3
    V('previous[2] paired with latest[0]', 'B', _S, 'build', 'dalg = _diff(latest[0], previous[1])', 'dalg = _diff(latest[0], previous[2])', 'R-C15-3'),
    V('value versions never compared', 'B', _S, 'build', 'dv = _diff(latest[2], previous[3])', 'dv = _diff(latest[1], previous[2])', 'R-C15-3'),
    V('scheduled name cut to one component', 'B', _S, 'build', "item.split('.')[:2]", "item.split('.')[:1]", 'R-C15-3'),
    V('value differences not scheduled', 'B', _S, 'build', 'for item in dalg + dsv + dv}', 'for item in dalg + dsv}', 'R-C15-3'),
    V('every task organised', 'B', _S, 'build', 'organize(ans, event=', 'organize(tasks(), event=', 'R-C15-3'),
    V('scheduled set extended before organize', 'B', _S, 'build', 'rev = dawgie.context.git_rev', 'rev = dawgie.context.git_rev\n    ans.update(tasks())', 'R-C15-3'),
    V('analysis scheduled for the target list', 'B', _S, 'build', "['__all__'] if _is_asp(n) else trglist", 'trglist', 'R-C15-3'),
    V('_is_asp tests the task factory', 'B', _S, '_is_asp', 'dawgie.Factories.analysis.name', 'dawgie.Factories.task.name', 'R-C15-3'),
    V('value stored with the state-vector version', 'B', _PV, 'current', 'tv[name] = sv[k].asstring()', 'tv[name] = sv.asstring()', 'R-C15-3'),
    V('shelve versions returns tables swapped', 'B', 'db/shelve/__init__.py', 'versions', 'return tasks_vers, algs_vers, svs_vers, vals_vers', 'return tasks_vers, svs_vers, algs_vers, vals_vers', 'R-C15-3'),
    V('post algorithm key is the bare name', 'B', 'db/post/__init__.py', 'versions', "'.'.join([_find(tsk, pk=a['task_id'])['name'], a['name']]),", "a['name'],", 'R-C15-3'),
    V('analysis factories not versioned', 'B', 'pl/state.py', 'FSM._pipeline', 'facs[dawgie.Factories.analysis]\n                    + facs[dawgie.Factories.regress]', 'facs[dawgie.Factories.regress]', 'R-C15-3'),
    V('differences and name set extracted into a helper', 'N', _S, 'build', "def build(factories, latest, previous):\n    log.info('build() - starting to build DAG')\n    dawgie.pl.schedule.ae = dawgie.pl.dag.Construct(factories)\n    promote.ae = dawgie.pl.schedule.ae\n    promote.organize = dawgie.pl.schedule.organize\n    dawgie.pl.schedule.que = []\n    dawgie.pl.schedule.per = []\n    log.info('build() - computing version differences')\n    dalg = _diff(latest[0], previous[1])\n    dsv = _diff(latest[1], previous[2])\n    dv = _diff(latest[2], previous[3])\n    ans = {'.'.join(item.split('.')[:2]) for item in dalg + dsv + dv}", "def _outdated(cur, old):\n    dalg = _diff(cur[0], old[1])\n    dsv = _diff(cur[1], old[2])\n    dv = _diff(cur[2], old[3])\n    return {'.'.join(item.split('.')[:2]) for item in dalg + dsv + dv}\n\n\ndef build(factories, latest, previous):\n    log.info('build() - starting to build DAG')\n    dawgie.pl.schedule.ae = dawgie.pl.dag.Construct(factories)\n    promote.ae = dawgie.pl.schedule.ae\n    promote.organize = dawgie.pl.schedule.organize\n    dawgie.pl.schedule.que = []\n    dawgie.pl.schedule.per = []\n    log.info('build() - computing version differences')\n    ans = _outdated(latest, previous)", None),
    V('extracted helper pairs the wrong persisted table', 'B', _S, 'build', "def build(factories, latest, previous):\n    log.info('build() - starting to build DAG')\n    dawgie.pl.schedule.ae = dawgie.pl.dag.Construct(factories)\n    promote.ae = dawgie.pl.schedule.ae\n    promote.organize = dawgie.pl.schedule.organize\n    dawgie.pl.schedule.que = []\n    dawgie.pl.schedule.per = []\n    log.info('build() - computing version differences')\n    dalg = _diff(latest[0], previous[1])\n    dsv = _diff(latest[1], previous[2])\n    dv = _diff(latest[2], previous[3])\n    ans = {'.'.join(item.split('.')[:2]) for item in dalg + dsv + dv}", "def _outdated(cur, old):\n    dalg = _diff(cur[0], old[1])\n    dsv = _diff(cur[1], old[3])\n    dv = _diff(cur[2], old[3])\n    return {'.'.join(item.split('.')[:2]) for item in dalg + dsv + dv}\n\n\ndef build(factories, latest, previous):\n    log.info('build() - starting to build DAG')\n    dawgie.pl.schedule.ae = dawgie.pl.dag.Construct(factories)\n    promote.ae = dawgie.pl.schedule.ae\n    promote.organize = dawgie.pl.schedule.organize\n    dawgie.pl.schedule.que = []\n    dawgie.pl.schedule.per = []\n    log.info('build() - computing version differences')\n    ans = _outdated(latest, previous)", 'R-C15-3'),
    V('extracted helper keeps three name components', 'B', _S, 'build', "def build(factories, latest, previous):\n    log.info('build() - starting to build DAG')\n    dawgie.pl.schedule.ae = dawgie.pl.dag.Construct(factories)\n    promote.ae = dawgie.pl.schedule.ae\n    promote.organize = dawgie.pl.schedule.organize\n    dawgie.pl.schedule.que = []\n    dawgie.pl.schedule.per = []\n    log.info('build() - computing version differences')\n    dalg = _diff(latest[0], previous[1])\n    dsv = _diff(latest[1], previous[2])\n    dv = _diff(latest[2], previous[3])\n    ans = {'.'.join(item.split('.')[:2]) for item in dalg + dsv + dv}", "def _outdated(cur, old):\n    dalg = _diff(cur[0], old[1])\n    dsv = _diff(cur[1], old[2])\n    dv = _diff(cur[2], old[3])\n    return {'.'.join(item.split('.')[:3]) for item in dalg + dsv + dv}\n\n\ndef build(factories, latest, previous):\n    log.info('build() - starting to build DAG')\n    dawgie.pl.schedule.ae = dawgie.pl.dag.Construct(factories)\n    promote.ae = dawgie.pl.schedule.ae\n    promote.organize = dawgie.pl.schedule.organize\n    dawgie.pl.schedule.que = []\n    dawgie.pl.schedule.per = []\n    log.info('build() - computing version differences')\n    ans = _outdated(latest, previous)", 'R-C15-3'),
    V('extracted helper called with the tables swapped', 'B', _S, 'build', "def build(factories, latest, previous):\n    log.info('build() - starting to build DAG')\n    dawgie.pl.schedule.ae = dawgie.pl.dag.Construct(factories)\n    promote.ae = dawgie.pl.schedule.ae\n    promote.organize = dawgie.pl.schedule.organize\n    dawgie.pl.schedule.que = []\n    dawgie.pl.schedule.per = []\n    log.info('build() - computing version differences')\n    dalg = _diff(latest[0], previous[1])\n    dsv = _diff(latest[1], previous[2])\n    dv = _diff(latest[2], previous[3])\n    ans = {'.'.join(item.split('.')[:2]) for item in dalg + dsv + dv}", "def _outdated(cur, old):\n    dalg = _diff(cur[0], old[1])\n    dsv = _diff(cur[1], old[2])\n    dv = _diff(cur[2], old[3])\n    return {'.'.join(item.split('.')[:2]) for item in dalg + dsv + dv}\n\n\ndef build(factories, latest, previous):\n    log.info('build() - starting to build DAG')\n    dawgie.pl.schedule.ae = dawgie.pl.dag.Construct(factories)\n    promote.ae = dawgie.pl.schedule.ae\n    promote.organize = dawgie.pl.schedule.organize\n    dawgie.pl.schedule.que = []\n    dawgie.pl.schedule.per = []\n    log.info('build() - computing version differences')\n    ans = _outdated(previous, latest)", 'R-C15-3'),
    V('todo through a temporary and a marker helper', 'N', _S, 'build', "n.set(\n                    'todo',\n                    dawgie.util.fifo.Unique(\n                        ['__all__'] if _is_asp(n) else trglist\n                    ),\n                )", "targets = ['__all__'] if _is_asp(n) else trglist\n                fresh = dawgie.util.fifo.Unique(targets)\n                n.set('todo', fresh)", None),
    V('tables unpacked first', 'N', _S, 'build', 'dalg = _diff(latest[0], previous[1])\n    dsv = _diff(latest[1], previous[2])\n    dv = _diff(latest[2], previous[3])',
      'calg, csv, cv = latest\n    palg = previous[1]\n    dalg = _diff(calg, palg)\n    dsv = _diff(csv, previous[2])\n    dv = _diff(cv, previous[3])', None),
    V('scheduled names through set(generator) with explicit slice', 'N', _S, 'build', "ans = {'.'.join(item.split('.')[:2]) for item in dalg + dsv + dv}", "ans = set('.'.join(item.split('.')[0:2]) for item in dv + dalg + dsv)", None),
    V('marker chosen by an if statement', 'N', _S, 'build',
      "n.set(\n                    'todo',\n                    dawgie.util.fifo.Unique(\n                        ['__all__'] if _is_asp(n) else trglist\n                    ),\n                )",
      "if not _is_asp(n):\n                    n.set('todo', dawgie.util.fifo.Unique(trglist))\n                else:\n                    n.set('todo', dawgie.util.fifo.Unique(['__all__']))", None),
    V('organize given a sorted list and logging', 'N', _S, 'build', 'organize(ans, event=', "log.info('build() - %d algorithms changed', len(ans))\n    organize(sorted(ans), event=", None),
    V('current names as f-strings with hoisted parts', 'N', _PV, 'current', "name = '.'.join([bot._name(), alg.name(), sv.name()])", "svn = sv.name()\n                name = f'{bot._name()}.{alg.name()}.{svn}'", None),
    V('current values through items()', 'N', _PV, 'current', "for k in sv.keys():\n                    name = '.'.join([bot._name(), alg.name(), sv.name(), k])  # fmt: skip # pylint: disable=protected-access\n                    if name not in tv:\n                        tv[name] = sv[k].asstring()",
      "for k, val in sv.items():\n                    name = '.'.join([bot._name(), alg.name(), sv.name(), k])\n                    if name not in tv:\n                        tv[name] = val.asstring()", None),
]
