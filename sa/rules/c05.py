"""C05  A failed run is contained to its own target and its dependents.

Rules (DESIGN section 4, C05):
  R-C05-1  outcome routing   worker reply flag -> Hand._translate -> success branch / non-success branch of Hand._res
  R-C05-2  purge sweep       schedule.purge withdraws the target and reaches every child on every path, and its
                             traversal skips the self edge that the tree builder can create (as Node.iter/locate do)
  R-C05-3  frame condition   effect analysis of everything reachable from a non-success reply
  R-C05-4  outcome recorded  schedule.complete always reaches chronicle.append with the translated state
"""

import ast

from .. import AnalysisError
from ..flow import Flow
from ..report import Report
from ..util import where, norm, call_name, get_key, names_in, assigned_value, is_const
from ..variants import V

PID = 'C05'

SCHED = 'dawgie.pl.schedule'
STATE = 'dawgie.pl.jobinfo.State'
MAKE = 'dawgie.pl.message.make'
SEND = 'dawgie.pl.message.send'
RESP = 'dawgie.pl.message.Type.response'
RUN = 'dawgie.pl.worker.Context.run'
CHRON = 'dawgie.pl.logger.chronicle.append'
NVI = 'dawgie.NoValidInputDataError'
NVO = 'dawgie.NoValidOutputDataError'
WS_KINDS = ('todo', 'doing', 'do')
S, F, I = 'success', 'failure', 'invalid'

# method names that change their receiver (WSA mutators of B.5 plus the generic container ones)
MUTATORS = {
    'add', 'update', 'remove', 'discard', 'pop', 'popitem', 'popleft', 'clear', 'append', 'appendleft', 'extend',
    'insert', 'sort', 'reverse', 'setdefault', 'difference_update', 'intersection_update',
    'symmetric_difference_update', '__setitem__', '__delitem__',
}
# calls that build a fresh container (a local bound to one of these is private to the function)
_FRESH_CALLS = {'list', 'dict', 'set', 'sorted', 'tuple', 'deque', 'copy', 'frozenset'}


# ---------------------------------------------------------------------------
# small shared helpers


def _qcallee(prog, call, func):
    """qualified name of the repo function a call resolves to, else the raw symbol (or None)"""
    sym = prog.callee(call, func)
    f = prog.func_of(sym) if sym else None
    return f.qname if f is not None else sym


def _state_member(prog, expr, func):
    """'success' for an expression that resolves to jobinfo.State.success, else None"""
    sym = prog.resolve_in(expr, func) if isinstance(expr, (ast.Name, ast.Attribute)) else None
    if sym and sym.startswith(STATE + '.'):
        return sym[len(STATE) + 1 :]
    return None


def _single_assign(func, name):
    """the one value a local is bound to, when it is bound exactly once by a plain assignment (no loop/with/aug
    binding, not a parameter) - the only situation in which copy propagation is exact"""
    if name in func.params():
        return None
    stores = 0
    for n in func.own_nodes():
        if isinstance(n, ast.Name) and n.id == name and isinstance(n.ctx, (ast.Store, ast.Del)):
            stores += 1
    vals = assigned_value(func, name)
    if stores == 1 and len(vals) == 1:
        return vals[0]
    return None


class _Subst(ast.NodeTransformer):
    def __init__(self, func, depth=3):
        self.func, self.depth = func, depth

    def visit_Name(self, node):
        if isinstance(node.ctx, ast.Load) and self.depth > 0:
            v = _single_assign(self.func, node.id)
            if v is not None and not isinstance(v, (ast.Call, ast.Lambda)):
                return _Subst(self.func, self.depth - 1).visit(_copy(v))
        return node

    def visit_IfExp(self, node):
        self.generic_visit(node)
        # X if X else Y  ==  X or Y
        if ast.dump(node.test) == ast.dump(node.body):
            return ast.BoolOp(op=ast.Or(), values=[node.body, node.orelse])
        return node


def _copy(node):
    return ast.parse(ast.unparse(node), mode='eval').body


def canon_expr(func, expr):
    """normalised text of an expression after copy propagation of single-assignment locals (call results are kept
    as the variable: two reads of the same variable are the same value, two calls are not)"""
    return norm(ast.fix_missing_locations(_Subst(func).visit(_copy(expr))))


class Frame:
    """one activation in a followed call chain: the function, its parameters bound to the caller's argument expressions"""

    def __init__(self, func, bind=None, parent=None, call=None):
        self.func, self.bind, self.parent, self.call = func, bind or {}, parent, call
        self.depth = 0 if parent is None else parent.depth + 1
        self._stores = {n.id for n in func.own_nodes() if isinstance(n, ast.Name) and isinstance(n.ctx, (ast.Store, ast.Del))}

    def lift(self, expr, budget=4):
        """the expression in terms of the top frame: single-assignment locals are copy-propagated (call results stay a
        variable), parameters are replaced by the caller's arguments; locals of a helper are tagged name@helper"""
        fr = self

        class T(ast.NodeTransformer):
            def visit_Name(self, node):
                if not isinstance(node.ctx, ast.Load):
                    return node
                if fr.parent is not None and node.id in fr.bind and node.id not in fr._stores:
                    return fr.parent.lift(fr.bind[node.id], budget)
                v = _single_assign(fr.func, node.id)
                if v is not None and not isinstance(v, (ast.Call, ast.Lambda)) and budget > 0:
                    return fr.lift(v, budget - 1)
                if fr.parent is not None and (node.id in fr._stores or node.id in fr.func.params()):
                    return ast.Name(id=f'{node.id}@{fr.func.name}', ctx=ast.Load())
                return node

            def visit_Lambda(self, node):
                return node

            def visit_IfExp(self, node):
                self.generic_visit(node)
                if ast.dump(node.test) == ast.dump(node.body):  # X if X else Y == X or Y
                    return ast.BoolOp(op=ast.Or(), values=[node.body, node.orelse])
                return node

        return ast.fix_missing_locations(T().visit(_copy(expr)))

    def text(self, expr):
        return norm(self.lift(expr))

    def origin(self, expr):
        """(frame, name) of the variable a plain name denotes after following parameter bindings upwards, else None"""
        fr = self
        while isinstance(expr, ast.Name):
            if fr.parent is not None and expr.id in fr.bind and expr.id not in fr._stores:
                fr, expr = fr.parent, fr.bind[expr.id]
                continue
            v = _single_assign(fr.func, expr.id)
            if v is not None and isinstance(v, ast.Name):
                expr = v
                continue
            return fr, expr.id
        return None


def region_frames(prog, top, follow, depth=2):
    """frames of a region: the top function plus every helper reached by calls for which follow(h) holds (<= depth levels)"""
    out = [Frame(top)]
    i = 0
    while i < len(out):
        fr = out[i]
        i += 1
        if fr.depth >= depth:
            continue
        for call in sorted(fr.func.calls(), key=lambda c: (c.lineno, c.col_offset)):
            h = prog.funcs.get(_qcallee(prog, call, fr.func) or '')
            chain, f = [], fr
            while f is not None:
                chain.append(f.func)
                f = f.parent
            if h is None or h in chain or not follow(h):
                continue
            bind = {}
            for prm in h.params():
                a = _call_arg(h, call, prm)
                if a is not None:
                    bind[prm] = a
            out.append(Frame(h, bind, fr, call))
    return out


class _IFlow(Flow):
    """Flow that descends into followed helpers (helper extraction, one or two levels): the helper body is interpreted in
    place with its own Frame, its exits continue in the caller, its exceptions reach the caller's enclosing try"""

    def __init__(self, prog, top, follow, depth=2):
        super().__init__()
        self.prog, self.follow, self.maxdepth = prog, follow, depth
        self.frames = [Frame(top)]
        self.followed = {}  # qname -> Func
        self.followed_calls = set()

    @property
    def fr(self):
        return self.frames[-1]

    def descend(self, call, st):
        """states after the call when it is a followed helper, else None"""
        fr = self.fr
        h = self.prog.funcs.get(_qcallee(self.prog, call, fr.func) or '')
        if h is None or fr.depth >= self.maxdepth or any(f.func is h for f in self.frames) or not self.follow(h):
            return None
        bind = {}
        for prm in h.params():
            a = _call_arg(h, call, prm)
            if a is not None:
                bind[prm] = a
        self.followed[h.qname] = h
        self.followed_calls.add(id(call))
        self.frames.append(Frame(h, bind, fr, call))
        try:
            out = self.block(h.node.body, {st})
        finally:
            self.frames.pop()
        if out.exc and self._try:
            self._try[-1] |= out.exc
        return out.normal | out.ret


def ws_of(func, expr, kb=None):
    """(receiver expr, kind) when expr denotes a work set ``X.get('todo'|'doing'|'do'[, default])``, directly or
    through a single-assignment local; kb binds loop variables ranging over literal key tuples"""
    if isinstance(expr, ast.Name):
        v = _single_assign(func, expr.id)
        return ws_of(func, v, kb) if v is not None else None
    g = get_key(expr)
    if g is not None:
        return (g[0], g[1]) if g[1] in WS_KINDS else None
    if (
        isinstance(expr, ast.Call)
        and isinstance(expr.func, ast.Attribute)
        and expr.func.attr == 'get'
        and expr.args
        and isinstance(expr.args[0], ast.Name)
        and kb
        and expr.args[0].id in kb
    ):
        k = kb[expr.args[0].id]
        return (expr.func.value, k) if k in WS_KINDS else None
    return None


def _is_logging(prog, func, call):
    """log.debug(...) / logging.getLogger(..).info(...): accepted idiom - logging has no effect on scheduler state"""
    f = call.func
    if not isinstance(f, ast.Attribute):
        return False
    base = f.value
    if isinstance(base, ast.Call):
        return (prog.resolve_in(base.func, func) or '').startswith('external:logging')
    sym = prog.resolve_in(base, func) or ''
    if sym.startswith('external:logging'):
        return True
    mod, _, name = sym.rpartition('.')
    if mod in prog.modules:
        for v in prog.modules[mod].globals.get(name, []):
            if isinstance(v, ast.Call) and (prog.resolve_expr(v.func, prog.modules[mod]) or '').startswith('external:logging'):
                return True
    return False


def classify_receiver(prog, func, recv, kb=None):
    """what a mutated receiver expression denotes -> (kind, detail)
    kinds: ws / que / hist / glob / local / unknown"""
    w = ws_of(func, recv, kb)
    if w is not None:
        return 'ws', w
    if isinstance(recv, ast.IfExp):
        # (a if c else b).<method>(...): the receiver is one of the two
        a = classify_receiver(prog, func, recv.body, kb)
        b = classify_receiver(prog, func, recv.orelse, kb)
        return a if a[0] == b[0] else ('unknown', norm(recv))
    if isinstance(recv, ast.Name):
        v = _single_assign(func, recv.id)
        if v is not None:
            if isinstance(v, ast.IfExp):
                a = classify_receiver(prog, func, v.body, kb)
                b = classify_receiver(prog, func, v.orelse, kb)
                return a if a[0] == b[0] else ('unknown', norm(recv))
            if isinstance(v, (ast.List, ast.Dict, ast.Set, ast.ListComp, ast.DictComp, ast.SetComp)):
                return 'local', recv.id
            if isinstance(v, ast.Call) and call_name(v) in _FRESH_CALLS:
                return 'local', recv.id
            if isinstance(v, (ast.Name, ast.Attribute)):
                return classify_receiver(prog, func, v, kb)
            return 'unknown', norm(recv)
    sym = prog.resolve_in(recv, func) if isinstance(recv, (ast.Name, ast.Attribute)) else None
    if sym is None:
        return 'unknown', norm(recv)
    if sym == SCHED + '.que':
        return 'que', sym
    if sym in (SCHED + '.err', SCHED + '.suc'):
        return 'hist', sym
    if sym.startswith('dawgie.') and '.<locals>' not in sym:
        return 'glob', sym
    if sym.startswith('local:'):
        return 'param', sym[6:]
    return 'unknown', norm(recv)


def mutations(prog, func):
    """every state-changing construct of a function body (not nested defs) -> list of dicts
    kind: ws(op,recv,wkind,args) / wsset / attrset / que / hist / glob / local / param / unknown"""
    out = []
    for n in func.own_nodes():
        if isinstance(n, ast.Call) and isinstance(n.func, ast.Attribute):
            m = n.func.attr
            if _qcallee(prog, n, func) in prog.funcs:
                continue  # a repository function that happens to be called append/update/...: a callee, not a container method
            if m == 'set' and len(n.args) == 2 and not n.keywords:
                k = n.args[0]
                if isinstance(k, ast.Constant) and isinstance(k.value, str):
                    kind = 'wsset' if k.value in WS_KINDS else 'attrset'
                    out.append(dict(kind=kind, op='set', recv=n.func.value, key=k.value, args=n.args, node=n))
                else:
                    out.append(dict(kind='unknown', op='set', recv=n.func.value, args=n.args, node=n))
            elif m in MUTATORS:
                kind, det = classify_receiver(prog, func, n.func.value)
                d = dict(kind=kind, op=m, recv=n.func.value, args=n.args, node=n, detail=det)
                if kind == 'ws':
                    d['recv'], d['wkind'] = det
                out.append(d)
        elif isinstance(n, (ast.Assign, ast.AugAssign, ast.AnnAssign, ast.Delete)):
            if isinstance(n, (ast.Assign, ast.Delete)):
                tg = n.targets
            else:
                tg = [n.target]
            flat = []
            for t in tg:
                flat.extend(t.elts if isinstance(t, (ast.Tuple, ast.List)) else [t])
            for t in flat:
                if isinstance(t, ast.Name):
                    sym = prog.resolve_in(t, func) or ''
                    if sym.startswith('dawgie.'):  # declared global
                        kind = 'que' if sym == SCHED + '.que' else 'glob'
                        out.append(dict(kind=kind, op='rebind', recv=t, args=[], node=n, detail=sym))
                elif isinstance(t, ast.Attribute):
                    sym = prog.resolve_in(t, func) or ''
                    if sym.startswith('dawgie.') and '.<locals>' not in sym:
                        kind = 'que' if sym == SCHED + '.que' else 'glob'
                        out.append(dict(kind=kind, op='rebind', recv=t, args=[], node=n, detail=sym))
                    else:
                        out.append(dict(kind='unknown', op='attr-store', recv=t, args=[], node=n, detail=norm(t)))
                elif isinstance(t, ast.Subscript):
                    kind, det = classify_receiver(prog, func, t.value)
                    d = dict(kind=kind, op='item-store', recv=t.value, args=[], node=n, detail=det)
                    if kind == 'ws':
                        d['recv'], d['wkind'] = det
                    out.append(d)
    out.sort(key=lambda d: (d['node'].lineno, d['node'].col_offset))
    return out


def sched_writers(ctx, q):
    """[(function, mutation)] of scheduler work state (work sets, queue, schedule globals) reachable from q"""
    prog, cg = ctx.prog, ctx.cg
    cache = ctx.__dict__.setdefault('_c05_sw', {})
    if q in cache:
        return cache[q]
    hits = []
    for fq in sorted(cg.reachable([q])):
        fn = prog.funcs.get(fq)
        if fn is None:
            continue
        for m in mutations(prog, fn):
            if m['kind'] in ('ws', 'wsset', 'que') or (m['kind'] in ('glob', 'hist') and str(m.get('detail', '')).startswith(SCHED + '.')):
                hits.append((fn, m))
    cache[q] = hits
    return hits


# ---------------------------------------------------------------------------
# R-C05-1 (a)  Hand._translate truth table


class _Translate(Flow):
    """state = (class of the argument, frozenset of (local, State member)); classes: none / truthy / falsy"""

    def __init__(self, prog, f, pname):
        super().__init__()
        self.prog, self.f, self.p = prog, f, pname
        self.returns = []
        self.unknown = []

    def on_test(self, e, st):
        cls = st[0]
        val = None
        if isinstance(e, ast.Name) and e.id == self.p:
            val = cls == 'truthy'
        elif isinstance(e, ast.Call) and call_name(e) == 'bool' and len(e.args) == 1 and norm(e.args[0]) == self.p:
            val = cls == 'truthy'
        elif isinstance(e, ast.Compare) and len(e.ops) == 1:
            a, b = e.left, e.comparators[0]
            if is_none(a):
                a, b = b, a
            if isinstance(a, ast.Name) and a.id == self.p and is_none(b):
                if isinstance(e.ops[0], (ast.Is, ast.Eq)):
                    val = cls == 'none'
                elif isinstance(e.ops[0], (ast.IsNot, ast.NotEq)):
                    val = cls != 'none'
        if val is None:
            if self.p in names_in(e):
                self.unknown.append(e)
            return (st,), (st,)
        return ((st,), ()) if val else ((), (st,))

    def _value(self, e, st):
        """State member an expression evaluates to in this state (conditional expressions are decided by the oracle)"""
        if isinstance(e, ast.IfExp):
            t, f = self.cond(e.test, {st})
            if t and not f:
                return self._value(e.body, st)
            if f and not t:
                return self._value(e.orelse, st)
            return None
        m = _state_member(self.prog, e, self.f)
        if m is None and isinstance(e, ast.Name):
            m = dict(st[1]).get(e.id)
        return m

    def on_stmt(self, s, st):
        if isinstance(s, ast.Assign):
            env = dict(st[1])
            for t in s.targets:
                for nm in names_in(t):
                    if nm == self.p:
                        self.unknown.append(s)
                    env.pop(nm, None)
                    m = self._value(s.value, st)
                    if m is not None and isinstance(t, ast.Name):
                        env[nm] = m
            return ((st[0], frozenset(env.items())),)
        return (st,)

    def on_return(self, node, st):
        m = self._value(node.value, st) if node.value is not None else None
        self.returns.append((st[0], m, node))
        return (st,)


def is_none(e):
    return isinstance(e, ast.Constant) and e.value is None


# ---------------------------------------------------------------------------
# R-C05-1 (b)  reply constructions of the workers


def _flag(e, bind=None):
    if isinstance(e, ast.Constant):
        if e.value is True:
            return 'T'
        if e.value is False:
            return 'F'
        if e.value is None:
            return 'N'
    if isinstance(e, ast.Name) and bind and e.id in bind:
        return bind[e.id]
    return '?' + norm(e)


def _call_arg(callee, call, pname):
    """actual argument bound to parameter pname of callee (positional / keyword / default), else None"""
    names = callee.params()
    for k in call.keywords:
        if k.arg == pname:
            return k.value
    a = callee.node.args
    pos = [x.arg for x in a.posonlyargs + a.args]
    if pname in pos:
        i = pos.index(pname)
        if callee.cls is not None and not callee.is_staticmethod() and isinstance(call.func, ast.Attribute):
            i -= 1  # bound method: self is implicit
        if 0 <= i < len(call.args) and not any(isinstance(x, ast.Starred) for x in call.args[: i + 1]):
            return call.args[i]
        j = pos.index(pname) - (len(pos) - len(a.defaults))
        if j >= 0:
            return a.defaults[j]
    if pname in [x.arg for x in a.kwonlyargs]:
        d = a.kw_defaults[[x.arg for x in a.kwonlyargs].index(pname)]
        return d
    del names
    return None


def reply_flag(prog, call, func, bind=None, depth=1):
    """abstract success flag of the response message built by a call: 'T' / 'N' / 'F' / '?text';
    None when the call does not build a response message.  A helper that returns such a call is inlined one level."""
    q = _qcallee(prog, call, func)
    if q == MAKE:
        mk = prog.func(MAKE)
        typ = _call_arg(mk, call, 'typ')
        if typ is None or prog.resolve_in(typ, func) != RESP:
            return None
        suc = _call_arg(mk, call, 'suc')
        return _flag(suc, bind) if suc is not None else '?missing'
    h = prog.funcs.get(q) if q else None
    if h is not None and depth > 0:
        rets = [n for n in h.own_nodes() if isinstance(n, ast.Return)]
        if rets and all(isinstance(x.value, ast.Call) for x in rets):
            b = {}
            for p in h.params():
                a = _call_arg(h, call, p)
                if a is not None:
                    b[p] = _flag(a, bind)
            vals = {reply_flag(prog, x.value, h, b, depth - 1) for x in rets}
            if len(vals) == 1:
                return vals.pop()
    return None


def _ancestors(prog, cq):
    """class names (repo and external) a repo class derives from, including itself and the builtin chain"""
    seen, todo = set(), [cq]
    while todo:
        c = todo.pop()
        if c in seen:
            continue
        seen.add(c)
        if c in prog.classes:
            todo.extend(prog.classes[c].bases)
        elif c.startswith('external:') and c not in ('external:BaseException', 'external:object'):
            # builtin exception hierarchy: everything the repo derives from ends in Exception
            todo.append('external:Exception' if c != 'external:Exception' else 'external:BaseException')
    return seen


class _Reply(Flow):
    """state = (phase, frozenset of (variable, flag)); phase: pre / ran / NVI / NVO / other"""

    def __init__(self, prog, f):
        super().__init__()
        self.prog, self.f = prog, f
        self.sends = []  # (call, phase, flag)
        self.run_calls = [c for c in f.calls() if _qcallee(prog, c, f) == RUN]
        self.h2t = {}
        self.run_trys = set()
        for n in f.own_nodes():
            if isinstance(n, ast.Try):
                for h in n.handlers:
                    self.h2t[id(h)] = n
                body = ast.Module(body=n.body, type_ignores=[])
                if any(x is c for x in ast.walk(body) for c in self.run_calls):
                    self.run_trys.add(id(n))
        self.anc = {NVI: _ancestors(prog, NVI), NVO: _ancestors(prog, NVO)}

    def _covers(self, h):
        """exception kinds of interest a handler catches when it is reached: subset of {NVI, NVO, other}"""
        if h.type is None:
            return {'NVI', 'NVO', 'other'}
        types = h.type.elts if isinstance(h.type, ast.Tuple) else [h.type]
        out = set()
        for t in types:
            sym = self.prog.resolve_in(t, self.f) or ''
            if sym in ('external:Exception', 'external:BaseException'):
                return {'NVI', 'NVO', 'other'}
            hit = False
            if sym in self.anc[NVI]:
                out.add('NVI')
                hit = True
            if sym in self.anc[NVO]:
                out.add('NVO')
                hit = True
            if not hit or sym not in (NVI, NVO):
                out.add('some-other')  # catches part of the remaining exceptions; the rest travels on
        return out

    def on_handler(self, h, st):
        t = self.h2t.get(id(h))
        if t is None or id(t) not in self.run_trys:
            return (st,)
        earlier = set()
        for e in t.handlers:
            if e is h:
                break
            earlier |= self._covers(e)
        mine = self._covers(h)
        kinds = {k for k in ('NVI', 'NVO', 'other') if k in mine and k not in earlier}
        if 'some-other' in mine and 'other' not in earlier:
            kinds.add('other')
        return tuple((k, st[1]) for k in sorted(kinds))

    def _val(self, e, st):
        if isinstance(e, ast.Name):
            return dict(st[1]).get(e.id, 'nonresp')
        if isinstance(e, ast.Call):
            return reply_flag(self.prog, e, self.f) or 'nonresp'
        return 'nonresp'

    def on_stmt(self, s, st):
        if isinstance(s, (ast.Assign, ast.AnnAssign)) and s.value is not None:
            env = dict(st[1])
            targets = s.targets if isinstance(s, ast.Assign) else [s.target]
            for t in targets:
                if isinstance(t, ast.Name):
                    env[t.id] = self._val(s.value, st)
                else:
                    for nm in names_in(t):
                        if isinstance(t, (ast.Tuple, ast.List)):
                            env[nm] = 'nonresp'
            return ((st[0], frozenset(env.items())),)
        return (st,)

    def on_call(self, call, st):
        if any(call is c for c in self.run_calls):
            return (('ran', st[1]),)
        if _qcallee(self.prog, call, self.f) == SEND and call.args:
            self.sends.append((call, st[0], self._val(call.args[0], st)))
        return (st,)


# ---------------------------------------------------------------------------
# R-C05-1 (c)  routing inside Hand._res


_ROUTED = (SCHED + '.complete', SCHED + '.update', SCHED + '.purge')


def _reaches(ctx, h, targets):
    key = ('_c05_reach', h.qname)
    cache = ctx.__dict__.setdefault('_c05_rc', {})
    if key not in cache:
        cache[key] = ctx.cg.reachable([h.qname], kinds={'direct'})
    return bool(cache[key] & set(targets))


class _Route(_IFlow):
    """state = (outcome oracle, came through a handler?, #complete, #update, #purge, job lookup succeeded?, last test
    evaluated between the successful lookup and complete)  - counters saturate at 2.
    Helpers of the same module that lead to complete/update/purge are followed (Hand._settle style extraction)."""

    def __init__(self, ctx, g, msg):
        prog = ctx.prog
        super().__init__(prog, g, lambda h: h.module is g.module and h.qname not in _ROUTED and _reaches(ctx, h, _ROUTED))
        self.g, self.msg = g, msg
        self.sites = {}  # id(call) -> [call, qname, set(outcomes), frame]
        self.opaque = []
        self.raised_before_complete = []
        self._sv = {}

    def svars(self, fr):
        """locals of a frame that hold nothing but Hand._translate(<msg>.success)"""
        k = id(fr.func)
        if k not in self._sv:
            names = set()
            for n in fr.func.own_nodes():
                if isinstance(n, ast.Assign) and len(n.targets) == 1 and isinstance(n.targets[0], ast.Name):
                    names.add(n.targets[0].id)
            self._sv[k] = {
                v
                for v in names
                if v not in fr.func.params()
                and assigned_value(fr.func, v)
                and all(self.is_translate(x, fr) for x in assigned_value(fr.func, v))
            }
        return self._sv[k]

    def is_translate(self, e, fr):
        return (
            isinstance(e, ast.Call)
            and _qcallee(self.prog, e, fr.func) == 'dawgie.pl.farm.Hand._translate'
            and len(e.args) == 1
            and fr.text(e.args[0]) == f'{self.msg}.success'
        )

    def is_state_expr(self, e, fr):
        if isinstance(e, ast.Name):
            o = fr.origin(e)
            return o is not None and o[1] in self.svars(o[0])
        return self.is_translate(e, fr)

    def is_flag(self, e, fr):
        return isinstance(e, ast.Attribute) and e.attr == 'success' and fr.text(e) == f'{self.msg}.success'

    def _truth(self, e, o):
        fr = self.fr
        if self.is_flag(e, fr):
            return o == S
        if isinstance(e, ast.Compare) and len(e.ops) == 1:
            a, b, op = e.left, e.comparators[0], e.ops[0]
            if self.is_flag(a, fr) and is_none(b):
                if isinstance(op, (ast.Is, ast.Eq)):
                    return o == I
                if isinstance(op, (ast.IsNot, ast.NotEq)):
                    return o != I
            if not self.is_state_expr(a, fr) and self.is_state_expr(b, fr):
                a, b = b, a
            if self.is_state_expr(a, fr):
                m = _state_member(self.prog, b, fr.func)
                if m is not None:
                    if isinstance(op, (ast.Eq, ast.Is)):
                        return o == m
                    if isinstance(op, (ast.NotEq, ast.IsNot)):
                        return o != m
                if isinstance(b, (ast.List, ast.Tuple, ast.Set)) and isinstance(op, (ast.In, ast.NotIn)):
                    ms = [_state_member(self.prog, x, fr.func) for x in b.elts]
                    if all(x is not None for x in ms):
                        return (o in ms) == isinstance(op, ast.In)
        return None

    def on_test(self, e, st):
        v = self._truth(e, st[0])
        if st[5] and st[2] == 0:  # a guard between the successful lookup and complete: remember it for the report
            st = st[:6] + (norm(e),)
        if v is None:
            if any(self.is_state_expr(n, self.fr) for n in ast.walk(e) if isinstance(n, ast.Name)) or any(
                self.is_flag(n, self.fr) for n in ast.walk(e)
            ):
                self.opaque.append(e)
            return (st,), (st,)
        return ((st,), ()) if v else ((), (st,))

    def on_raise(self, node, st):
        if st[5] and st[2] == 0 and not st[1]:
            self.raised_before_complete.append((node, st, self.fr))
        return (st,)

    def on_handler(self, h, st):
        return ((st[0], True) + st[2:],)

    def on_call(self, call, st):
        q = _qcallee(self.prog, call, self.fr.func)
        self.sites.setdefault(id(call), [call, q, set(), self.fr])[2].add(st[0])
        o, exc, nc, nu, np_, found, guard = st
        if q == SCHED + '.complete':
            nc = min(2, nc + 1)
        elif q == SCHED + '.update':
            nu = min(2, nu + 1)
        elif q == SCHED + '.purge':
            np_ = min(2, np_ + 1)
        elif q == SCHED + '.find':
            found = True  # returned normally (IndexError leaves through the handler)
        else:
            sub = self.descend(call, st)
            if sub is not None:
                return tuple(sub)
        return ((o, exc, nc, nu, np_, found, guard),)


def _res_facts(ctx):
    """anchors of Hand._res shared by several rules: (function, message parameter, routing flow, exit states)"""
    if '_c05_res' in ctx.__dict__:
        return ctx.__dict__['_c05_res']
    prog = ctx.prog
    g = prog.func('dawgie.pl.farm.Hand._res')
    if not g.params():
        raise AnalysisError('Hand._res lost its message parameter')
    msg = g.params()[-1]
    fl = _Route(ctx, g, msg)
    exits = set()
    for o in (S, F, I):
        out = fl.run(g.node, (o, False, 0, 0, 0, False, None))
        exits |= out.normal | out.ret
    ctx.__dict__['_c05_res'] = (g, msg, fl, exits)
    return ctx.__dict__['_c05_res']


_SCHED_ANCHORS = ('purge', 'update', 'organize', 'find', 'next_job_batch', 'defer', 'build', 'complete', 'periodics')


def _complete_follow(ctx):
    """helpers of schedule.complete that are followed: private functions of the same module (not the public anchors)"""
    c = ctx.prog.func(SCHED + '.complete')
    return lambda h: h.module is c.module and h.parent is None and h.cls is None and h.name not in _SCHED_ANCHORS


def _entry_dict(fn, e, depth=0):
    """the chronicle entry as one dict display, whatever way it is assembled: a literal, a local bound once to one,
    `dict(<base>, k=v, ...)`, `{**<base>, 'k': v}` or `<base> | {...}` (later keys win, as in Python)"""
    if depth > 4:
        return None
    if isinstance(e, ast.Name):
        return _entry_dict(fn, _single_assign(fn, e.id), depth + 1)
    if isinstance(e, ast.Dict):
        keys, vals = [], []
        for k, v in zip(e.keys, e.values):
            if k is None:
                base = _entry_dict(fn, v, depth + 1)
                if not isinstance(base, ast.Dict):
                    return None
                keys += base.keys
                vals += base.values
            else:
                keys.append(k)
                vals.append(v)
        return ast.copy_location(ast.Dict(keys=keys, values=vals), e)
    if isinstance(e, ast.Call) and isinstance(e.func, ast.Name) and e.func.id == 'dict':
        keys, vals = [], []
        for a in e.args:
            base = _entry_dict(fn, a, depth + 1)
            if not isinstance(base, ast.Dict):
                return None
            keys += base.keys
            vals += base.values
        for k in e.keywords:
            if k.arg is None:
                base = _entry_dict(fn, k.value, depth + 1)
                if not isinstance(base, ast.Dict):
                    return None
                keys += base.keys
                vals += base.values
            else:
                keys.append(ast.Constant(value=k.arg))
                vals.append(k.value)
        return ast.copy_location(ast.Dict(keys=keys, values=vals), e)
    if isinstance(e, ast.BinOp) and isinstance(e.op, ast.BitOr):
        a, b = _entry_dict(fn, e.left, depth + 1), _entry_dict(fn, e.right, depth + 1)
        if isinstance(a, ast.Dict) and isinstance(b, ast.Dict):
            return ast.copy_location(ast.Dict(keys=a.keys + b.keys, values=a.values + b.values), e)
    return None


def _complete_roles(ctx):
    """parameter names of schedule.complete by role, derived from the chronicle entry it (or a followed helper) writes:
    'status' <- P.name, 'target' <- P, 'runid' <- P, 'task' <- P.tag   -> (complete, [append calls], entry dict, roles, frames)"""
    if '_c05_roles' in ctx.__dict__:
        return ctx.__dict__['_c05_roles']
    prog = ctx.prog
    c = prog.func(SCHED + '.complete')
    frames = region_frames(prog, c, _complete_follow(ctx))
    calls, entry, efr = [], None, None
    for fr in frames:
        for x in fr.func.calls():
            if _qcallee(prog, x, fr.func) == CHRON:
                calls.append(x)
                if x.args:
                    e = _entry_dict(fr.func, x.args[0])
                    if isinstance(e, ast.Dict):
                        entry, efr = e, fr
    roles = {}
    if entry is not None:
        for k, v in zip(entry.keys, entry.values):
            if not (isinstance(k, ast.Constant) and isinstance(k.value, str)):
                continue
            lv = efr.lift(v)
            if k.value == 'status' and isinstance(lv, ast.Attribute) and lv.attr == 'name' and isinstance(lv.value, ast.Name):
                roles['status'] = lv.value.id
            elif k.value in ('target', 'runid') and isinstance(lv, ast.Name):
                roles[k.value] = lv.id
            elif k.value == 'task' and isinstance(lv, ast.Attribute) and lv.attr == 'tag' and isinstance(lv.value, ast.Name):
                roles['job'] = lv.value.id
    ctx.__dict__['_c05_roles'] = (c, calls, entry, roles, frames)
    return ctx.__dict__['_c05_roles']


def _rule1(ctx, rep):
    prog = ctx.prog
    with rep.rule(
        'R-C05-1',
        'outcome routing: worker reply flag (True/None/False) -> Hand._translate (success/invalid/failure) -> '
        'schedule.update only on success, schedule.purge(job, target) on every non-success reply',
        floor=20,
        breaks='a failed or invalid run triggers its dependents, or a good run purges them, or a failure is never withdrawn',
    ) as r:
        # the three members must exist in the enumeration
        st_cls = prog.cls(STATE)
        members = {t.id for n in st_cls.node.body if isinstance(n, ast.Assign) for t in n.targets if isinstance(t, ast.Name)}
        if not {S, F, I} <= members:
            raise AnalysisError(f'jobinfo.State lost one of success/failure/invalid: {sorted(members)}')
        # ---- (a) Hand._translate
        f = prog.func('dawgie.pl.farm.Hand._translate')
        rep.analysed(f)
        if len(f.params()) != 1:
            raise AnalysisError('Hand._translate no longer takes exactly the success flag')
        fl = _Translate(prog, f, f.params()[0])
        fall = set()
        for cls in ('none', 'truthy', 'falsy'):
            o = fl.run(f.node, (cls, frozenset()))
            fall |= {s[0] for s in o.normal}
        want = {'none': I, 'truthy': S, 'falsy': F}
        r.extra['translate_truth_table'] = {}
        for cls in ('none', 'truthy', 'falsy'):
            r.instance()
            got = sorted({str(m) for c, m, _n in fl.returns if c == cls})
            r.extra['translate_truth_table'][cls] = got
            r.check(
                got == [want[cls]] and cls not in fall and not fl.unknown,
                f'{f.qname}:{cls}',
                where(f),
                f'argument class {cls} -> State.{want[cls]} on every path',
                f'Hand._translate maps a {cls} success flag to {got or "nothing"}'
                + (' or falls off the end' if cls in fall else '')
                + (f' (test not understood: {norm(fl.unknown[0])})' if fl.unknown else '')
                + f'; the property needs exactly State.{want[cls]}',
            )
        # ---- (b) reply constructions of both workers (the cloud worker's replies reach Hand._res through Contractor)
        mk = prog.func(MAKE)
        rep.analysed(mk)
        r.instance()
        ok_map = False
        for n in mk.own_nodes():
            if isinstance(n, ast.Return) and isinstance(n.value, ast.Call):
                for k in n.value.keywords:
                    if k.arg == 'success' and isinstance(k.value, ast.Name) and k.value.id == 'suc':
                        ok_map = True
        a = mk.node.args
        dflt = _call_arg(mk, ast.Call(func=ast.Name(id='make'), args=[], keywords=[]), 'suc')
        del a
        r.check(
            ok_map and dflt is not None and is_none(dflt),
            f'{MAKE}:suc->success',
            where(mk),
            'make(suc=x) stores x in MSG.success (default None = invalid)',
            'message.make no longer stores its suc argument in the success field read by Hand._res (or its default changed)',
            nontrivial=False,
        )
        expect = {'ran': 'T', 'NVI': 'N', 'NVO': 'N', 'other': 'F'}
        label = {
            'ran': 'normal completion',
            'NVI': 'NoValidInputDataError',
            'NVO': 'NoValidOutputDataError',
            'other': 'any other exception',
        }
        for wq in ('dawgie.pl.worker.cluster.execute', 'dawgie.pl.worker.aws.execute'):
            w = prog.func(wq)
            rep.analysed(w)
            rf = _Reply(prog, w)
            if not rf.run_calls:
                raise AnalysisError(f'{wq} no longer calls worker.Context.run')
            rf.run(w.node, ('pre', frozenset()))
            for ph in ('ran', 'NVI', 'NVO', 'other'):
                r.instance()
                flags = sorted({fg for _c, p, fg in rf.sends if p == ph})
                r.check(
                    flags == [expect[ph]],
                    f'{wq}:{ph}',
                    where(w),
                    f'{label[ph]} -> reply with suc={expect[ph]}',
                    f'after {label[ph]} the worker replies with success flag(s) {flags or "none (no reply sent)"}; '
                    f'the routing in Hand._res needs {expect[ph]} (T=True, N=None, F=False)',
                )
            # every way the run can end becomes a reply: the try around Context.run has a handler for BaseException (bare or
            # named) - sys.exit() / KeyboardInterrupt inside algorithm code are not Exceptions (added after seeded change
            # C05-3: `except:` narrowed to `except Exception:`; the finally block then sent the task message back)
            r.instance()
            guarded = [n for n in w.own_nodes() if isinstance(n, ast.Try) and id(n) in rf.run_trys and n.handlers]
            base_ok = bool(guarded)
            inner = [t for t in guarded if not any(o is not t and any(x is o for x in ast.walk(t)) for o in guarded)]
            for t in inner:  # the innermost try with handlers around the run call
                covered = False
                for h in t.handlers:
                    types = [] if h.type is None else (h.type.elts if isinstance(h.type, ast.Tuple) else [h.type])
                    if h.type is None or any((prog.resolve_in(x, w) or '') == 'external:BaseException' or norm(x) == 'BaseException' for x in types):
                        covered = True
                base_ok = base_ok and covered
            r.check(
                base_ok,
                f'{wq}:base-exception',
                where(w),
                'the try around Context.run catches BaseException (bare except)',
                'an algorithm that ends with a BaseException that is not an Exception (sys.exit(), KeyboardInterrupt) skips every handler of the worker: '
                'no failure reply is built, the unit stays in doing and its dependents keep waiting',
            )
        # ---- (c) Hand._res (helpers that lead to complete/update/purge are followed)
        g, msg, route, exits = _res_facts(ctx)
        rep.analysed(g, *route.followed.values())
        r.extra['res_states_visited'] = route.visited
        r.extra['res_helpers_followed'] = sorted(route.followed)
        upd = [v for v in route.sites.values() if v[1] == SCHED + '.update']
        pur = [v for v in route.sites.values() if v[1] == SCHED + '.purge']
        com = [v for v in route.sites.values() if v[1] == SCHED + '.complete']
        if not com:
            raise AnalysisError('Hand._res (with its helpers, two levels) no longer calls schedule.complete')
        for call, _q, outs, fr in upd:
            r.instance()
            r.check(
                outs == {S},
                f'{fr.func.qname}:{norm(call)}',
                where(fr.func, call),
                'reached only when the translated state is success',
                f'schedule.update is reachable with outcome {sorted(outs - {S})}: a non-success run would trigger its dependents',
            )
        for call, _q, outs, fr in pur:
            r.instance()
            r.check(
                S not in outs,
                f'{fr.func.qname}:{norm(call)}',
                where(fr.func, call),
                f'reached only with outcomes {sorted(outs)}',
                'schedule.purge is reachable on the success outcome: a good run would withdraw its target from the dependents',
            )
        # once the job lookup succeeded, every path reaches complete exactly once (record + queue clean-up) ...
        for o in (S, F, I):
            r.instance()
            ex = [e for e in exits if e[0] == o and not e[1] and e[5]]
            bad = sorted({f'complete called {e[2]}x after guard `{e[6]}`' if e[6] else f'complete called {e[2]}x' for e in ex if e[2] != 1})
            bad += [f'raise `{norm(n)}` after guard `{st[6]}`' for n, st, _fr in route.raised_before_complete if st[0] == o]
            r.check(
                bool(ex) and not bad,
                f'{g.qname}:must-complete:{o}',
                where(g),
                f'every path of a {o} reply on which schedule.find succeeded calls schedule.complete exactly once',
                f'a {o} reply whose job was found can leave Hand._res without exactly one schedule.complete ({"; ".join(bad) or "no such path found"}): '
                'the outcome is not recorded and, for a non-success reply, the target is not withdrawn from the dependents',
            )
        # ... and a non-success reply also reaches purge
        for o in (F, I):
            r.instance()
            ex = [e for e in exits if e[0] == o and not e[1] and e[5]]
            bad = sorted({f'after guard `{e[6]}`' if e[6] else 'unconditionally' for e in ex if e[4] < 1})
            r.check(
                bool(ex) and not bad,
                f'{g.qname}:must-purge:{o}',
                where(g),
                f'every non-exceptional path of a {o} reply whose job was found also called schedule.purge',
                f'a {o} reply whose job was found can leave Hand._res without schedule.purge being called ({"; ".join(bad) or "no such path"}): '
                'the target stays pending in the dependents',
            )
        # purge receives the very job and target that were completed
        r.instance()
        c, _cc, _entry, roles, _frames = _complete_roles(ctx)
        detail = []
        okargs = bool(pur)
        pf = prog.func(SCHED + '.purge')
        for call, _q, _o, pfr in pur:
            for cc, _q2, _o2, cfr in com:
                jp = _call_arg(c, cc, roles.get('job', 'job'))
                tp = _call_arg(c, cc, roles.get('target', 'target'))
                pj = _call_arg(pf, call, pf.params()[0])
                pt = _call_arg(pf, call, pf.params()[1]) if len(pf.params()) > 1 else None
                if None in (jp, tp, pj, pt):
                    okargs = False
                    detail.append('argument not found')
                    continue
                a1, a2 = cfr.text(jp), pfr.text(pj)
                b1, b2 = cfr.text(tp), pfr.text(pt)
                if a1 != a2 or b1 != b2:
                    okargs = False
                    detail.append(f'complete({a1}, .., {b1}) vs purge({a2}, {b2})')
                # the job must be the queue entry looked up under the reply's job id
                org = cfr.origin(jp)
                jv = _single_assign(org[0].func, org[1]) if org is not None else jp
                ofr = org[0] if org is not None else cfr
                if not (
                    isinstance(jv, ast.Call)
                    and _qcallee(prog, jv, ofr.func) == SCHED + '.find'
                    and jv.args
                    and ofr.text(jv.args[0]) == f'{msg}.jobid'
                ):
                    okargs = False
                    detail.append(f'job {a1} is not schedule.find({msg}.jobid)')
                if f'{msg}.incarnation' not in b1:
                    okargs = False
                    detail.append(f'target {b1} is not derived from {msg}.incarnation')
        r.check(
            okargs,
            f'{g.qname}:purge-args',
            where(pur[0][3].func, pur[0][0]) if pur else where(g),
            'purge(job, target) gets the job found under msg.jobid and the same target expression as complete',
            'schedule.purge is not applied to the failing job and its own target: ' + '; '.join(detail or ['no purge call']),
        )
        if route.opaque:
            r.note('tests over the outcome that were not understood (both branches explored): ' + ', '.join(sorted({norm(e) for e in route.opaque})))


# ---------------------------------------------------------------------------
# R-C05-2 / R-C05-3  the visit performed by schedule.purge


def _self_test(test, var, cur, defaults=None):
    """'ne' / 'eq' when test compares the loop variable with the visited node itself (by tag or identity)"""
    if not (isinstance(test, ast.Compare) and len(test.ops) == 1):
        return None
    a, b, op = test.left, test.comparators[0], test.ops[0]
    defaults = defaults or {}

    def is_var(e):
        return (isinstance(e, ast.Attribute) and e.attr == 'tag' and isinstance(e.value, ast.Name) and e.value.id == var, isinstance(e, ast.Name) and e.id == var)

    def is_cur(e):
        tag = isinstance(e, ast.Attribute) and e.attr == 'tag' and isinstance(e.value, ast.Name) and e.value.id == cur
        if isinstance(e, ast.Name) and e.id in defaults and norm(defaults[e.id]) == f'{cur}.tag':
            tag = True
        return (tag, isinstance(e, ast.Name) and e.id == cur and e.id not in defaults)

    for x, y in ((a, b), (b, a)):
        vt, vi = is_var(x)
        ct, ci = is_cur(y)
        if (vt and ct) or (vi and ci):
            if isinstance(op, (ast.NotEq, ast.IsNot)):
                return 'ne'
            if isinstance(op, (ast.Eq, ast.Is)):
                return 'eq'
    return None


def children_expr(e, cur):
    """None when e is not 'all children of <cur>'; else whether the self edge is excluded.
    Accepted: cur, list/tuple/iter/sorted/reversed(cur), cur[:], filter(<self exclusion>, cur),
    [c for c in cur [if <self exclusion>]] - each yields every child (except, at most, the node itself)."""
    if isinstance(e, ast.Name):
        return False if e.id == cur else None
    if isinstance(e, ast.Subscript) and isinstance(e.slice, ast.Slice) and not (e.slice.lower or e.slice.upper or e.slice.step):
        return children_expr(e.value, cur)
    if isinstance(e, ast.Call) and isinstance(e.func, ast.Name):
        if e.func.id in ('list', 'tuple', 'iter', 'sorted', 'reversed') and e.args:
            return children_expr(e.args[0], cur)
        if e.func.id == 'filter' and len(e.args) == 2 and isinstance(e.args[0], ast.Lambda):
            inner = children_expr(e.args[1], cur)
            lam = e.args[0]
            pos = lam.args.posonlyargs + lam.args.args
            if inner is None or not pos:
                return None
            dfl = dict(zip([p.arg for p in pos[len(pos) - len(lam.args.defaults) :]], lam.args.defaults))
            dfl.update({p.arg: d for p, d in zip(lam.args.kwonlyargs, lam.args.kw_defaults) if d is not None})
            if _self_test(lam.body, pos[0].arg, cur, dfl) == 'ne':
                return True
            return None
    if isinstance(e, (ast.ListComp, ast.GeneratorExp, ast.SetComp)) and len(e.generators) == 1:
        gen = e.generators[0]
        inner = children_expr(gen.iter, cur)
        if inner is None or not isinstance(gen.target, ast.Name) or norm(e.elt) != gen.target.id:
            return None
        excl = inner
        for c in gen.ifs:
            if _self_test(c, gen.target.id, cur) == 'ne':
                excl = True
            else:
                return None
        return excl
    return None


class _St(tuple):
    """abstract state of the purge visit"""

    __slots__ = ()
    FIELDS = ('phase', 'rm', 'sched', 'pend', 'mself', 'kb', 'emp')

    def __new__(cls, **kw):
        return tuple.__new__(cls, tuple(kw[f] for f in cls.FIELDS))

    def __getattr__(self, n):
        try:
            return self[self.FIELDS.index(n)]
        except ValueError as e:
            raise AttributeError(n) from e

    def r(self, **kw):
        d = dict(zip(self.FIELDS, self))
        d.update(kw)
        return _St(**d)


class _Visit(Flow):
    """One visit of schedule.purge to a node `cur` for target `tgt`.

    phase   body (recursive form)  |  start -> loop -> visit -> ... -> finished (explicit work-list form)
    rm      the target is definitely absent from cur's todo set
    sched   every child of cur has been handed on (recursive call or pushed on the work list)
    pend    inside a loop over cur's children: the current child has not been handed on yet
    mself   the current child may be cur itself (self edge not excluded yet)
    kb      bindings of loop variables that range over a literal tuple of work-set keys
    emp     work sets of cur known to be empty (refined by truthiness tests), for the queue pruning idiom
    """

    def __init__(self, ctx, func, cur, tgt, self_q, wl=None, depth=1):
        super().__init__()
        self.ctx, self.prog, self.f = ctx, ctx.prog, func
        self.cur, self.tgt, self.self_q, self.wl, self.depth = cur, tgt, self_q, wl, depth
        self.bad = []  # (node, message): constructs outside the frame / not understood
        self.skipped = []  # (node, message): a child is not handed on on some path
        self.self_unguarded = []  # hand-on sites that can be reached with the child being cur
        self.effects = []  # (node, description) accepted effects (instances of R-C05-3)
        self._handon_sites = set()
        self._seen_bad = set()
        self.raises = []  # explicit raise statements inside the visit

    # ---- helpers
    def _bad(self, node, msg):
        k = (id(node), msg)
        if k not in self._seen_bad:
            self._seen_bad.add(k)
            self.bad.append((node, msg))

    def _effect(self, node, desc):
        k = (id(node), 'fx')
        if k not in self._seen_bad:
            self._seen_bad.add(k)
            self.effects.append((node, desc))

    def _kb(self, st):
        return {n: v for n, _i, v in st.kb}

    def _is_cur(self, e):
        return isinstance(e, ast.Name) and e.id == self.cur

    def _is_tgt(self, e):
        return isinstance(e, ast.Name) and e.id == self.tgt

    def _child_loop(self, node):
        return isinstance(node, ast.For) and isinstance(node.target, ast.Name) and children_expr(node.iter, self.cur) is not None

    @property
    def handons(self):
        return len(self._handon_sites)

    def _loopvar(self, st):
        return st.pend[0] if st.pend else None

    # ---- hooks
    def on_for(self, node, st):
        # literal loop over work-set keys: unrolled exactly
        if isinstance(node.iter, (ast.Tuple, ast.List)) and isinstance(node.target, ast.Name) and all(
            isinstance(x, ast.Constant) and isinstance(x.value, str) for x in node.iter.elts
        ):
            vals = [x.value for x in node.iter.elts]
            cur = [b for b in st.kb if b[0] == node.target.id]
            i = cur[0][1] + 1 if cur else 0
            if i >= len(vals):
                return ()
            kb = frozenset({b for b in st.kb if b[0] != node.target.id} | {(node.target.id, i, vals[i])})
            return (st.r(kb=kb),)
        if self._child_loop(node):
            if st.pend and st.pend[0] == node.target.id and st.pend[1]:
                self.skipped.append((node, f'a child of {self.cur} is not handed on on some path through the loop body'))
            excl = children_expr(node.iter, self.cur)
            return (st.r(pend=(node.target.id, True), mself=not excl),)
        return (st,)

    def on_for_done(self, node, st):
        if isinstance(node.iter, (ast.Tuple, ast.List)) and isinstance(node.target, ast.Name) and all(
            isinstance(x, ast.Constant) and isinstance(x.value, str) for x in node.iter.elts
        ):
            cur = [b for b in st.kb if b[0] == node.target.id]
            n = len(node.iter.elts)
            if (cur and cur[0][1] == n - 1) or (not cur and n == 0):
                return (st.r(kb=frozenset(b for b in st.kb if b[0] != node.target.id)),)
            return ()
        if self._child_loop(node):
            if st.pend and st.pend[0] == node.target.id and st.pend[1]:
                self.skipped.append((node, f'a child of {self.cur} is not handed on on some path through the loop body'))
            return (st.r(pend=None, mself=False, sched=True),)
        return (st,)

    def _emptiness(self, e, st):
        """(work set, branch on which it is known empty) for S / len(S) / len(S) == 0 / len(S) > 0 / len(S) != 0 / S == []"""

        def unlen(x):
            return x.args[0] if isinstance(x, ast.Call) and call_name(x) == 'len' and len(x.args) == 1 and not x.keywords else None

        def ws(x):
            return ws_of(self.f, x, self._kb(st)) if isinstance(x, (ast.Call, ast.Name)) else None

        if isinstance(e, ast.Compare) and len(e.ops) == 1:
            a, b, op = e.left, e.comparators[0], e.ops[0]
            flip = False
            if is_const(a, 0):
                a, b, flip = b, a, True
            if is_const(b, 0) and unlen(a) is not None:
                w = ws(unlen(a))
                if isinstance(op, ast.Eq):
                    return w, True
                if isinstance(op, ast.NotEq) or (isinstance(op, ast.Gt) and not flip) or (isinstance(op, ast.Lt) and flip):
                    return w, False
            return None, None
        t = unlen(e) if unlen(e) is not None else e
        return ws(t), False  # falsy work set (or zero length) = empty

    def _wl_test(self, e):
        """truthiness of the work list: W / len(W) / len(W) > 0 / 0 < len(W)"""
        if self.wl is None:
            return False
        t = norm(e)
        w = self.wl
        return t in (w, f'len({w})', f'len({w}) > 0', f'0 < len({w})', f'len({w}) != 0', f'{w} != []')

    def on_test(self, e, st):
        if self._wl_test(e):
            if st.phase == 'visit' and not (st.sched and st.rm):
                self.skipped.append((e, 'an iteration of the work-list loop ends without handing on every child (or withdrawing the target)'))
            return (st.r(phase='loop', pend=None),), (st.r(phase='finished', pend=None),)
        if isinstance(e, ast.Compare) and len(e.ops) == 1 and isinstance(e.ops[0], (ast.In, ast.NotIn)) and self._is_tgt(e.left):
            w = ws_of(self.f, e.comparators[0], self._kb(st))
            if w is not None and self._is_cur(w[0]) and w[1] == 'todo':
                absent = st.r(rm=True)
                return ((st,), (absent,)) if isinstance(e.ops[0], ast.In) else ((absent,), (st,))
            return (st,), (st,)
        w, empty_when = self._emptiness(e, st)
        if w is not None and self._is_cur(w[0]):
            known = st.r(emp=st.emp | {w[1]})
            return ((known,), (st,)) if empty_when else ((st,), (known,))
        lv = self._loopvar(st)
        if lv:
            k = _self_test(e, lv, self.cur)
            if k:
                same = st.r(pend=(lv, False))  # the node itself was already visited: nothing to hand on
                other = st.r(mself=False)
                return ((other,), (same,)) if k == 'ne' else ((same,), (other,))
        return (st,), (st,)

    def on_stmt(self, s, st):
        targets = []
        if isinstance(s, ast.Assign):
            targets = s.targets
        elif isinstance(s, (ast.AugAssign, ast.AnnAssign)):
            targets = [s.target]
        elif isinstance(s, ast.Delete):
            targets = s.targets
        for t in targets:
            for nm in ([t.id] if isinstance(t, ast.Name) else [x.id for x in ast.walk(t) if isinstance(x, ast.Name) and isinstance(x.ctx, ast.Store)]):
                if nm == self.tgt:
                    self._bad(s, f'the target parameter {self.tgt} is rebound inside the visit')
                if nm == self.cur:
                    v = getattr(s, 'value', None)
                    if (
                        self.wl
                        and isinstance(s, ast.Assign)
                        and isinstance(v, ast.Call)
                        and isinstance(v.func, ast.Attribute)
                        and v.func.attr in ('pop', 'popleft')
                        and norm(v.func.value) == self.wl
                    ):
                        if st.phase != 'loop':
                            self._bad(s, 'node popped from the work list outside the head of its loop')
                        return (st.r(phase='visit', rm=False, sched=False, pend=None, emp=frozenset()),)
                    self._bad(s, f'the visited node {self.cur} is rebound inside the visit')
                if st.pend and nm == st.pend[0] and not isinstance(s, ast.For):
                    self._bad(s, f'loop variable {nm} is rebound before the child is handed on')
            if isinstance(t, (ast.Attribute, ast.Subscript)):
                kind, _d = classify_receiver(self.prog, self.f, t.value if isinstance(t, ast.Subscript) else t, self._kb(st))
                if kind != 'local':
                    self._bad(s, f'store into {norm(t)} is outside the frame of a purge visit')
        if isinstance(s, ast.AugAssign) and self.wl and norm(s.target) == self.wl and isinstance(s.op, ast.Add):
            ex = children_expr(s.value, self.cur)
            if ex is not None and st.phase == 'visit':
                if not ex:
                    self.self_unguarded.append(s)
                self._handon_sites.add(id(s))
                return (st.r(sched=True),)
        return (st,)

    def on_call(self, call, st):
        f = call.func
        q = _qcallee(self.prog, call, self.f)
        lv = self._loopvar(st)
        # (1) recursion
        if q == self.self_q:
            self._handon_sites.add(id(call))
            a0 = call.args[0] if call.args else None
            a1 = call.args[1] if len(call.args) > 1 else None
            if self.wl is None and lv and isinstance(a0, ast.Name) and a0.id == lv and self._is_tgt(a1) and not call.keywords:
                if st.mself:
                    self.self_unguarded.append(call)
                self._effect(call, 'recursive visit of a child with the same target')
                return (st.r(pend=(lv, False)),)
            self._bad(call, f'recursive call {norm(call)} is not purge(<child of {self.cur}>, {self.tgt})')
            return (st,)
        h = self.prog.funcs.get(q) if q else None
        if h is None and isinstance(f, ast.Attribute):
            recv, m = f.value, f.attr
            # (2) work list operations
            if self.wl and norm(recv) == self.wl:
                if m == 'append' and lv and len(call.args) == 1 and norm(call.args[0]) == lv and st.phase == 'visit':
                    if st.mself:
                        self.self_unguarded.append(call)
                    self._handon_sites.add(id(call))
                    return (st.r(pend=(lv, False)),)
                if m == 'extend' and len(call.args) == 1 and st.phase == 'visit':
                    ex = children_expr(call.args[0], self.cur)
                    if ex is not None:
                        if not ex:
                            self.self_unguarded.append(call)
                        self._handon_sites.add(id(call))
                        return (st.r(sched=True),)
                if m in ('pop', 'popleft'):
                    return (st,)  # the binding statement decides
                self._bad(call, f'work-list operation {norm(call)} is not a push of the children of {self.cur}')
                return (st,)
            # (3) work-set / container mutations
            if m == 'set' and len(call.args) == 2:
                self._bad(call, f'{norm(call)}: a purge visit must not set node attributes')
                return (st,)
            if m in MUTATORS:
                kind, det = classify_receiver(self.prog, self.f, recv, self._kb(st))
                if kind == 'ws':
                    node, wk = det
                    if m in ('remove', 'discard') and self._is_cur(node) and len(call.args) == 1 and self._is_tgt(call.args[0]):
                        self._effect(call, f"withdraw the target from the visited node's {wk} set")
                        after = st.r(rm=True) if wk == 'todo' else st
                        if m == 'remove' and self._try:
                            self._try[-1].add(after)  # remove() raised: the target was not in the set
                        return (after,)
                    self._bad(
                        call,
                        f'{norm(call)} changes a work set other than by removing {self.tgt} from the visited node '
                        f'(frame: work of other targets and other nodes must stay unchanged)',
                    )
                    return (st,)
                if kind == 'local':
                    return (st,)
                if kind == 'que':
                    # accepted idiom: prune the visited node from the queue once nothing is pending or executing on it
                    # (Inv-B of C04); an entry without work carries no pending/executing work, so the frame holds
                    if m == 'remove' and len(call.args) == 1 and self._is_cur(call.args[0]) and {'todo', 'doing'} <= st.emp:
                        self._effect(call, 'prune the visited node from the queue, dominated by "todo and doing are empty"')
                    else:
                        self._bad(
                            call,
                            f'{norm(call)} changes the queue other than by removing the visited node when its todo and doing sets '
                            f'are both known to be empty (known empty here: {sorted(st.emp)})',
                        )
                    return (st,)
                self._bad(call, f'{norm(call)} mutates {kind} state, which a purge visit must leave unchanged')
                return (st,)
        # (4) other repo functions
        if h is not None:
            uses_cur = any(self._is_cur(a) for a in list(call.args) + [k.value for k in call.keywords])
            if uses_cur and self.depth > 0:
                # helper extraction: inline one level with the parameters bound to (cur, target)
                bind = {}
                consts = set()  # parameters bound to a constant work-set key at this call site ('do' / 'doing' / 'todo')
                stores = {n.id for n in h.own_nodes() if isinstance(n, ast.Name) and isinstance(n.ctx, (ast.Store, ast.Del))}
                kbv = self._kb(st)
                for p in h.params():
                    a = _call_arg(h, call, p)
                    if a is not None and self._is_cur(a):
                        bind['cur'] = p
                    elif a is not None and self._is_tgt(a):
                        bind['tgt'] = p
                    elif isinstance(a, ast.Constant) and isinstance(a.value, str) and p not in stores:
                        consts.add((p, 0, a.value))
                    elif isinstance(a, ast.Name) and a.id in kbv and p not in stores:
                        consts.add((p, 0, kbv[a.id]))  # the caller loops over a literal key tuple
                if 'cur' in bind and 'tgt' in bind:
                    sub = _Visit(self.ctx, h, bind['cur'], bind['tgt'], self.self_q, None, self.depth - 1)
                    ex = sub.exits(h.node, _St(phase='helper', rm=False, sched=False, pend=None, mself=False, kb=frozenset(consts), emp=frozenset()))
                    for n, msg in sub.bad:
                        self._bad(n, f'(in helper {h.qname}) {msg}')
                    for n, d in sub.effects:
                        self._effect(n, d)
                    if sub.handons:
                        self._bad(call, f'helper {h.qname} hands children on itself; not analysed')
                    return (st.r(rm=True),) if ex and all(x.rm for x in ex) else (st,)
            hits = sched_writers(self.ctx, h.qname)
            if hits:
                fn, mm = hits[0]
                self._bad(call, f'{norm(call)} reaches {fn.qname}, which changes scheduler work state ({norm(mm["node"])[:60]})')
        return (st,)

    def on_return(self, node, st):
        return (st,)

    # accepted idiom: try: S.remove(t) / except KeyError: pass  - the exception means the target was already absent.
    # Only that exception edge is modelled (injected by on_call); implicit exceptions of other calls are out of scope.
    def may_raise(self, call, st):
        return False

    def on_raise(self, node, st):
        self.raises.append(node)
        return (st,)

    def on_handler(self, h, st):
        if h.type is None:
            return (st,)
        types = h.type.elts if isinstance(h.type, ast.Tuple) else [h.type]
        names = {t.id for t in types if isinstance(t, ast.Name)}
        return (st,) if names & {'KeyError', 'ValueError', 'LookupError', 'Exception', 'BaseException'} else ()


def _purge_setup(ctx):
    prog = ctx.prog
    p = prog.func(SCHED + '.purge')
    if len(p.params()) < 2:
        raise AnalysisError('schedule.purge no longer takes (node, target)')
    root, tgt = p.params()[0], p.params()[1]
    # explicit work-list form: W = [root] (or deque([root]) / list((root,))) driving a while loop
    wl = None
    for n in p.own_nodes():
        if isinstance(n, ast.Assign) and len(n.targets) == 1 and isinstance(n.targets[0], ast.Name):
            v = n.value
            if isinstance(v, ast.Call) and v.args and call_name(v) in ('list', 'deque'):
                v = v.args[0]
            if isinstance(v, (ast.List, ast.Tuple)) and len(v.elts) == 1 and norm(v.elts[0]) == root:
                wl = n.targets[0].id
    cur = root
    if wl is not None:
        pops = [
            n.targets[0].id
            for n in p.own_nodes()
            if isinstance(n, ast.Assign)
            and len(n.targets) == 1
            and isinstance(n.targets[0], ast.Name)
            and isinstance(n.value, ast.Call)
            and isinstance(n.value.func, ast.Attribute)
            and n.value.func.attr in ('pop', 'popleft')
            and norm(n.value.func.value) == wl
        ]
        has_loop = any(isinstance(n, ast.While) for n in p.own_nodes())
        if len(set(pops)) == 1 and has_loop:
            cur = pops[0]
        else:
            wl = None
    v = _Visit(ctx, p, cur, tgt, p.qname, wl)
    init = _St(phase='start' if wl else 'body', rm=False, sched=False, pend=None, mself=False, kb=frozenset(), emp=frozenset())
    out = v.run(p.node, init)
    return p, v, out, wl


def _sibling_self_exclusion(prog):
    """does the scheduler's own tree walking (Node.iter / Node.locate) skip the self edge?  -> {qname: bool}"""
    facts = {}
    for q in ('dawgie.pl.dag.Node.iter', 'dawgie.pl.dag.Node.locate'):
        f = prog.func(q)
        me = f.params()[0]
        found = None
        for n in f.own_nodes():
            it = n.iter if isinstance(n, (ast.For, ast.comprehension)) else None
            if it is not None:
                ex = children_expr(it, me)
                if ex is not None:
                    found = bool(found) or ex
                    if isinstance(n, ast.For) and not ex:
                        # guard inside the body?
                        for t in ast.walk(n):
                            if isinstance(t, ast.Compare) and isinstance(n.target, ast.Name) and _self_test(t, n.target.id, me):
                                found = True
        if found is not None:
            facts[q] = found
    return facts


def _self_edge_possible(prog):
    """Node.trim hangs the trimmed child under the trimmed node without comparing the two, and Node.add only
    de-duplicates by tag: a value-level edge inside one algorithm becomes a self edge of the algorithm node"""
    t = prog.func('dawgie.pl.dag.Node.trim')
    me = t.params()[0]
    for n in t.own_nodes():
        if isinstance(n, ast.For) and children_expr(n.iter, me) is False and isinstance(n.target, ast.Name):
            for c in ast.walk(n):
                if isinstance(c, ast.Call) and call_name(c) in ('add', 'append') and c.args:
                    inner = c.args[0]
                    if (
                        isinstance(inner, ast.Call)
                        and isinstance(inner.func, ast.Attribute)
                        and inner.func.attr == t.name
                        and norm(inner.func.value) == n.target.id
                    ):
                        guarded = any(
                            isinstance(x, ast.Compare) and _self_test(x, n.target.id, me) for x in ast.walk(n)
                        )
                        if not guarded:
                            return True
    return False


def _rule2(ctx, rep, setup):
    prog = ctx.prog
    p, v, out, wl = setup
    rep.analysed(p)
    with rep.rule(
        'R-C05-2',
        'schedule.purge withdraws the target from the visited node and reaches every child on every path '
        '(no early exit, no filter other than the self edge), and cannot loop on a self edge',
        floor=3,
        breaks='a failed target stays pending in some transitive dependent, which then runs on the missing input',
    ) as r:
        r.extra['form'] = 'work-list' if wl else 'recursive'
        r.extra['states_visited'] = v.visited
        exits = out.normal | out.ret
        # (1) sweep
        r.instance()
        problems = [m for _n, m in v.skipped]
        if wl:
            if any(e.phase != 'finished' for e in exits):
                problems.append('the function can be left before the work list is empty')
        else:
            if any(not e.sched for e in exits):
                problems.append('the function can be left before the loop over the children has completed (or has no such loop)')
        if v.raises:
            problems.append(f'an explicit raise leaves the sweep ({norm(v.raises[0])})')
        if not v.handons:
            problems.append('no recursive call / work-list push of the children was found')
        r.check(
            not problems,
            f'{p.qname}:sweep',
            where(p),
            f'every exit is reached only after each child was handed on ({v.handons} hand-on site(s), form {r.extra["form"]})',
            'purge does not reach every child: ' + '; '.join(sorted(set(problems))),
        )
        # (2) withdrawal from todo on every path
        r.instance()
        if wl:
            okrm = not any('withdrawing' in m for _n, m in v.skipped) and bool(exits)
        else:
            okrm = bool(exits) and all(e.rm for e in exits)
        r.check(
            okrm,
            f'{p.qname}:withdraw-todo',
            where(p),
            "on every path the target is absent from the visited node's todo set afterwards (membership test / remove / discard)",
            "purge can finish a visit with the target still in the node's todo set",
        )
        # (3) self edge
        r.instance()
        sib = _sibling_self_exclusion(prog)
        possible = _self_edge_possible(prog)
        r.extra['siblings_skip_self_edge'] = sib
        r.extra['builder_can_make_self_edge'] = possible
        if possible and any(sib.values()):
            r.check(
                not v.self_unguarded,
                f'{p.qname}:self-edge',
                where(p, v.self_unguarded[0] if v.self_unguarded else None),
                'children are handed on only when they are not the visited node itself',
                'purge hands on a child that may be the visited node itself: Node.trim makes an algorithm that reads its own '
                'state vector its own child (Node.iter / Node.locate skip that edge), so the sweep never terminates '
                '(RecursionError out of Hand._res) and the children behind the self edge keep the failed target',
            )
        else:
            r.ok(f'{p.qname}:self-edge', 'premise absent: the tree builder cannot create a self edge / the sibling walks do not skip one', where(p), nontrivial=False)
            r.note('self-edge obligation not applicable on this tree (premise absent)')
        r.note('cycles longer than a self edge in the algorithm tree are not analysed (Node.iter/locate would not terminate on them either)')


def _rule3(ctx, rep, setup):
    prog = ctx.prog
    p, v, _out, _wl = setup
    with rep.rule(
        'R-C05-3',
        'frame condition: everything reachable from a non-success reply changes only (a) the failed target in the work sets of the '
        'failing node and its descendants, (b) the job itself in complete (doing, queue entry, status), (c) the history',
        floor=12,
        breaks='a failure disturbs the pending or executing work of another target or of an algorithm that does not depend on the failed one',
    ) as r:
        # ---- purge: every effect was classified by the visit
        for node, desc in v.effects:
            r.instance()
            r.ok(f'{p.qname}:{norm(node)}', desc, where(p, node))
        for node, msg in v.bad:
            r.instance()
            r.fail(f'{p.qname}:{norm(node)}', where(p, node), msg)
        # ---- complete
        c, _calls, _entry, roles, cframes = _complete_roles(ctx)
        rep.analysed(*[fr.func for fr in cframes])
        job, tgt = roles.get('job'), roles.get('target')
        if job is None or tgt is None:
            raise AnalysisError('cannot derive the job/target parameters of schedule.complete from its chronicle entry')

        class All(_IFlow):
            """oracle atom A = (target == '__all__'); records which values of A reach each call (helpers followed)"""

            def __init__(self):
                super().__init__(prog, c, _complete_follow(ctx))
                self.reach = {}

            def on_test(self, e, st):
                if isinstance(e, ast.Compare) and len(e.ops) == 1:
                    a, b = e.left, e.comparators[0]
                    if is_const(a, '__all__'):
                        a, b = b, a
                    if isinstance(a, ast.Name) and self.fr.text(a) == tgt and is_const(b, '__all__'):
                        if isinstance(e.ops[0], (ast.Eq, ast.Is)):
                            return ((st,), ()) if st else ((), (st,))
                        if isinstance(e.ops[0], (ast.NotEq, ast.IsNot)):
                            return ((), (st,)) if st else ((st,), ())
                return (st,), (st,)

            def on_call(self, call, st):
                self.reach.setdefault(id(call), set()).add(st)
                sub = self.descend(call, st)
                return tuple(sub) if sub is not None else (st,)

        al = All()
        al.run(c.node, True)
        al.run(c.node, False)
        if tgt in {n.id for n in c.own_nodes() if isinstance(n, ast.Name) and isinstance(n.ctx, ast.Store)}:
            r.instance()
            r.fail(f'{c.qname}:rebinds:{tgt}', where(c), f'schedule.complete rebinds its target parameter {tgt}')

        helper_calls = {id(fr.call) for fr in cframes if fr.call is not None}
        for fr in cframes:
            fn = fr.func

            def is_p(e, name, fr=fr):
                return isinstance(e, ast.AST) and fr.text(e) == name

            for m in mutations(prog, fn):
                r.instance()
                node, kind, op = m['node'], m['kind'], m['op']
                key = f'{fn.qname}:{norm(node)}'
                w = where(fn, node)
                if kind == 'ws':
                    if not is_p(m['recv'], job):
                        r.fail(key, w, f'{norm(node)} changes a work set of a node other than the completed job')
                    elif op in ('remove', 'discard') and len(m['args']) == 1 and is_p(m['args'][0], tgt):
                        r.ok(key, f'removes only the completed target from the job\'s {m["wkind"]} set', w)
                    elif op == 'clear':
                        reach = al.reach.get(id(node), set())
                        r.check(
                            reach == {True},
                            key,
                            w,
                            "clear() is reached only when the completed target is '__all__'",
                            f"{norm(node)} is reachable for a target other than '__all__': completing one target would drop the executing work of the others",
                        )
                    else:
                        r.fail(key, w, f'{norm(node)}: completing a run may only remove its own target from the job\'s work sets')
                elif kind == 'wsset':
                    r.fail(key, w, f'{norm(node)} replaces a work set while completing a run')
                elif kind == 'que':
                    r.check(
                        op == 'remove' and len(m['args']) == 1 and is_p(m['args'][0], job),
                        key,
                        w,
                        'only the completed job is pruned from the queue',
                        f'{norm(node)} changes the queue other than by removing the completed job',
                        nontrivial=False,
                    )
                elif kind == 'attrset':
                    r.check(is_p(m['recv'], job), key, w, f'attribute {m["key"]} of the job itself', f'{norm(node)} sets an attribute of another node', nontrivial=False)
                elif kind == 'hist':
                    r.check(op == 'append', key, w, 'in-memory history append', f'{norm(node)} changes the in-memory history other than by appending', nontrivial=False)
                elif kind in ('local', 'param'):
                    root = ast.Name(id=str(m['detail']).split('.')[0], ctx=ast.Load())
                    ok = kind == 'local' or fr.text(root) != job
                    r.check(ok, key, w, 'private data of this call (timing record)', f'{norm(node)} mutates the job node directly', nontrivial=False)
                else:
                    r.fail(key, w, f'{norm(node)} changes {kind} state {m.get("detail", "")}: outside the frame of completing one run')
            for call in fn.calls():
                q = _qcallee(prog, call, fn)
                if q in prog.funcs and id(call) not in helper_calls:
                    r.instance()
                    hits = sched_writers(ctx, q)
                    r.check(
                        not hits,
                        f'{fn.qname}:{norm(call)[:70]}',
                        where(fn, call),
                        f'{q} reaches no writer of scheduler work state',
                        f'{norm(call)[:70]} reaches {hits[0][0].qname if hits else ""}, which changes scheduler work state',
                    )
        # ---- Hand._res (and the helpers followed from it): what else runs on a non-success reply
        g, _msg, route, _exits = _res_facts(ctx)
        allowed = {SCHED + '.complete', SCHED + '.purge'}
        for call, q, outs, fr in sorted(route.sites.values(), key=lambda x: (x[3].depth, x[0].lineno, x[0].col_offset)):
            if not (outs & {F, I}) or q not in prog.funcs or id(call) in route.followed_calls:
                continue
            r.instance()
            key = f'{fr.func.qname}:{norm(call)[:70]}'
            if q in allowed:
                r.ok(key, f'{q}: analysed above', where(fr.func, call), nontrivial=False)
                continue
            hits = sched_writers(ctx, q)
            r.check(
                not hits,
                key,
                where(fr.func, call),
                f'{q} reaches no writer of scheduler work state',
                f'on a non-success reply Hand._res calls {q}, which reaches {hits[0][0].qname if hits else ""} '
                f'({norm(hits[0][1]["node"])[:60] if hits else ""}): scheduler work state changes outside purge/complete',
            )
        for fn in [g] + list(route.followed.values()):
            for m in mutations(prog, fn):
                if m['kind'] in ('ws', 'wsset', 'que', 'attrset') or (m['kind'] in ('glob', 'hist') and str(m.get('detail', '')).startswith(SCHED + '.')):
                    r.instance()
                    r.fail(f'{fn.qname}:{norm(m["node"])}', where(fn, m['node']), f'Hand._res changes scheduler work state directly: {norm(m["node"])}')


# ---------------------------------------------------------------------------
# R-C05-4  outcome recorded


def _required_keys(prog):
    """keys chronicle.append insists on (the literal list of its `all(key in entry for key in [...])` guard)"""
    a = prog.func(CHRON)
    ent = a.params()[0]
    keys = set()
    for n in a.own_nodes():
        if isinstance(n, ast.Compare) and len(n.ops) == 1 and isinstance(n.ops[0], (ast.In, ast.NotIn)):
            if isinstance(n.comparators[0], ast.Name) and n.comparators[0].id == ent:
                if isinstance(n.left, ast.Constant) and isinstance(n.left.value, str):
                    keys.add(n.left.value)
        if isinstance(n, ast.comprehension) and isinstance(n.iter, (ast.List, ast.Tuple, ast.Set)):
            if all(isinstance(x, ast.Constant) and isinstance(x.value, str) for x in n.iter.elts):
                keys |= {x.value for x in n.iter.elts}
        if isinstance(n, ast.Subscript) and isinstance(n.value, ast.Name) and n.value.id == ent:
            if isinstance(n.slice, ast.Constant) and isinstance(n.slice.value, str):
                keys.add(n.slice.value)
    return a, keys


def _rule4(ctx, rep):
    prog = ctx.prog
    with rep.rule(
        'R-C05-4',
        'schedule.complete reaches chronicle.append on every path with the translated state, the target and the job of the reply',
        floor=5,
        breaks='a failed or invalid run leaves no trace in the execution history',
    ) as r:
        c, calls, entry, roles, cframes = _complete_roles(ctx)
        rep.analysed(*[fr.func for fr in cframes])

        class Must(_IFlow):
            def __init__(self):
                super().__init__(prog, c, _complete_follow(ctx))

            def on_call(self, call, st):
                if any(call is x for x in calls):
                    return (min(2, st + 1),)
                sub = self.descend(call, st)
                return tuple(sub) if sub is not None else (st,)

        m = Must()
        out = m.run(c.node, 0)
        r.instance()
        ex = out.normal | out.ret
        r.check(
            bool(calls) and bool(ex) and all(e >= 1 for e in ex) and not any(e == 0 for e in out.exc),
            f'{c.qname}:must-append',
            where(c, calls[0] if calls else None),
            'every exit of complete has passed chronicle.append',
            'schedule.complete can return (or raise) without having called chronicle.append: the outcome of that run is not recorded',
        )
        # entry carries what chronicle.append demands, and the outcome / target / job of this very run
        a, need = _required_keys(prog)
        rep.analysed(a)
        r.instance()
        have = {k.value for k in entry.keys if isinstance(k, ast.Constant)} if entry is not None else set()
        r.extra['chronicle_required_keys'] = sorted(need)
        r.check(
            entry is not None and bool(need) and need <= have,
            f'{c.qname}:entry-keys',
            where(c, entry),
            f'entry literal provides all {len(need)} keys chronicle.append requires',
            f'the entry handed to chronicle.append lacks {sorted(need - have)} (append raises TypeError and nothing is recorded)'
            if entry is not None
            else 'the argument of chronicle.append is not a dictionary literal',
        )
        r.instance()
        stores = {n.id for n in c.own_nodes() if isinstance(n, ast.Name) and isinstance(n.ctx, ast.Store)}
        missing = [k for k in ('status', 'target', 'runid', 'job') if k not in roles]
        rebound = [k for k in ('status', 'target', 'runid', 'job') if roles.get(k) in stores]
        notparam = [k for k in ('status', 'target', 'runid', 'job') if k in roles and roles[k] not in c.params()]
        r.check(
            not missing and not rebound and not notparam,
            f'{c.qname}:entry-values',
            where(c, entry),
            "entry['status'] = <status parameter>.name, target / runid / task taken from the unmodified parameters",
            f'the chronicle entry does not record the outcome of this run: not taken from a parameter {missing + notparam}, parameter rebound {rebound}',
        )
        # chronicle.append itself: every path that passes the key validation adds the entry to the list that is written out
        ent = a.params()[0]

        class Persist(Flow):
            """state = (name of the list the entry was appended to | None, that list was written with json.dump)"""

            def __init__(self):
                super().__init__()
                self.status_tests = []

            def on_test(self, e, st):
                for n in ast.walk(e):
                    if isinstance(n, ast.Subscript) and isinstance(n.value, ast.Name) and n.value.id == ent and is_const(n.slice, 'status'):
                        self.status_tests.append(e)
                return (st,), (st,)

            def on_stmt(self, s, st):
                # the list is rebound after the entry went in: the entry is lost again
                if isinstance(s, ast.Assign) and st[0] and any(isinstance(t, ast.Name) and t.id == st[0] for t in s.targets):
                    return ((None, False),)
                return (st,)

            def on_call(self, call, st):
                f = call.func
                if isinstance(f, ast.Attribute) and f.attr in ('append', 'insert') and isinstance(f.value, ast.Name):
                    if call.args and isinstance(call.args[-1], ast.Name) and call.args[-1].id == ent:
                        return ((f.value.id, False),)
                if (prog.resolve_in(f, a) or '') == 'external:json.dump' and call.args and st[0]:
                    if isinstance(call.args[0], ast.Name) and call.args[0].id == st[0]:
                        return ((st[0], True),)
                return (st,)

        pf = Persist()
        po = pf.run(a.node, (None, False))
        r.instance()
        pex = po.normal | po.ret
        r.check(
            bool(pex) and all(e[1] for e in pex) and not pf.status_tests,
            f'{a.qname}:persist',
            where(a),
            'every normal exit of chronicle.append has appended the entry to the journal list and written that list with json.dump',
            'chronicle.append can return without the entry having been appended to the journal list and dumped'
            + (f' (its behaviour depends on the status: {norm(pf.status_tests[0])})' if pf.status_tests else '')
            + ': a non-success outcome may leave no trace in the execution history',
        )
        # Hand._res hands the translated state, the reply's target and run id to those parameters
        g, msg, route, _exits = _res_facts(ctx)
        com = [v for v in route.sites.values() if v[1] == c.qname]
        for call, _q, _o, fr in com:
            r.instance()
            bad = []
            sa = _call_arg(c, call, roles.get('status', 'status'))
            if not (sa is not None and route.is_state_expr(sa, fr)):
                bad.append(f'status argument {norm(sa) if sa is not None else None} is not Hand._translate({msg}.success)')
            ra = _call_arg(c, call, roles.get('runid', 'runid'))
            if ra is None or fr.text(ra) != f'{msg}.runid':
                bad.append('run id argument is not the reply\'s run id')
            r.check(
                not bad,
                f'{fr.func.qname}:{norm(call)}',
                where(fr.func, call),
                'complete(job, msg.runid, target, timing, translated state)',
                '; '.join(bad),
            )


# ---------------------------------------------------------------------------


def _rule5(ctx, rep):
    """the reply reaches the routing (added after seeded change C05-8: the busy-list cleanup at the top of Hand._res became
    `while done in _busy: _busy.remove(done); del _time[done]`; for a unit listed twice the second pass raised KeyError
    before find / complete / purge ran and the failure was never recorded nor withdrawn)"""
    prog = ctx.prog
    f = prog.nfunc('dawgie.pl.farm.Hand._res')
    rep.analysed(f)
    with rep.rule(
        'R-C05-5',
        'in Hand._res nothing that can raise on its own input precedes the routing: before schedule.find is called, every `del <map>[k]`, `<map>[k]` read and `<list>.remove(k)` is dominated by a membership test of k in that container (or sits in a try that catches it)',
        floor=1,
        breaks='an exception in the book-keeping prologue discards the reply: the failed run is not recorded and its target is not withdrawn from the dependents',
    ) as r:
        class Pro(Flow):
            def __init__(s):
                super().__init__()
                s.bad = []

            @staticmethod
            def _fact(e):
                # k in X  /  0 < X.count(k)  /  X.count(k) > 0  ->  (X text, k text)
                if isinstance(e, ast.Compare) and len(e.ops) == 1:
                    a, b, op = e.left, e.comparators[0], e.ops[0]
                    if isinstance(op, ast.In):
                        return (norm(b), norm(a), True)
                    if isinstance(op, ast.NotIn):
                        return (norm(b), norm(a), False)
                    for x, y, strict in ((a, b, isinstance(op, ast.Gt)), (b, a, isinstance(op, ast.Lt))):
                        if strict and isinstance(y, ast.Constant) and y.value == 0 and isinstance(x, ast.Call) and isinstance(x.func, ast.Attribute) and x.func.attr == 'count' and x.args:
                            return (norm(x.func.value), norm(x.args[0]), True)
                return None

            def on_test(s, e, st):
                phase, facts = st
                fc = s._fact(e)
                if fc is not None:
                    yes = (phase, facts | {(fc[0], fc[1])})
                    return ((yes,), (st,)) if fc[2] else ((st,), (yes,))
                return (st,), (st,)

            def _need(s, node, cont, key, st):
                phase, facts = st
                if phase == 'pre' and not s._try and (norm(cont), norm(key)) not in facts:
                    s.bad.append(node)

            def on_stmt(s, node, st):
                if isinstance(node, ast.Delete):
                    for t in node.targets:
                        if isinstance(t, ast.Subscript):
                            s._need(node, t.value, t.slice, st)
                return (st,)

            def on_call(s, call, st):
                phase, facts = st
                if (prog.resolve_in(call.func, f) or '') == SCHED + '.find':
                    return (('routed', facts),)
                fn = call.func
                if isinstance(fn, ast.Attribute) and fn.attr in ('remove', 'index') and call.args and isinstance(fn.value, (ast.Name, ast.Attribute)):
                    s._need(call, fn.value, call.args[0], st)
                    # after a removal the membership is no longer known
                    return ((phase, frozenset(x for x in facts if x[0] != norm(fn.value))),)
                return (st,)

            def on_expr(s, e, st):
                if isinstance(e, ast.Subscript) and isinstance(e.ctx, ast.Load) and not isinstance(e.slice, ast.Slice) and isinstance(e.value, (ast.Name, ast.Attribute)) and not isinstance(e.slice, ast.Constant):
                    s._need(e, e.value, e.slice, st)
                return (st,)

        fl = Pro()
        fl.run(f.node, ('pre', frozenset()))
        if not any((prog.resolve_in(c.func, f) or '') == SCHED + '.find' for c in f.calls()):
            raise AnalysisError('Hand._res no longer calls schedule.find')
        r.instance()
        r.check(
            not fl.bad,
            f'{f.qname}:prologue-cannot-raise',
            where(f, fl.bad[0] if fl.bad else None),
            'every keyed delete / read / remove before the routing is membership-guarded',
            f'{f.qname}: {norm(fl.bad[0])[:60] if fl.bad else ""} before schedule.find is not guarded by a membership test: when the key is absent (a unit listed twice, a reply seen twice) the exception drops the reply',
        )


_MSG_FIELD = {'jid': 'jobid', 'rid': 'runid', 'tim': 'timing', 'target': 'target', 'inc': 'incarnation'}
# what a reply must carry of the unit it answers: parameter of message.make -> field of the task message it comes from
_REPLY_NEEDS = {'jid': 'jobid', 'rid': 'runid', 'tim': 'timing', 'inc': 'target'}


class _Identity(Flow):
    """which locals of a worker hold the received task message (all its fields) and which hold a message made in place
    (only the fields it was given, each traced back to the task message).  state: frozenset of (name, kind) with kind =
    ('task', overridden fields) | ('made', fields that carry the task's value)"""

    def __init__(self, prog, f):
        super().__init__()
        self.prog, self.f = prog, f
        self.replies = {}  # id(call) -> [call, {param: set of verdicts}]

    @staticmethod
    def _get(st, name):
        for k, v in st:
            if k == name:
                return v
        return None

    @staticmethod
    def _set(st, name, kind):
        out = {(k, v) for k, v in st if k != name}
        if kind is not None:
            out.add((name, kind))
        return frozenset(out)

    def _field_ok(self, e, st, want):
        """expression e is field `want` of the task message (directly or through a message made from it)"""
        if isinstance(e, ast.Attribute) and isinstance(e.value, ast.Name):
            k = self._get(st, e.value.id)
            if k is None:
                return False
            if k[0] == 'task':
                return e.attr == want and want not in k[1]
            if k[0] == 'made':
                return (e.attr, want) in k[1]
        return False

    def _kind(self, v, st):
        if isinstance(v, ast.Name):
            return self._get(st, v.id)
        if isinstance(v, ast.Call):
            sym = self.prog.callee(v, self.f) or ''
            if sym.endswith('message.receive') or sym.endswith('message.loads') or sym.endswith('pickle.loads'):
                return ('task', frozenset())
            if isinstance(v.func, ast.Attribute) and v.func.attr == '_replace' and isinstance(v.func.value, ast.Name):
                k = self._get(st, v.func.value.id)
                if k is not None and k[0] == 'task':
                    return ('task', k[1] | frozenset(kw.arg for kw in v.keywords if kw.arg))
            if sym == MAKE:
                ok = set()
                for kw in v.keywords:
                    fld = _MSG_FIELD.get(kw.arg)
                    if fld is None:
                        continue
                    for want in set(_MSG_FIELD.values()):
                        if self._field_ok(kw.value, st, want):
                            ok.add((fld, want))
                typ = next((kw.value for kw in v.keywords if kw.arg == 'typ'), None)
                return ('made', frozenset(ok), (self.prog.resolve_in(typ, self.f) if typ is not None else None) or '?')
        return None

    def on_test(self, e, st):
        # <made message>.type == / != <Type member>: a message made in place has the type it was given
        if isinstance(e, ast.Compare) and len(e.ops) == 1 and isinstance(e.ops[0], (ast.Eq, ast.NotEq, ast.Is, ast.IsNot)):
            for a, b in ((e.left, e.comparators[0]), (e.comparators[0], e.left)):
                if isinstance(a, ast.Attribute) and a.attr == 'type' and isinstance(a.value, ast.Name):
                    k = self._get(st, a.value.id)
                    want = self.prog.resolve_in(b, self.f) if isinstance(b, (ast.Name, ast.Attribute)) else None
                    if k is not None and k[0] == 'made' and k[2] != '?' and want:
                        same = k[2] == want
                        if isinstance(e.ops[0], (ast.NotEq, ast.IsNot)):
                            same = not same
                        return ((st,), ()) if same else ((), (st,))
        return (st,), (st,)

    def on_stmt(self, s, st):
        if isinstance(s, ast.Assign) and len(s.targets) == 1:
            t = s.targets[0]
            if isinstance(t, ast.Name):
                return (self._set(st, t.id, self._kind(s.value, st)),)
            if isinstance(t, (ast.Tuple, ast.List)) and isinstance(s.value, ast.Call):
                # iid, myid, job = sqs_pop(): the popped job is the task message
                sym = self.prog.callee(s.value, self.f) or ''
                for el in t.elts:
                    if isinstance(el, ast.Name):
                        st = self._set(st, el.id, ('task', frozenset()) if sym.endswith('sqs_pop') and el is t.elts[-1] else None)
                return (st,)
        return (st,)

    def on_call(self, call, st):
        if (self.prog.callee(call, self.f) or '') == MAKE:
            typ = next((k.value for k in call.keywords if k.arg == 'typ'), None)
            if typ is not None and (self.prog.resolve_in(typ, self.f) or '') == RESP:
                rec = self.replies.setdefault(id(call), [call, {}])
                for param, want in _REPLY_NEEDS.items():
                    arg = next((k.value for k in call.keywords if k.arg == param), None)
                    rec[1].setdefault(param, set()).add(arg is not None and self._field_ok(arg, st, want))
        return (st,)


def _rule6(ctx, rep):
    """added after seeded change C05-10: the cloud worker built its register message with message.make instead of
    job._replace(...); the invalid-data reply, which reads run id and timing from that local, then carried None and
    schedule.complete raised before anything was withdrawn or recorded"""
    prog = ctx.prog
    with rep.rule(
        'R-C05-6',
        "every reply a worker makes carries the job id, run id, timing record and target of the task message it answers (each argument is that field of the received message, directly or through a message made from it)",
        floor=6,
        breaks='the farm cannot apply the reply to the unit it belongs to: complete() raises or books another unit, the failed target is not withdrawn and nothing is recorded',
    ) as r:
        for q in ('dawgie.pl.worker.cluster.execute', 'dawgie.pl.worker.aws.execute'):
            f = prog.nfunc(q)
            rep.analysed(f)
            fl = _Identity(prog, f)
            fl.run(f.node, frozenset())
            seen = {}
            for _id, (call, verdicts) in sorted(fl.replies.items(), key=lambda kv: (kv[1][0].lineno, kv[1][0].col_offset)):
                r.instance()
                bad = sorted(p for p, vs in verdicts.items() if False in vs)
                suc = norm(next((k.value for k in call.keywords if k.arg == 'suc'), ast.Constant(value='?')))
                seen[suc] = seen.get(suc, 0) + 1
                r.check(
                    not bad,
                    f'{q}:reply[suc={suc}]#{seen[suc]}:identity',
                    where(f, call),
                    'job id, run id, timing and target are those of the received task',
                    f'the reply made here takes {", ".join(f"{p}=" + norm(next((k.value for k in call.keywords if k.arg == p), ast.Constant(value=None)))[:30] for p in bad)} from something that does not hold the '
                    f'{"/".join(_REPLY_NEEDS[p] for p in bad)} of the task message being answered (on some path)',
                )


def check(ctx):
    rep = Report(
        PID,
        ctx.tier,
        ctx.prog,
        'Decides from pl/farm.py, pl/schedule.py, pl/worker/{cluster,aws}.py, pl/message.py, pl/dag.py and pl/logger/chronicle.py: '
        '(1) the truth table of Hand._translate, the success flag each worker sends per outcome (exception-kind aware path analysis) '
        'and, by enumerating the three outcomes through Hand._res, that update is dominated by success and purge is called on every '
        'non-success reply with the completed job and target; (2) a path analysis of schedule.purge: every child handed on and the '
        'target withdrawn on every path, self edge skipped; (3) an effect analysis of purge, complete and every other callee of the '
        'non-success path against the frame; (4) complete must-reach chronicle.append with the translated state. '
        'Not decided: the run-time content of the sets, the induction over arrival orders, file-system effects of the chronicle.',
        assumptions=[
            'work sets are sets (set / fifo.Unique): remove/discard of an element leaves it absent',
            'Python picks the first matching except clause; NoValid*DataError derive from ValueError',
        ],
    )
    rep.not_decided = [
        'run-time content of the work sets and arrival order of replies (the frame is decided per function, not per history)',
        'cycles longer than a self edge in the algorithm tree',
        "a failed '__all__' (aspect) run is withdrawn as the literal '__all__' only; targets of dependent tasks are not",
        'exceptions raised inside complete / chronicle.append before purge is reached',
    ]
    setup = _purge_setup(ctx)
    _rule1(ctx, rep)
    _rule2(ctx, rep, setup)
    _rule3(ctx, rep, setup)
    _rule4(ctx, rep)
    _rule5(ctx, rep)
    _rule6(ctx, rep)
    from . import shared

    shared.borrow(ctx, rep, [
        ('c18', lambda m: m._rule_accepts(ctx, rep), 'the outcome of a failed run is recorded in the history only if the chronicle accepts the entry whatever the values of its fields'),
    ])
    return rep


_SCH, _FARM, _CL, _AWS = 'pl/schedule.py', 'pl/farm.py', 'pl/worker/cluster.py', 'pl/worker/aws.py'
_LOOP_FIXED = 'for child in filter(lambda c, n=node.tag: c.tag != n, node):'  # shape after pending fix C05-1
_ROUTE = (
    'if state == dawgie.pl.schedule.State.success:\n'
    '                dawgie.pl.farm.ARCHIVE |= any(msg.values)\n'
    '                dawgie.pl.schedule.update(msg.values, job, msg.runid)\n'
    '            else:\n'
    '                dawgie.pl.schedule.purge(job, inc)'
)
_PURGE_BODY_FIXED = (
    "executing = target in node.get('doing', [])  # its reply is still to come\n"
    "    if target in node.get('do', []):\n        node.get('do').remove(target)\n"
    "    if target in node.get('doing', []):\n        node.get('doing').remove(target)\n"
    "    if target in node.get('todo', []):\n        node.get('todo').remove(target)\n"
    "    if (\n        not executing\n        and node in que\n        and not (node.get('todo', []) or node.get('doing', []))\n    ):\n        que.remove(node)\n\n"
    "    # an algorithm that reads one of its own state vectors is its own child in\n"
    "    # the algorithm tree; skip that edge the same way Node.iter/locate do\n"
    "    " + _LOOP_FIXED + "\n        purge(child, target)\n    return"
)
_RES_TAIL = (
    "\n\n        except IndexError:\n            log.error('Could not find job with ID: %s', msg.jobid)\n        return\n\n"
    "    @staticmethod\n    def _translate(state):"
)
_SETTLE = (
    "    @staticmethod\n    def _settle(job, inc, state, msg):\n"
    "        dawgie.pl.schedule.complete(job, msg.runid, inc, msg.timing, state)\n"
    "        if state != dawgie.pl.schedule.State.success:\n            dawgie.pl.schedule.purge(job, inc)\n            %s\n"
    "        dawgie.pl.farm.ARCHIVE |= any(msg.values)\n        dawgie.pl.schedule.update(msg.values, job, msg.runid)\n        return\n\n"
)
_COMPLETE_CALL = 'dawgie.pl.schedule.complete(job, msg.runid, inc, msg.timing, state)\n\n            '

VARIANTS = [
    V('aws register message made from scratch', 'B', 'pl/worker/aws.py', 'execute', 'm = job._replace( type=dawgie.pl.message.Type.register, incarnation=inc, revision=rev )', 'm = dawgie.pl.message.make(typ=dawgie.pl.message.Type.register, inc=inc, jid=job.jobid, rev=rev, target=job.target)', 'R-C05-6'),
    V('cluster failure reply carries the job id as run id', 'B', 'pl/worker/cluster.py', 'execute', 'rid=m.runid,', 'rid=m.jobid,', 'R-C05-6', occurrence=1),
    V('aws register message made from scratch with run id and timing', 'N', 'pl/worker/aws.py', 'execute', 'm = job._replace( type=dawgie.pl.message.Type.register, incarnation=inc, revision=rev )', 'm = dawgie.pl.message.make(typ=dawgie.pl.message.Type.register, inc=inc, jid=job.jobid, rev=rev, target=job.target, rid=job.runid, tim=job.timing)', None),

    V('busy cleanup deletes the timing unguarded', 'B', _FARM, 'Hand._res', 'if done in _time:\n                del _time[done]', 'del _time[done]', 'R-C05-5'),
    V('busy cleanup with membership loop', 'N', _FARM, 'Hand._res', 'while 0 < _busy.count(done):', 'while done in _busy:', None),
    V('cluster worker catch-all narrowed to Exception', 'B', _CL, 'execute', 'except:  # noqa: E722', 'except Exception:', 'R-C05-1'),
    V('aws worker catch-all named BaseException', 'N', _AWS, 'execute', 'except:  # noqa: E722', 'except BaseException:', None),
    # ---------------------------------------------------------------- breaking
    V('purge returns after the first child', 'B', _SCH, 'purge', 'purge(child, target)\n    return', 'purge(child, target)\n        return\n    return', 'R-C05-2'),
    V('purge skips children with nothing pending', 'B', _SCH, 'purge', 'purge(child, target)', "if child.get('todo'):\n            purge(child, target)", 'R-C05-2'),
    V('purge no longer withdraws from todo', 'B', _SCH, 'purge', "if target in node.get('todo', []):\n        node.get('todo').remove(target)", 'pass', 'R-C05-2'),
    V('self-edge filter removed again', 'B', _SCH, 'purge', _LOOP_FIXED, 'for child in node:', 'R-C05-2'),
    V('purge clears the whole todo set', 'B', _SCH, 'purge', "node.get('todo').remove(target)", "node.get('todo').clear()", 'R-C05-3'),
    V('purge removes the target from the parents too', 'B', _SCH, 'purge', 'purge(child, target)\n    return', "purge(child, target)\n    for p in node.get('parents'):\n        p.get('todo').discard(target)\n    return", 'R-C05-3'),
    V('purge prunes the queue when only todo is empty', 'B', _SCH, 'purge', "not (node.get('todo', []) or node.get('doing', []))", "not node.get('todo', [])", 'R-C05-3'),
    V('complete clears doing for any target', 'B', _SCH, 'complete', "if target == '__all__':", 'if target:', 'R-C05-3'),
    V('complete drops the pending work of the job', 'B', _SCH, 'complete', "job.get('doing').remove(target)", "job.get('doing').remove(target)\n        job.get('todo').clear()", 'R-C05-3'),
    V('non-success branch reschedules the job', 'B', _FARM, 'Hand._res', 'dawgie.pl.schedule.purge(job, inc)', 'dawgie.pl.schedule.purge(job, inc)\n                dawgie.pl.schedule.organize([job.tag], msg.runid, {inc})', 'R-C05-3'),
    V('update moved out of the success branch', 'B', _FARM, 'Hand._res', _ROUTE, _ROUTE.replace('dawgie.pl.schedule.update(msg.values, job, msg.runid)\n', 'pass\n') + '\n            dawgie.pl.schedule.update(msg.values, job, msg.runid)', 'R-C05-1'),
    V('purge only for failure, not for invalid data', 'B', _FARM, 'Hand._res', 'else:\n                dawgie.pl.schedule.purge(job, inc)', 'elif state == dawgie.pl.schedule.State.failure:\n                dawgie.pl.schedule.purge(job, inc)', 'R-C05-1'),
    V('purge on every outcome', 'B', _FARM, 'Hand._res', 'else:\n                dawgie.pl.schedule.purge(job, inc)', 'dawgie.pl.schedule.purge(job, inc)', 'R-C05-1'),
    V('purge applied to all targets', 'B', _FARM, 'Hand._res', 'dawgie.pl.schedule.purge(job, inc)', "dawgie.pl.schedule.purge(job, '__all__')", 'R-C05-1'),
    V('_translate(None) gives failure', 'B', _FARM, 'Hand._translate', 'return dawgie.pl.schedule.State.invalid', 'return dawgie.pl.schedule.State.failure', 'R-C05-1'),
    V('_translate success for anything but None', 'B', _FARM, 'Hand._translate', 'if state:', 'if state is not None:', 'R-C05-1'),
    V('cluster worker sends False for invalid data', 'B', _CL, 'execute', 'suc=None,', 'suc=False,', 'R-C05-1'),
    V('cluster worker no longer singles out NoValidOutputDataError', 'B', _CL, 'execute', 'except (dawgie.NoValidInputDataError, dawgie.NoValidOutputDataError):', 'except dawgie.NoValidInputDataError:', 'R-C05-1'),
    V('aws worker sends None after an exception', 'B', _AWS, 'execute', 'suc=False,', 'suc=None,', 'R-C05-1'),
    V('aws worker catches ValueError before the NoValid handler', 'B', _AWS, 'execute', 'except (\n                dawgie.NoValidInputDataError,\n                dawgie.NoValidOutputDataError,\n            ):', 'except ValueError:\n                m = dawgie.pl.message.make(typ=dawgie.pl.message.Type.response, inc=job.target, jid=job.jobid, rid=job.runid, suc=False, tim=job.timing)\n            except (\n                dawgie.NoValidInputDataError,\n                dawgie.NoValidOutputDataError,\n            ):', 'R-C05-1'),
    V('message.make drops the flag', 'B', 'pl/message.py', 'make', 'success=suc,', 'success=None,', 'R-C05-1'),
    V('complete skips the chronicle for failures', 'B', _SCH, 'complete', 'dawgie.pl.logger.chronicle.append(', 'if status != State.failure: dawgie.pl.logger.chronicle.append(', 'R-C05-4'),
    V('complete returns early when the job leaves the queue', 'B', _SCH, 'complete', "job.set('status', State.waiting)\n        pass", "job.set('status', State.waiting)\n        return", 'R-C05-4'),
    V('chronicle entry records a constant status', 'B', _SCH, 'complete', "'status': status.name,", "'status': State.failure.name,", 'R-C05-4'),
    V('chronicle entry lacks the version key', 'B', _SCH, 'complete', "'version': job.get('alg').asstring(),", '', 'R-C05-4'),
    V('raw flag handed to complete', 'B', _FARM, 'Hand._res', 'dawgie.pl.schedule.complete(job, msg.runid, inc, msg.timing, state)', 'dawgie.pl.schedule.complete(job, msg.runid, inc, msg.timing, dawgie.pl.schedule.State.success)', 'R-C05-4'),
    V('routing helper Hand._settle falls through to update on failure', 'B', _FARM, None, _COMPLETE_CALL + _ROUTE + _RES_TAIL, 'Hand._settle(job, inc, state, msg)' + _RES_TAIL.replace('    @staticmethod\n    def _translate(state):', _SETTLE % 'pass' + '    @staticmethod\n    def _translate(state):'), 'R-C05-1'),
    V('chronicle.append keeps only successful runs', 'B', 'pl/logger/chronicle.py', 'append', 'entries.append(entry)', "if entry['status'] == 'success':\n        entries.append(entry)", 'R-C05-4'),
    V('chronicle.append does not write the journal when it already exists', 'B', 'pl/logger/chronicle.py', 'append', "entries.append(entry)\n    with open(journal, 'tw', encoding='utf-8') as file:\n        json.dump(entries, file, indent=2)", "entries.append(entry)\n    if len(entries) == 1:\n        with open(journal, 'tw', encoding='utf-8') as file:\n            json.dump(entries, file, indent=2)", 'R-C05-4'),
    V('reply ignored when the target is no longer in doing', 'B', _FARM, 'Hand._res', 'dawgie.pl.schedule.complete(job, msg.runid, inc, msg.timing, state)', "if inc not in job.get('doing'):\n                log.warning('Ignoring response for %s: not in flight', done)\n                return\n            dawgie.pl.schedule.complete(job, msg.runid, inc, msg.timing, state)", 'R-C05-1'),
    V('complete only for targets still in doing (nested form)', 'B', _FARM, 'Hand._res', 'dawgie.pl.schedule.complete(job, msg.runid, inc, msg.timing, state)', "if inc in job.get('doing'):\n                dawgie.pl.schedule.complete(job, msg.runid, inc, msg.timing, state)", 'R-C05-1'),
    V('keyed withdrawal helper never called for todo', 'B', _SCH, 'purge', "if target in node.get('do', []):\n        node.get('do').remove(target)\n    if target in node.get('doing', []):\n        node.get('doing').remove(target)\n    if target in node.get('todo', []):\n        node.get('todo').remove(target)", "def _drop(n, key, t):\n        members = n.get(key, [])\n        if t in members:\n            members.remove(t)\n\n    _drop(node, 'do', target)\n    _drop(node, 'doing', target)\n    _drop(node, 'do', target)", 'R-C05-2'),
    # ------------------------------------------------------------------ benign
    V('withdrawal through a helper keyed by a constant parameter', 'N', _SCH, 'purge', "if target in node.get('do', []):\n        node.get('do').remove(target)\n    if target in node.get('doing', []):\n        node.get('doing').remove(target)\n    if target in node.get('todo', []):\n        node.get('todo').remove(target)", "def _drop(n, key, t):\n        members = n.get(key, [])\n        if t in members:\n            members.remove(t)\n\n    _drop(node, 'do', target)\n    _drop(node, 'doing', target)\n    _drop(node, 'todo', target)", None),
    V('chronicle.append with the list renamed', 'N', 'pl/logger/chronicle.py', 'append', 'entries', 'records', None, 'all'),
    V('routing extracted into Hand._settle with an early return', 'N', _FARM, None, _COMPLETE_CALL + _ROUTE + _RES_TAIL, 'Hand._settle(job, inc, state, msg)' + _RES_TAIL.replace('    @staticmethod\n    def _translate(state):', _SETTLE % 'return' + '    @staticmethod\n    def _translate(state):'), None),
    V('rename loop variable and lambda parameter', 'N', _SCH, 'purge', _LOOP_FIXED + '\n        purge(child, target)', 'for kid in filter(lambda k, me=node.tag: k.tag != me, node):\n        purge(kid, target)', None),
    V('self edge skipped by a guard inside the loop', 'N', _SCH, 'purge', _LOOP_FIXED + '\n        purge(child, target)', 'for child in list(node):\n        if child.tag == node.tag:\n            continue\n        purge(child, target)', None),
    V(
        'iterative purge with an explicit stack',
        'N',
        _SCH,
        'purge',
        _PURGE_BODY_FIXED,
        "stack = [node]\n    while stack:\n        n = stack.pop()\n        executing = target in n.get('doing', [])\n        for k in ('do', 'doing', 'todo'):\n            if target in n.get(k, []):\n"
        "                n.get(k).remove(target)\n        if not executing and n in que and not (n.get('todo', []) or n.get('doing', [])):\n            que.remove(n)\n"
        "        stack.extend(filter(lambda c, me=n.tag: c.tag != me, n))\n    return",
        None,
    ),
    V(
        'withdrawal extracted into a helper',
        'N',
        _SCH,
        'purge',
        "if target in node.get('do', []):\n        node.get('do').remove(target)\n    if target in node.get('doing', []):\n        node.get('doing').remove(target)\n"
        "    if target in node.get('todo', []):\n        node.get('todo').remove(target)",
        "def _withdraw(n, t):\n        for k in ('do', 'doing', 'todo'):\n            if t in n.get(k, []):\n                n.get(k).remove(t)\n\n    _withdraw(node, target)",
        None,
    ),
    V('discard instead of test and remove', 'N', _SCH, 'purge', "if target in node.get('todo', []):\n        node.get('todo').remove(target)", "node.get('todo').discard(target)", None),
    V('work set read through a local', 'N', _SCH, 'purge', "if target in node.get('todo', []):\n        node.get('todo').remove(target)", "pending = node.get('todo', [])\n    if target in pending:\n        pending.remove(target)", None),
    V('remove guarded by try/except instead of a membership test', 'N', _SCH, 'purge', "if target in node.get('todo', []):\n        node.get('todo').remove(target)", "try:\n        node.get('todo').remove(target)\n    except KeyError:\n        pass", None),
    V('purge raises for an unknown node', 'B', _SCH, 'purge', "if target in node.get('do', []):", "if node.get('todo') is None:\n        raise ValueError(node.tag)\n    if target in node.get('do', []):", 'R-C05-2'),
    V('logging added to purge', 'N', _SCH, 'purge', "if target in node.get('do', []):", "log.debug('purge %s from %s', target, node.tag)\n    if target in node.get('do', []):", None),
    V('queue pruning with len()', 'N', _SCH, 'purge', "not (node.get('todo', []) or node.get('doing', []))", "len(node.get('todo', [])) == 0 and not node.get('doing', [])", None),
    V('routing with the branches swapped', 'N', _FARM, 'Hand._res', _ROUTE, 'if state != dawgie.pl.schedule.State.success:\n                dawgie.pl.schedule.purge(job, inc)\n            else:\n                dawgie.pl.farm.ARCHIVE |= any(msg.values)\n                dawgie.pl.schedule.update(msg.values, job, msg.runid)', None),
    V('routing on the raw flag', 'N', _FARM, 'Hand._res', 'if state == dawgie.pl.schedule.State.success:', 'if msg.success:', None),
    V('target expression written with or', 'N', _FARM, 'Hand._res', "inc = msg.incarnation if msg.incarnation else '__all__'", "inc = msg.incarnation or '__all__'", None),
    V('_translate with a result variable', 'N', _FARM, 'Hand._translate', 'if state is None:\n            return dawgie.pl.schedule.State.invalid\n        if state:\n            return dawgie.pl.schedule.State.success\n        return dawgie.pl.schedule.State.failure', 'result = dawgie.pl.schedule.State.failure\n        if state is None:\n            result = dawgie.pl.schedule.State.invalid\n        elif state:\n            result = dawgie.pl.schedule.State.success\n        return result', None),
    V('_translate tests not-None first', 'N', _FARM, 'Hand._translate', 'if state is None:\n            return dawgie.pl.schedule.State.invalid\n        if state:\n            return dawgie.pl.schedule.State.success\n        return dawgie.pl.schedule.State.failure', 'if state is not None:\n            return dawgie.pl.schedule.State.success if state else dawgie.pl.schedule.State.failure\n        return dawgie.pl.schedule.State.invalid', None),
    V('cluster worker omits the default flag for invalid data', 'N', _CL, 'execute', 'suc=None,', '', None),
    V(
        'complete builds the entry in a local',
        'N',
        _SCH,
        'complete',
        "dawgie.pl.logger.chronicle.append(\n        {\n            'changeset': dawgie.context.git_rev,\n            'runid': runid,\n            'status': status.name,\n"
        "            'target': target,\n            'task': job.tag,\n            'timing': timing,\n            'version': job.get('alg').asstring(),\n        }\n    )",
        "entry = {\n        'changeset': dawgie.context.git_rev,\n        'runid': runid,\n        'status': status.name,\n        'target': target,\n"
        "        'task': job.tag,\n        'timing': timing,\n        'version': job.get('alg').asstring(),\n    }\n    dawgie.pl.logger.chronicle.append(entry)",
        None,
    ),
]
