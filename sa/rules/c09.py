"""C09  The derived task graph is faithful to the declared dependencies.

How the rules work.  ``dag.Construct.__init__`` (with every ``Construct`` / ``Node`` / ``util.refs`` function it
calls inlined, parameters bound to the caller's argument *terms*) is executed by a symbolic interpreter built on
``Flow``.  Values are structural terms (``('attr', base, name)``, ``('call', f, args, kws)``, ``('elem', iterable)``
for a loop variable, ...), locals are part of the path state (so copies, renames, tuple unpacking, helper extraction
and merged/parametrised helpers all evaluate to the same terms), and every collection operation / store / test that
matters is remembered as a *path tag* that is scoped to the loop iteration in which it happened.  The rules are then
pattern matches over those facts: "at the end of every iteration over ``as_vref(<inputs of A>)`` the path contains
``flat[parent-name(ref)].add(flat[child-name(A ...)])``" and so on.  Nothing is looked up by a local variable name or
by the name of a private helper; only the anchors of the property record are named.
"""

import ast

from .. import AnalysisError
from ..flow import Flow
from ..report import Report
from ..util import where, norm
from ..variants import V
from . import shared

PID = 'C09'

DAG = 'dawgie.pl.dag'
CONSTRUCT = DAG + '.Construct'
NODE = DAG + '.Node'
REFS = 'dawgie.util.refs'
AS_VREF = REFS + '.as_vref'
TASK_NAME = 'dawgie.util.names.task_name'
REGION = (DAG, REFS)  # functions of these modules are inlined (effects) when called from an analysed root
TRIM_FN = CONSTRUCT + '.trim'  # the anchored trimming function: kept symbolic, its body is checked once on its own

# architecture table: which element class a factory kind creates (dawgie.Task.routines() -> [Algorithm], ...) and the
# reference kinds; the *accessor* each class declares its inputs with is derived from the class definitions.
KIND_CLASS = {'task': 'dawgie.Algorithm', 'analysis': 'dawgie.Analyzer', 'regress': 'dawgie.Regression'}
ACCESSORS = ('previous', 'traits', 'variables')
REF_LEVELS = ('dawgie.V_REF', 'dawgie.SV_REF', 'dawgie.ALG_REF')

GROW = ('add', 'append', 'insert', 'extend', 'update', 'set', '__ior__', 'setdefault', 'appendleft')
NODE_INSERT = ('add', 'append', 'insert', 'extend')  # xml Element child insertion API (+ Node.add)
KEEP_ON_RETURN = ('op', 'store', 'yield', 'loop-done', 'test', 'handler')  # path facts a helper hands back to its caller

# ---------------------------------------------------------------------------
# terms


def T_const(v):
    return ('const', v)


def is_const(t, v=None):
    return t[0] == 'const' and (v is None or (t[1] == v and type(t[1]) is type(v)))


def T_call(f, args=(), kws=()):
    return ('call', f, tuple(args), tuple(kws))


def T_attr(b, n):
    return ('attr', b, n)


def T_sym(q):
    return ('sym', q)


def T_elem(it):
    """an element of the iterable ``it`` (the value of a loop variable)"""
    while True:
        if it[0] == 'coll' and len(it[1]) == 1:
            (v, guards), = it[1]
            # element of a local list that only ever received v (under the recorded tests)
            return ('pick', v, guards) if guards else v
        if it[0] == 'comp' and it[1] in ('list', 'set', 'gen') and len(it[3]) == 1 and it[3][0][1] and it[2] == T_elem(it[3][0][0]):
            # [c for c in X if p(c) if q(c)]: an element of X that satisfies the predicates
            x = it[2]
            for pred in it[3][0][1]:
                x = ('sel', x, pred)
            return x
        if it[0] == 'comp' and it[1] in ('list', 'set', 'gen') and all(not ifs for _i, ifs in it[3]):
            return it[2]  # every element of the comprehension has the form of its element expression
        if (
            it[0] == 'call'
            and it[1][0] == 'sym'
            and it[1][1] in ('external:list', 'external:tuple', 'external:sorted', 'external:iter', 'external:set', 'external:frozenset')
            and len(it[2]) == 1
            and not it[3]
        ):
            it = it[2][0]  # same elements
            continue
        m = mcall(it)
        if m and m[1] == 'copy' and not m[2] and not m[3]:
            it = m[0]
            continue
        if it[0] == 'call' and it[1] == ('sym', 'external:filter') and len(it[2]) == 2 and not it[3] and it[2][0][0] == 'lambda' and it[2][0][1] == 1:
            x = T_elem(it[2][1])
            return ('sel', x, subst(it[2][0][2], {('lp', 0): x}))  # an element of the iterable that satisfies the predicate
        return ('elem', it)


def subst(t, mapping):
    """replace sub-terms"""
    if not isinstance(t, tuple):
        return t
    if t in mapping:
        return mapping[t]
    return tuple(subst(x, mapping) for x in t)


def mcall(t):
    """method call term -> (receiver, name, args, kws)"""
    if t and t[0] == 'call' and t[1][0] == 'attr':
        return t[1][1], t[1][2], t[2], t[3]
    return None


def subterms(t):
    """every nested tuple that looks like a term (non-empty, tagged by a string)"""
    if isinstance(t, tuple):
        if t and isinstance(t[0], str):
            yield t
        for x in t:
            if isinstance(x, tuple):
                yield from subterms(x)


def tsize(t, cap=600):
    n = 0
    for _ in subterms(t):
        n += 1
        if n > cap:
            break
    return n


def show(t, depth=0):
    """compact rendering of a term for messages"""
    if not isinstance(t, tuple) or not t:
        return repr(t)
    if depth > 6:
        return '...'
    k = t[0]
    if k == 'const':
        return repr(t[1])
    if k == 'sym':
        return t[1].replace('external:', '')
    if k == 'self':
        return 'self'
    if k == 'param':
        return t[2]
    if k == 'attr':
        return f'{show(t[1], depth + 1)}.{t[2]}'
    if k == 'call':
        a = [show(x, depth + 1) for x in t[2]] + [f'{n}={show(v, depth + 1)}' for n, v in t[3]]
        return f'{show(t[1], depth + 1)}({", ".join(a)})'
    if k == 'sub':
        return f'{show(t[1], depth + 1)}[{show(t[2], depth + 1)}]'
    if k == 'elem':
        return f'<each of {show(t[1], depth + 1)}>'
    if k == 'slice':
        return ':'.join('' if x is None else show(x, depth + 1) for x in t[1:])
    if k == 'binop':
        return f'({show(t[2], depth + 1)} {t[1]} {show(t[3], depth + 1)})'
    if k == 'comp':
        return f'<{t[1]} comprehension of {show(t[2], depth + 1)}>'
    if k == 'kv':
        return f'{show(t[1], depth + 1)}: {show(t[2], depth + 1)}'
    if k in ('list', 'tuple', 'set'):
        return '[' + ', '.join(show(x, depth + 1) for x in t[1]) + ']'
    if k in ('pick', 'sel'):
        return show(t[1], depth + 1)
    if k == 'cmp':
        return f'({show(t[2], depth + 1)} {t[1]} {show(t[3], depth + 1)})'
    if k == 'not':
        return f'not {show(t[1], depth + 1)}'
    if k == 'top':
        return f'?{t[1]}'
    return f'<{k}>'


class Scope:
    """pure evaluation of expressions of one function activation to terms"""

    def __init__(self, world, func, env, stack):
        self.w = world
        self.f = func
        self.env = env
        self.stack = stack

    def bind_target(self, target, val, loc):
        if isinstance(target, ast.Name):
            loc[target.id] = val
        elif isinstance(target, (ast.Tuple, ast.List)):
            items = val[1] if val[0] in ('tuple', 'list') and len(val[1]) == len(target.elts) else None
            for i, el in enumerate(target.elts):
                if isinstance(el, ast.Starred):
                    self.bind_target(el.value, ('top', 'starred'), loc)
                else:
                    self.bind_target(el, items[i] if items is not None else ('sub', val, T_const(i)), loc)

    def term(self, e, loc):
        # pylint: disable=too-many-return-statements,too-many-branches
        prog = self.w.prog
        if e is None:
            return None
        if isinstance(e, ast.Constant):
            try:
                hash(e.value)
            except TypeError:
                return ('top', 'const')
            return T_const(e.value)
        if isinstance(e, ast.Name):
            if e.id in loc:
                return loc[e.id]
            if e.id in self.env:
                return self.env[e.id]
            r = prog.resolve_in(e, self.f)
            if r is None or r.startswith('local:'):
                return ('top', 'unbound:' + e.id)
            return T_sym(r)
        if isinstance(e, ast.Attribute):
            parts = prog.dotted(e)
            if parts and parts[0] not in loc and parts[0] not in self.env:
                r = prog.resolve_in(e, self.f)
                if r and not r.startswith('local:'):
                    return T_sym(r)
            return self.w.mk_attr(self.term(e.value, loc), e.attr)
        if isinstance(e, ast.Call):
            f = self.term(e.func, loc)
            args = tuple(('star', self.term(a.value, loc)) if isinstance(a, ast.Starred) else self.term(a, loc) for a in e.args)
            kws = tuple(sorted(((k.arg or '**'), self.term(k.value, loc)) for k in e.keywords))
            if f == T_sym('external:getattr') and len(args) == 2 and not kws and args[1][0] == 'const' and isinstance(args[1][1], str):
                return self.w.mk_attr(args[0], args[1][1])
            return self.w.mk_call(f, args, kws, self)
        if isinstance(e, ast.Subscript):
            b = self.term(e.value, loc)
            if isinstance(e.slice, ast.Slice):
                s = e.slice
                return ('sub', b, ('slice', self.term(s.lower, loc), self.term(s.upper, loc), self.term(s.step, loc)))
            return ('sub', b, self.term(e.slice, loc))
        if isinstance(e, (ast.ListComp, ast.SetComp, ast.GeneratorExp, ast.DictComp)):
            loc2 = dict(loc)
            gens = []
            for g in e.generators:
                it = self.term(g.iter, loc2)
                self.bind_target(g.target, T_elem(it), loc2)
                gens.append((it, tuple(self.term(c, loc2) for c in g.ifs)))
            if isinstance(e, ast.DictComp):
                elt = ('kv', self.term(e.key, loc2), self.term(e.value, loc2))
                kind = 'dict'
            else:
                elt = self.term(e.elt, loc2)
                kind = {'ListComp': 'list', 'SetComp': 'set', 'GeneratorExp': 'gen'}[type(e).__name__]
            return ('comp', kind, elt, tuple(gens))
        if isinstance(e, (ast.Tuple, ast.List, ast.Set)):
            return ({'Tuple': 'tuple', 'List': 'list', 'Set': 'set'}[type(e).__name__], tuple(self.term(x, loc) for x in e.elts))
        if isinstance(e, ast.Dict):
            return ('dict', tuple((self.term(k, loc) if k is not None else ('top', '**'), self.term(v, loc)) for k, v in zip(e.keys, e.values)))
        if isinstance(e, ast.BoolOp):
            return ('bool', 'and' if isinstance(e.op, ast.And) else 'or', tuple(self.term(v, loc) for v in e.values))
        if isinstance(e, ast.UnaryOp):
            v = self.term(e.operand, loc)
            if isinstance(e.op, ast.Not):
                return ('not', v)
            if isinstance(e.op, ast.USub) and v[0] == 'const' and isinstance(v[1], (int, float)):
                return T_const(-v[1])
            return ('unop', type(e.op).__name__, v)
        if isinstance(e, ast.Compare):
            if len(e.ops) == 1:
                return norm_cmp(type(e.ops[0]).__name__, self.term(e.left, loc), self.term(e.comparators[0], loc))
            return ('cmpchain', tuple(type(o).__name__ for o in e.ops), tuple(self.term(x, loc) for x in [e.left] + e.comparators))
        if isinstance(e, ast.BinOp):
            return ('binop', type(e.op).__name__, self.term(e.left, loc), self.term(e.right, loc))
        if isinstance(e, ast.IfExp):
            return ('ifexp', self.term(e.test, loc), self.term(e.body, loc), self.term(e.orelse, loc))
        if isinstance(e, ast.JoinedStr):
            parts = []
            for v in e.values:
                if isinstance(v, ast.Constant):
                    parts.append(T_const(v.value))
                elif isinstance(v, ast.FormattedValue) and v.conversion == -1 and v.format_spec is None:
                    parts.append(self.term(v.value, loc))
                else:
                    parts.append(('top', 'formatted'))
            return ('fstr', tuple(parts))
        if isinstance(e, ast.NamedExpr):
            return self.term(e.value, loc)
        if isinstance(e, ast.Lambda):
            a = e.args
            if a.vararg or a.kwarg or a.kwonlyargs or a.posonlyargs:
                return ('lambda', -1, ('top', norm(e)))
            loc2 = dict(loc)
            nfree = len(a.args) - len(a.defaults)
            for i, x in enumerate(a.args):
                loc2[x.arg] = ('lp', i) if i < nfree else self.term(a.defaults[i - nfree], loc)
            return ('lambda', nfree, self.term(e.body, loc2))  # parameters with defaults are bound to them (the k=known idiom)
        if isinstance(e, ast.Starred):
            return ('star', self.term(e.value, loc))
        return ('top', type(e).__name__)


_FLIP = {'Lt': 'Gt', 'Gt': 'Lt', 'LtE': 'GtE', 'GtE': 'LtE', 'Eq': 'Eq', 'NotEq': 'NotEq'}


def norm_cmp(op, left, right):
    """canonical membership: L.count(x) == 0 / < 1  ->  x not in L;  L.count(x) > 0 / != 0 / >= 1, 0 < L.count(x)  ->  x in L"""
    if op in _FLIP and left[0] == 'const' and right[0] != 'const':
        op, left, right = _FLIP[op], right, left
    m = mcall(left)
    if m and m[1] == 'count' and len(m[2]) == 1 and not m[3] and right[0] == 'const' and right[1] in (0, 1) and type(right[1]) is int:
        n = right[1]
        verdict = {('Eq', 0): 'NotIn', ('LtE', 0): 'NotIn', ('Lt', 1): 'NotIn', ('NotEq', 0): 'In', ('Gt', 0): 'In', ('GtE', 1): 'In'}.get((op, n))
        if verdict:
            return ('cmp', verdict, m[2][0], m[0])
    return ('cmp', op, left, right)


def single_return(func):
    """the returned expression of a function whose body (docstring aside) is one return statement"""
    body = [s for s in func.node.body if not (isinstance(s, ast.Expr) and isinstance(s.value, ast.Constant))]
    if len(body) == 1 and isinstance(body[0], ast.Return) and body[0].value is not None:
        return body[0].value
    return None


def is_generator(func):
    return any(isinstance(n, (ast.Yield, ast.YieldFrom)) for n in func.own_nodes())


class Event:
    __slots__ = ('kind', 'func', 'node', 'data', 'tags', 'ctx', 'env')

    def __init__(self, kind, func, node, data, tags, ctx, env):
        self.kind = kind
        self.func = func
        self.node = node
        self.data = data
        self.tags = tags
        self.ctx = ctx
        self.env = env

    @property
    def where(self):
        return where(self.func, self.node)


class World:
    """shared facts of one analysis: event log, namedtuple table, test folding oracle"""

    def __init__(self, prog, fold=None):
        self.prog = prog
        self.events = []
        self.fold = fold
        self.funcs = {}
        self.steps = 0
        self.namedtuples = {}
        m = prog.modules.get('dawgie')
        if m is not None:
            for name, vals in m.globals.items():
                for v in vals:
                    if (
                        isinstance(v, ast.Call)
                        and prog.resolve_expr(v.func, m) == 'external:collections.namedtuple'
                        and len(v.args) == 2
                        and isinstance(v.args[1], (ast.List, ast.Tuple))
                        and all(isinstance(x, ast.Constant) for x in v.args[1].elts)
                    ):
                        self.namedtuples['dawgie.' + name] = tuple(x.value for x in v.args[1].elts)

    # ------------------------------------------------------------ term makers
    def mk_attr(self, base, name):
        if base[0] == 'call' and base[1][0] == 'sym' and base[1][1] in self.namedtuples and not base[2]:
            for k, v in base[3]:
                if k == name:
                    return v  # projection of a namedtuple construction
        return T_attr(base, name)

    def callee_func(self, f):
        """-> (Func, self term or None) for a callee term"""
        prog = self.prog
        if f[0] == 'sym':
            q = f[1]
            if q in prog.funcs:
                return prog.funcs[q], None
            return None, None
        if f[0] == 'attr' and f[1][0] == 'self':
            m = prog.method(f[1][1], f[2])
            if m is not None and not m.is_property():
                return m, f[1]
        return None, None

    @staticmethod
    def bind(callee, selft, args, kws, scope):
        params = list(callee.params())
        a = callee.node.args
        if a.vararg or a.kwarg or any(x[0] == 'star' for x in args) or any(k == '**' for k, _v in kws):
            return None
        env = {}
        if callee.cls is not None and callee.parent is None and not callee.is_staticmethod():
            if selft is not None:
                env[params[0]] = selft
                params = params[1:]
            # unbound call Class.method(obj, ...): the first argument is the receiver
        if len(args) > len(params):
            return None
        for p, v in zip(params, args):
            env[p] = v
        for k, v in kws:
            if k not in params or k in env:
                return None
            env[k] = v
        pos = a.posonlyargs + a.args
        defaults = dict(zip([x.arg for x in pos[len(pos) - len(a.defaults):]], a.defaults))
        defaults.update({x.arg: d for x, d in zip(a.kwonlyargs, a.kw_defaults) if d is not None})
        for p in params:
            if p not in env:
                d = defaults.get(p)
                env[p] = T_const(d.value) if isinstance(d, ast.Constant) else ('param', callee.qname, p)
        return env

    def mk_call(self, f, args, kws, scope):
        if f[0] == 'sym' and f[1] in self.namedtuples:
            fields = self.namedtuples[f[1]]
            if len(args) <= len(fields) and not any(x[0] == 'star' for x in args):
                d = dict(zip(fields, args))
                d.update(dict(kws))
                return T_call(f, (), tuple(sorted(d.items())))
        callee, selft = self.callee_func(f)
        if callee is not None and callee.qname == TRIM_FN:
            return T_call(T_sym(TRIM_FN), args, kws)  # self.trim(..) / Construct.trim(..): same static function
        if callee is not None and callee.qname == TASK_NAME:
            return T_call(T_sym(TASK_NAME), args, kws)  # anchored naming function: kept symbolic whatever its body looks like
        if callee is not None and callee.qname not in scope.stack and len(scope.stack) < 8 and callee.module.name.startswith('dawgie'):
            rv = single_return(callee)
            if rv is not None:
                env = self.bind(callee, selft, args, kws, scope)
                if env is not None:
                    return Scope(self, callee, env, scope.stack + (callee.qname,)).term(rv, {})
            elif callee.module.name in REGION and not is_generator(callee) and callee.qname != CONSTRUCT + '._trim_trees':
                # (_trim_trees is an anchor of the property record: R-C09-4 reads `at = _trim_trees(2)` symbolically and checks its body once)
                env = self.bind(callee, selft, args, kws, scope)
                if env is not None:
                    sm = self.summary(callee, env, scope.stack)
                    if sm is not None:
                        return sm
        return T_call(f, args, kws)

    def summary(self, callee, env, stack):
        """value returned by a multi-statement helper: it is executed symbolically on its own; usable when every return
        gives the same term (an empty collection being subsumed by the filled one) and every loop that fills a local
        collection does so on every path of every iteration and never stops early"""
        key = (callee.qname, frozenset(env.items()))
        cache = self.__dict__.setdefault('_summaries', {})
        if key in cache:
            return cache[key]
        cache[key] = None
        w = World(self.prog, fold=self.fold)
        w.namedtuples = self.namedtuples
        it = Interp(w, callee, env, stack + (callee.qname,), ())
        out = it.run(callee.node, (frozenset(), frozenset()))
        if out.normal:
            return None  # may fall off the end
        fills = lambda e: any(t[0] == 'op' and t[1] in ('append', 'add') and local_collection(t[2]) for t in e.data['new'])
        loops = {}
        for e in w.events:
            if e.func is callee and e.kind in ('iter_end', 'loop_broken'):
                loops.setdefault(e.data['lid'], []).append(e)
        for evs in loops.values():
            if any(fills(e) for e in evs) and not all(e.kind == 'iter_end' and fills(e) for e in evs):
                return None
        rets = {e.data['value'] for e in w.events if e.kind == 'ret' and e.func is callee}
        if any(r[0] == 'coll' for r in rets):
            rets = {r for r in rets if r not in (('list', ()), ('set', ()), T_call(T_sym('external:set')), T_call(T_sym('external:list')))}
        if len(rets) == 1:
            cache[key] = next(iter(rets))
        return cache[key]

    # ------------------------------------------------------------------- runs
    def default_env(self, func):
        env = {}
        params = func.params()
        for i, p in enumerate(params):
            if i == 0 and func.cls is not None and func.parent is None and not func.is_staticmethod():
                env[p] = ('self', func.cls.qname)
            else:
                env[p] = ('param', func.qname, p)
        return env

    def run_root(self, func, env=None, tags=frozenset()):
        """interpret a function as an analysis root; -> list of (exit tags, exit kind)"""
        e = self.default_env(func)
        e.update(env or {})
        it = Interp(self, func, e, (func.qname,), ())
        self.funcs[func.qname] = func
        out = it.run(func.node, (frozenset(), tags))
        res = []
        for kind, sts in (('fallthrough', out.normal), ('return', out.ret)):
            for st in sts:
                tg = it.close_loops(st[1], func.node)
                self.events.append(Event('fn_exit', func, func.node, {'exit': kind, 'root': True}, tg, (), e))
                res.append((tg, kind))
        self.steps += it.visited
        return res


def truth_core(t):
    """strip truthiness wrappers: bool(x), len(x), len(x) > 0, len(x) == 0, not x  ->  (x, polarity)"""
    positive = True
    while True:
        if t[0] == 'not':
            t, positive = t[1], not positive
            continue
        if t[0] == 'call' and t[1] in (T_sym('external:bool'), T_sym('external:len')) and len(t[2]) == 1 and not t[3]:
            t = t[2][0]
            continue
        if t[0] == 'cmp' and is_const(t[3], 0) and t[2][0] == 'call' and t[2][1] == T_sym('external:len') and len(t[2][2]) == 1:
            if t[1] in ('Gt', 'NotEq'):
                t = t[2][2][0]
                continue
            if t[1] in ('Eq', 'LtE'):
                t, positive = t[2][2][0], not positive
                continue
        return t, positive


def interesting_test(t):
    """tests whose outcome is remembered on the path (kept few: every remembered test doubles the path set)"""
    if t[0] == 'cmp' and t[1] in ('In', 'NotIn'):
        return True
    if t[0] == 'cmp' and t[1] in ('Is', 'IsNot', 'Eq', 'NotEq') and is_const(t[3]) and t[3][1] is None and get_call(t[2]):
        return True  # <table>.get(key) is None
    if t[0] == 'cmp' and t[1] in ('Eq', 'NotEq') and all(x[0] == 'call' and x[1] == T_sym(TRIM_FN) for x in t[2:4]):
        return True  # "same algorithm / same task?" comparisons of trimmed names
    if t[0] == 'cmp' and t[1] in ('Eq', 'NotEq') and any(x[0] == 'attr' and x[2] == 'tag' for x in t[2:4]):
        return True  # "is it this node?" comparisons of node tags
    m = mcall(t)
    if m and not m[2] and not m[3]:  # zero-argument method call used as a condition: "does A declare inputs?"
        return True
    return False


class Interp(Flow):
    """symbolic execution of one function activation; state = (frozenset of (local, term), frozenset of path tags)"""

    def __init__(self, world, func, env, stack, ctx):
        super().__init__()
        self.w = world
        self.f = func
        self.env = env
        self.stack = stack
        self.ctx = ctx
        self.scope = Scope(world, func, env, stack)

    # ----------------------------------------------------------------- helpers
    @staticmethod
    def loc(st):
        return dict(st[0])

    @staticmethod
    def with_loc(st, loc):
        return (frozenset(loc.items()), st[1])

    def term(self, e, st):
        return self.scope.term(e, dict(st[0]))

    def emit(self, kind, node, data, tags):
        self.w.events.append(Event(kind, self.f, node, data, tags, self.ctx, self.env))

    def lid(self, node):
        return (self.f.qname, self.ctx, node.lineno, node.col_offset)

    @staticmethod
    def _in_tag(tags, lid):
        for t in tags:
            if t[0] == 'in' and t[1] == lid:
                return t
        return None

    def close_loops(self, tags, fnode):
        """a state leaves the function from inside a loop (return in a loop body): the loop stopped early"""
        tags = frozenset(tags)
        while True:
            mine = [t for t in tags if t[0] == 'in' and t[1][0] == self.f.qname and t[1][1] == self.ctx]
            if not mine:
                return tags
            # innermost first: the one whose entry tags contain the others
            mine.sort(key=lambda t: -len(t[3]))
            t = mine[0]
            self.emit('loop_broken', fnode, {'lid': t[1], 'elem': t[2], 'how': 'return', 'new': tags - t[3] - {t}}, tags)
            tags = frozenset(x for x in tags if x[0] in KEEP_ON_RETURN) | t[3]

    # ------------------------------------------------------------------- hooks
    def on_stmt(self, s, st):
        if isinstance(s, (ast.Assign, ast.AnnAssign)) and s.value is not None:
            v = self.term(s.value, st)
            targets = s.targets if isinstance(s, ast.Assign) else [s.target]
            for t in targets:
                st = self.assign(t, v, st, s)
        elif isinstance(s, ast.AugAssign):
            v = self.term(s.value, st)
            if isinstance(s.target, ast.Name):
                loc = self.loc(st)
                old = loc.get(s.target.id, ('top', 'unbound:' + s.target.id))
                new = ('binop', type(s.op).__name__, old, v)
                loc[s.target.id] = new if tsize(new) < 300 else ('top', 'grows')
                st = self.with_loc(st, loc)
            else:
                st = self.assign(s.target, ('binop', type(s.op).__name__, self.term(s.target, st), v), st, s, aug=True)
        return (st,)

    def assign(self, t, v, st, stmt, aug=False):
        if isinstance(t, (ast.Name, ast.Tuple, ast.List)):
            loc = self.loc(st)
            self.scope.bind_target(t, v, loc)
            return self.with_loc(st, loc)
        if isinstance(t, ast.Attribute):
            base, key, kind = self.term(t.value, st), T_const(t.attr), 'attr'
        elif isinstance(t, ast.Subscript):
            base, key, kind = self.term(t.value, st), self.term(t.slice, st), 'item'
        else:
            return st
        tag = ('store', kind, base, key, v)
        tags = st[1] | {tag}
        self.emit('store', stmt, {'kind': kind, 'base': base, 'key': key, 'value': v, 'aug': aug}, tags)
        return (st[0], tags)

    def on_with(self, item, st):
        if item.optional_vars is not None:
            loc = self.loc(st)
            self.scope.bind_target(item.optional_vars, self.term(item.context_expr, st), loc)
            st = self.with_loc(st, loc)
        return (st,)

    def on_for(self, node, st):
        lid = self.lid(node)
        tags = st[1]
        t = self._in_tag(tags, lid)
        if t is not None:  # coming round again: the previous iteration ended here
            self.emit('iter_end', node, {'lid': lid, 'elem': t[2], 'new': tags - t[3] - {t}}, tags)
            entry = t[3]
        else:
            entry = tags
        el = T_elem(self.term(node.iter, st))
        loc = self.loc(st)
        self.scope.bind_target(node.target, el, loc)
        return ((frozenset(loc.items()), entry | {('in', lid, el, entry)}),)

    def on_for_done(self, node, st):
        lid = self.lid(node)
        tags = st[1]
        t = self._in_tag(tags, lid)
        if t is not None:
            self.emit('iter_end', node, {'lid': lid, 'elem': t[2], 'new': tags - t[3] - {t}}, tags)
            el, entry = t[2], t[3]
        else:
            el, entry = T_elem(self.term(node.iter, st)), tags
        self.emit('loop_done', node, {'lid': lid, 'elem': el}, entry)
        return ((st[0], entry | {('loop-done', lid, el)}),)

    def _s_For(self, s, states):
        out = super()._s_For(s, states)
        lid = self.lid(s)
        fixed = set()
        for st in out.normal:
            t = self._in_tag(st[1], lid)
            if t is not None:  # left through break
                self.emit('loop_broken', s, {'lid': lid, 'elem': t[2], 'how': 'break', 'new': st[1] - t[3] - {t}}, st[1])
                st = (st[0], t[3] | {x for x in st[1] if x[0] in KEEP_ON_RETURN})
            fixed.add(st)
        out.normal = fixed
        return out

    def on_test(self, e, st):
        t, positive = truth_core(self.term(e, st))
        if not positive:
            tr, fa = self._test(t, st)
            return fa, tr
        return self._test(t, st)

    def _test(self, t, st):
        v = None
        if t[0] == 'const':
            v = bool(t[1])
        elif t[0] == 'cmp' and t[2][0] == 'const' and t[3][0] == 'const':
            try:
                a, b = t[2][1], t[3][1]
                v = {'Eq': a == b, 'NotEq': a != b, 'Lt': a < b, 'LtE': a <= b, 'Gt': a > b, 'GtE': a >= b, 'Is': a is b, 'IsNot': a is not b}.get(t[1])
            except TypeError:
                v = None
        if v is None and self.w.fold is not None:
            v = self.w.fold(t)
        if v is True:
            return (st,), ()
        if v is False:
            return (), (st,)
        if interesting_test(t):
            return ((st[0], st[1] | {('test', t, True)}),), ((st[0], st[1] | {('test', t, False)}),)
        return (st,), (st,)

    def _s_Try(self, s, states):
        self._try_bodies = getattr(self, '_try_bodies', {})
        for h in s.handlers:
            self._try_bodies[id(h)] = s.body
        return super()._s_Try(s, states)

    def on_handler(self, h, st):
        names = [norm(h.type)] if h.type is not None and not isinstance(h.type, ast.Tuple) else ([norm(x) for x in h.type.elts] if h.type is not None else ['*'])
        body = getattr(self, '_try_bodies', {}).get(id(h), [])
        subs = frozenset(self.term(n, st) for b in body for n in ast.walk(b) if isinstance(n, ast.Subscript) and isinstance(n.ctx, ast.Load))
        out = st
        for n in names:
            out = (out[0], out[1] | {('handler', n.rsplit('.', 1)[-1], subs)})
        return (out,)

    def on_return(self, node, st):
        self.emit('ret', node, {'value': self.term(node.value, st) if node.value is not None else T_const(None)}, st[1])
        return (st,)

    def on_expr(self, e, st):
        if isinstance(e, (ast.Yield, ast.YieldFrom)):
            kind = 'from' if isinstance(e, ast.YieldFrom) else 'one'
            v = self.term(e.value, st) if e.value is not None else T_const(None)
            tags = st[1] | {('yield', kind, v)}
            self.emit('yield', e, {'kind': kind, 'value': v}, tags)
            return ((st[0], tags),)
        return (st,)

    def on_call(self, call, st):
        f = self.term(call.func, st)
        args = tuple(('star', self.term(a.value, st)) if isinstance(a, ast.Starred) else self.term(a, st) for a in call.args)
        kws = tuple(sorted(((k.arg or '**'), self.term(k.value, st)) for k in call.keywords))
        tags = st[1]
        if f[0] == 'attr' and f[2] in GROW:
            tags = tags | {('op', f[2], f[1], args)}
        self.emit('call', call, {'f': f, 'args': args, 'kws': kws}, tags)
        st = (st[0], tags)
        # content of a local list/set that is filled element by element: remember what was put in, and under which tests
        if (
            f[0] == 'attr'
            and f[2] in ('append', 'add')
            and len(args) == 1
            and not kws
            and isinstance(call.func.value, ast.Name)
            and (f[1] in (('list', ()), ('set', ()), T_call(T_sym('external:set')), T_call(T_sym('external:list'))) or f[1][0] == 'coll')
        ):
            loc = self.loc(st)
            if loc.get(call.func.value.id) == f[1]:
                old = f[1][1] if f[1][0] == 'coll' else frozenset()
                entry = (args[0], frozenset(t for t in tags if t[0] == 'test'))
                loc[call.func.value.id] = ('coll', frozenset(old | {entry})) if len(old) < 8 else ('top', 'collection')
                st = self.with_loc(st, loc)
        callee, selft = self.w.callee_func(f)
        if (
            callee is None
            or callee.module.name not in REGION
            or callee.qname in self.stack
            or len(self.stack) >= 6
            or is_generator(callee)
        ):
            return (st,)
        env = self.w.bind(callee, selft, args, kws, self.scope)
        if env is None:
            return (st,)
        self.w.funcs[callee.qname] = callee
        ctx2 = self.ctx + ((self.f.qname, norm(call)),)
        # the same activation (call site, arguments, path facts) is met again in every round of the enclosing loop
        # fix-points: its events are already in the log, only the resulting path facts are needed
        ck = (callee.qname, ctx2, frozenset(env.items()), tags)
        cache = self.w.__dict__.setdefault('_inlined', {})
        kept = cache.get(ck)
        if kept is None:
            sub = Interp(self.w, callee, env, self.stack + (callee.qname,), ctx2)
            out = sub.run(callee.node, (frozenset(), tags))
            self.visited += sub.visited
            kept = set()
            for kind, sts in (('fallthrough', out.normal), ('return', out.ret)):
                for s2 in sts:
                    tg = sub.close_loops(s2[1], callee.node)
                    self.w.events.append(Event('fn_exit', callee, callee.node, {'exit': kind, 'root': False}, tg, sub.ctx, env))
                    kept.add(frozenset(x for x in tg if x[0] in KEEP_ON_RETURN))
            cache[ck] = kept
        res = {(st[0], tags | k) for k in kept}
        return res or (st,)

    # comprehension variables are visible to the calls inside the comprehension
    def eval(self, e, states):
        if isinstance(e, (ast.ListComp, ast.SetComp, ast.GeneratorExp, ast.DictComp)) and states:
            cur = set(states)
            names = []
            for g in e.generators:
                cur = super().eval(g.iter, cur)
                new = set()
                for st in cur:
                    loc = self.loc(st)
                    tmp = {}
                    self.scope.bind_target(g.target, T_elem(self.term(g.iter, st)), tmp)
                    for n, v in tmp.items():
                        loc['%saved:' + n] = loc.get(n, ('top', 'none'))
                        loc[n] = v
                        names.append(n)
                    new.add(self.with_loc(st, loc))
                cur = new
                for c in g.ifs:
                    t, f = self.cond(c, cur)
                    cur = t | f
            if isinstance(e, ast.DictComp):
                cur = self.eval(e.value, self.eval(e.key, cur))
            else:
                cur = self.eval(e.elt, cur)
            out = set()
            for st in cur:
                loc = self.loc(st)
                for n in reversed(names):
                    sv = loc.pop('%saved:' + n, None)
                    if sv is None:
                        continue
                    if sv == ('top', 'none'):
                        loc.pop(n, None)
                    else:
                        loc[n] = sv
                out.add(self.with_loc(st, loc))
            return self._cap(out)
        return super().eval(e, states)


# ---------------------------------------------------------------------------
# name shapes and graph facts


def dotted_fields(t):
    """fields of a '.'-separated composite name: '.'.join([...]) / f'{a}.{b}' / a + '.' + b  -> list of field terms"""
    m = mcall(t)
    if m and is_const(m[0], '.') and m[1] == 'join' and len(m[2]) == 1 and not m[3] and m[2][0][0] in ('list', 'tuple'):
        return list(m[2][0][1])
    parts = None
    if t[0] == 'fstr':
        parts = list(t[1])
    elif t[0] == 'binop' and t[1] == 'Add':
        parts = []

        def flat(x):
            if x[0] == 'binop' and x[1] == 'Add':
                flat(x[2])
                flat(x[3])
            else:
                parts.append(x)

        flat(t)
    if parts is None or len(parts) % 2 == 0:
        return None
    if all(is_const(p, '.') for p in parts[1::2]) and not any(p[0] == 'const' for p in parts[0::2]):
        return parts[0::2]
    return None


def alg_info(A):
    """A is an algorithm of the tree walk: <each of bot.routines()> with bot = F(task_name(F), ...) and F <each of
    factories[dawgie.Factories.<kind>]>  ->  dict(kind, bot, factory) or None"""
    if A[0] != 'elem':
        return None
    m = mcall(A[1])
    if not m or m[1] != 'routines' or m[2] or m[3]:
        return None
    bot = m[0]
    if bot[0] != 'call' or bot[1][0] != 'elem':
        return None
    F = bot[1]
    FS = F[1]
    if not (FS[0] == 'sub' and FS[1][0] == 'param' and FS[2][0] == 'sym' and FS[2][1].startswith('dawgie.Factories.')):
        return None
    named = bool(bot[2]) and bot[2][0] == T_call(T_sym(TASK_NAME), (F,))
    return {'kind': FS[2][1].rsplit('.', 1)[1], 'bot': bot, 'factory': F, 'bot_named_after_factory': named}


def child_name(key):
    """key is the value-level name of a node produced by the tree walk -> (A, info) else None"""
    fs = dotted_fields(key)
    if not fs or len(fs) != 4:
        return None
    m = mcall(fs[1])
    if not m or m[1] != 'name' or m[2] or m[3]:
        return None
    A = m[0]
    info = alg_info(A)
    if info is None:
        return None
    SV = T_elem(T_call(T_attr(A, 'state_vectors')))
    f0ok = fs[0] == T_call(T_sym(TASK_NAME), (info['factory'],)) or (
        fs[0] == T_call(T_attr(info['bot'], '_name')) and info['bot_named_after_factory']
    )
    if f0ok and fs[2] == T_call(T_attr(SV, 'name')) and fs[3] == T_elem(SV):
        return A, info
    return None


def value_name_fields(R):
    """the four fields of the full name of the value a V_REF term R points to"""
    return [
        T_call(T_sym(TASK_NAME), (T_attr(R, 'factory'),)),
        T_call(T_attr(T_attr(R, 'impl'), 'name')),
        T_call(T_attr(T_attr(R, 'item'), 'name')),
        T_attr(R, 'feat'),
    ]


def ref_loop(el):
    """el is <each of as_vref(X)> -> X"""
    if el[0] == 'elem' and el[1][0] == 'call' and el[1][1] == T_sym(AS_VREF) and len(el[1][2]) == 1 and not el[1][3]:
        return el[1][2][0]
    return None


def get_call(t):
    """<x>.get(<key>) with any key term -> (x, key)"""
    m = mcall(t)
    if m and m[1] == 'get' and len(m[2]) == 1 and not m[3]:
        return m[0], m[2][0]
    return None


def get_attrkey(t):
    """<x>.get('k'[, d]) -> (x, 'k')"""
    m = mcall(t)
    if m and m[1] == 'get' and m[2] and m[2][0][0] == 'const' and isinstance(m[2][0][1], str):
        return m[0], m[2][0][1]
    return None


def local_collection(t):
    """a collection created locally: set() / [] / {} / list(...) / comprehension / copy"""
    if t[0] in ('list', 'set', 'tuple', 'dict', 'comp', 'coll'):
        return True
    if t[0] == 'call' and t[1][0] == 'sym' and t[1][1] in ('external:set', 'external:list', 'external:dict', 'external:frozenset'):
        return True
    return False


def fresh_set(t):
    return t == T_call(T_sym('external:set'))


_FBD = {}


def feedback_derived(t):
    """the term is computed from an algorithm's feedback() declaration or from a node's 'feedback' attribute"""
    hit = _FBD.get(id(t))
    if hit is not None and hit[0] is t:
        return hit[1]
    r = _feedback_derived(t)
    _FBD[id(t)] = (t, r)
    return r


def _feedback_derived(t):
    """recursive with a per-node cache: sub-terms are shared between the terms of one analysis"""
    if not isinstance(t, tuple) or not t:
        return False
    hit = _FBD.get(id(t))
    if hit is not None and hit[0] is t:
        return hit[1]
    r = False
    if isinstance(t[0], str):
        m = mcall(t) if t[0] == 'call' else None
        if m and m[1] == 'feedback' and not m[2] and not m[3]:
            r = True
        else:
            gk = get_attrkey(t) if t[0] == 'call' else None
            r = bool(gk and gk[1] == 'feedback')
    if not r:
        for x in t:
            if isinstance(x, tuple) and _feedback_derived(x):
                r = True
                break
    _FBD[id(t)] = (t, r)
    return r


class Facts:
    """the run over Construct.__init__ plus the roles discovered in it"""

    def __init__(self, ctx):
        prog = ctx.prog
        self.prog = prog
        self.init = prog.func(CONSTRUCT + '.__init__')
        self.w = World(prog)
        self.w.run_root(self.init)
        ev = self.w.events
        self.SELF = ('self', CONSTRUCT)
        # FLAT: the attribute of self into which Node(<key>, ...) is stored under <key>
        cands = set()
        for e in ev:
            if e.kind == 'store' and e.data['kind'] == 'item':
                v = e.data['value']
                if v[0] == 'call' and v[1] == T_sym(NODE) and v[2] and v[2][0] == e.data['key'] and e.data['base'][0] == 'attr' and e.data['base'][1] == self.SELF:
                    cands.add(e.data['base'])
        if len(cands) != 1:
            raise AnalysisError(f'cannot identify the value-level node table of dag.Construct (candidates: {sorted(show(c) for c in cands)})')
        self.FLAT = cands.pop()
        # ROOTS: attribute of self that receives .add(FLAT[<child>])
        rc = set()
        for e in ev:
            if e.kind == 'call':
                f, a = e.data['f'], e.data['args']
                if f[0] == 'attr' and f[2] in ('add', 'append') and f[1][0] == 'attr' and f[1][1] == self.SELF and f[1] != self.FLAT and len(a) == 1:
                    if self.node_key(a[0]) is not None:
                        rc.add(f[1])
        if len(rc) != 1:
            raise AnalysisError(f'cannot identify the root set of dag.Construct (candidates: {sorted(show(c) for c in rc)})')
        self.ROOTS = rc.pop()

    def node_key(self, t):
        """t denotes the value-level node named <key>: FLAT[key] or a Node(key, ...) construction"""
        if t[0] == 'sub' and t[1] == self.FLAT:
            return t[2]
        if t[0] == 'call' and t[1] == T_sym(NODE) and t[2]:
            return t[2][0]
        return None

    def flat_node(self, t):
        """t ranges over the nodes of FLAT (a loop variable over its values/items, or a subscript)"""
        if t[0] == 'sub' and t[1] == self.FLAT:
            return True
        if t[0] == 'elem':
            m = mcall(t[1])
            return bool(m and m[0] == self.FLAT and m[1] == 'values' and not m[2])
        if t[0] == 'sub' and t[1][0] == 'elem' and is_const(t[2], 1):
            m = mcall(t[1][1])
            return bool(m and m[0] == self.FLAT and m[1] == 'items' and not m[2])
        return False

    def all_flat_nodes(self, t):
        """t is a loop variable that ranges over *every* node of FLAT"""
        if t[0] == 'elem':
            m = mcall(t[1])
            return bool(m and m[0] == self.FLAT and m[1] == 'values' and not m[2])
        if t[0] == 'sub' and t[1][0] == 'elem' and is_const(t[2], 1):
            m = mcall(t[1][1])
            return bool(m and m[0] == self.FLAT and m[1] == 'items' and not m[2])
        if t[0] == 'sub' and t[1] == self.FLAT and t[2][0] == 'elem':
            it = t[2][1]
            m = mcall(it)
            return it == self.FLAT or bool(m and m[0] == self.FLAT and m[1] == 'keys' and not m[2])
        return False

    def creations(self, e):
        """value-level nodes created in the iteration that ended with event e -> (key, Node(...) term, guarded by absence?)"""
        for t in e.data['new']:
            if t[0] == 'store' and t[1] == 'item' and t[2] == self.FLAT and t[4][0] == 'call' and t[4][1] == T_sym(NODE) and t[4][2]:
                yield t[3], t[4], self.absent_test(e.tags, t[3]) is True
            # accepted idiom: FLAT.setdefault(key, Node(key, ...)) -- creates only when absent
            if t[0] == 'op' and t[1] == 'setdefault' and t[2] == self.FLAT and len(t[3]) == 2 and t[3][1][0] == 'call' and t[3][1][1] == T_sym(NODE) and t[3][1][2]:
                yield t[3][0], t[3][1], True

    def tested_keys(self, tags):
        """keys whose presence in FLAT was tested on the path"""
        out = set()
        for t in tags:
            if t[0] == 'test' and t[1][0] == 'cmp':
                gc = get_call(t[1][2])
                out.add(gc[1] if gc and gc[0] == self.FLAT else t[1][2])
        return {k for k in out if self.absent_test(tags, k) is not None}

    def absent_test(self, tags, key):
        """the path established that <key> is not yet in FLAT: True / False (known present) / None (not tested)"""
        tables = (self.FLAT, T_call(T_attr(self.FLAT, 'keys')), T_call(T_sym('external:list'), (self.FLAT,)), T_call(T_sym('external:set'), (self.FLAT,)))
        for t in tags:
            if t[0] == 'handler' and t[1] == 'KeyError' and any(x[0] == 'sub' and x[1] == self.FLAT and x[2] == key for x in t[2]):
                return True  # accepted idiom: try: FLAT[key] ... except KeyError: create
            if t[0] != 'test' or t[1][0] != 'cmp':
                continue
            c = t[1]
            if c[2] == key and c[3] in tables:
                if c[1] == 'NotIn':
                    return t[2]
                if c[1] == 'In':
                    return not t[2]
            gc = get_call(c[2])
            if gc and gc[0] == self.FLAT and gc[1] == key and is_const(c[3]) and c[3][1] is None:  # FLAT.get(key) is None
                if c[1] in ('Is', 'Eq'):
                    return t[2]
                if c[1] in ('IsNot', 'NotEq'):
                    return not t[2]
        return None


def declared_accessors(prog):
    """element class -> the input accessor(s) it declares (methods among previous/traits/variables)"""
    out = {}
    for kind, cq in KIND_CLASS.items():
        c = prog.cls(cq)
        out[kind] = sorted(a for a in ACCESSORS if a in c.methods)
    return out


def attrib_of(node_ctor):
    """Node(name, attrib={...}) -> dict key -> term, or None"""
    for k, v in node_ctor[3]:
        if k == 'attrib' and v[0] == 'dict':
            d = {}
            for kk, vv in v[1]:
                if kk[0] != 'const':
                    return None
                d[kk[1]] = vv
            return d
    if len(node_ctor[2]) >= 2 and node_ctor[2][1][0] == 'dict':
        return {kk[1]: vv for kk, vv in node_ctor[2][1][1] if kk[0] == 'const'}
    return None


def check_attrib(ctor, alg, factory):
    """problems of a value-level Node construction (the attributes the rest of the builder relies on)"""
    d = attrib_of(ctor)
    if d is None:
        return ['attrib is not a literal dict']
    bad = []
    for k in ('parents', 'ancestry', 'feedback'):
        if k not in d:
            bad.append(f"no '{k}' attribute")
        elif not fresh_set(d[k]):
            bad.append(f"'{k}' is not a fresh empty set() ({show(d[k])})")
    if d.get('alg') != alg:
        bad.append(f"'alg' is {show(d.get('alg', ('top', 'missing')))}, expected {show(alg)}")
    if d.get('factory') != factory:
        bad.append(f"'factory' is {show(d.get('factory', ('top', 'missing')))}, expected {show(factory)}")
    return bad


# ---------------------------------------------------------------------------
# R-C09-1


def rule1(ctx, rep, fx):
    # pylint: disable=too-many-locals,too-many-branches,too-many-statements
    prog = ctx.prog
    ev = fx.w.events
    with rep.rule(
        'R-C09-1',
        'edge insertion: for each factory kind the tree walk visits every value of every algorithm, registers it as a root iff the '
        "algorithm declares no inputs, and for every as_vref(<the kind's declared inputs>) reference adds the child node under the "
        'node named (task_name(factory), impl.name(), item.name(), feat); accessor table agrees with the element classes and schedule._priors',
        floor=26,
        breaks='a declared input gets no edge / a reversed edge / an edge from the wrong accessor: the scheduler releases a consumer before its producer (C01-C05 rest on this graph)',
    ) as r:
        r.note("value-level edges: Element.append is accepted next to Node.add (a duplicate child does not change the edge set); at the trimmed levels (R-C09-4) Node.add is required")
        r.note('bot._name() is trusted to return the name the bot was constructed with (task_name(factory)); pl/scan.py (factory discovery) is not analysed')
        decl = declared_accessors(prog)
        table = {}
        for kind, accs in decl.items():
            r.instance()
            r.check(
                len(accs) == 1,
                f'{KIND_CLASS[kind]}:declared-input-accessor',
                where(prog.cls(KIND_CLASS[kind]).methods[accs[0]]) if accs else '',
                f'{KIND_CLASS[kind]} declares its inputs with {accs[0] if accs else None}()',
                f'{KIND_CLASS[kind]} declares {accs} among previous/traits/variables; exactly one input accessor expected',
                nontrivial=False,
            )
            table[kind] = accs[0] if len(accs) == 1 else None
        r.extra['accessor_table'] = dict(table)

        # ---- every reference loop reached from Construct.__init__
        per_kind = {k: {'builder': [], 'value': []} for k in KIND_CLASS}
        unknown = {}
        for e in ev:
            if e.kind not in ('iter_end', 'loop_broken'):
                continue
            el = e.data['elem']
            inp = ref_loop(el)
            if inp is not None:
                m = mcall(inp)
                info = alg_info(m[0]) if m and not m[2] and not m[3] else None
                if info is not None and info['kind'] in per_kind:
                    per_kind[info['kind']]['builder'].append((e, m[0], m[1], info))
                    continue
                if m and m[1] == 'feedback':
                    continue  # R-C09-2
                unknown[f'{e.func.qname}:{norm(e.node.iter) if isinstance(e.node, ast.For) else "loop"}'] = e
                continue
            # the value loop of the tree walk: <each of SV> with SV <each of A.state_vectors()>
            if el[0] == 'elem' and el[1][0] == 'elem':
                m = mcall(el[1][1])
                if m and m[1] == 'state_vectors' and not m[2] and not m[3]:
                    info = alg_info(m[0])
                    if info is not None and info['kind'] in per_kind:
                        per_kind[info['kind']]['value'].append((e, m[0], info))
        for key, e in sorted(unknown.items()):
            r.instance()
            r.fail(key, e.where, f'loop over as_vref({show(ref_loop(e.data["elem"]))}) reached from Construct.__init__ is neither the input loop of a tree-walk algorithm nor the feedback loop: not understood')

        facts_out = {}
        for kind in sorted(per_kind):
            bl, vl = per_kind[kind]['builder'], per_kind[kind]['value']
            exp = table[kind]
            cname = f'{CONSTRUCT}[{kind}]'
            if not vl:
                r.instance()
                r.fail(f'{cname}:tree-walk', where(fx.init), f'no walk over the values of the {kind} algorithms (factories[dawgie.Factories.{kind}] -> routines() -> state_vectors() -> keys) was found in Construct.__init__')
                continue
            if not bl:
                r.instance()
                r.fail(f'{cname}:inputs', vl[0][0].where, f'no loop over as_vref(<inputs of the {kind} algorithm>) is reached from the tree walk: no edges are built for this kind')
                continue
            bfun = sorted({e.func.qname for e, *_ in bl})
            facts_out[kind] = {'builder': bfun, 'inputs': sorted({acc for _e, _a, acc, _i in bl})}

            # (a) accessor of the inputs
            r.instance()
            accs = sorted({acc for _e, _a, acc, _i in bl})
            e0 = bl[0][0]
            r.check(
                accs == [exp],
                f'{e0.func.qname}:inputs[{kind}]',
                e0.where,
                f'{kind}: edges come from as_vref(<alg>.{exp}()) -- the accessor {KIND_CLASS[kind]} declares',
                f'{kind}: edges are built from <alg>.{"/".join(accs)}() but {KIND_CLASS[kind]} declares its inputs with {exp}()',
            )

            # (b) every reference: parent.add(child), never reversed, nothing else inserted
            r.instance()
            problems = []
            good_paths = 0
            pc_problems = []
            for e, A, _acc, info in bl:
                if e.kind == 'loop_broken':
                    problems.append((e, f'the reference loop can stop early ({e.data["how"]}): later references get no edge'))
                    continue
                R = e.data['elem']
                pfields = value_name_fields(R)
                good = False
                for t in e.data['new']:
                    if t[0] != 'op' or t[1] not in NODE_INSERT:
                        continue
                    rk = fx.node_key(t[2])
                    aks = [fx.node_key(a) for a in t[3]]
                    if rk is None and not any(k is not None for k in aks):
                        continue  # not an operation on value-level nodes
                    rrole = _role(rk, pfields, A)
                    arole = _role(aks[0], pfields, A) if len(aks) == 1 else 'other'
                    if rrole == 'parent' and arole == 'child' and t[1] in ('add', 'append'):
                        good = True
                    elif rrole == 'child' and arole == 'parent':
                        problems.append((e, f'edge reversed: the node of the *consumer* receives the referenced value as its child ({show(t[2])}.{t[1]}({show(t[3][0])}))'))
                    else:
                        problems.append((e, f'node insertion {show(t[2])}.{t[1]}({", ".join(show(a) for a in t[3])}) is not parent(task_name(ref.factory), ref.impl.name(), ref.item.name(), ref.feat).add(child): receiver is {rrole}, argument is {arole}'))
                if good:
                    good_paths += 1
                elif not any(p[0] is e for p in problems):
                    problems.append((e, 'a path through the reference loop body adds no parent -> child edge for the reference'))
                # (c) parent node: exists or is created under the not-in test, with the attributes of the referenced algorithm
                pkey_created = False
                for ckey, ctor, guarded in fx.creations(e):
                    if dotted_fields(ckey) == pfields:
                        pkey_created = True
                        if not guarded:
                            pc_problems.append((e, 'the referenced node is (re)created without testing that it is absent: an existing node and its edges are replaced'))
                        if ctor[2][0] != ckey:
                            pc_problems.append((e, f'node stored under {show(ckey)} is named {show(ctor[2][0])}'))
                        for b in check_attrib(ctor, T_attr(R, 'impl'), T_attr(R, 'factory')):
                            pc_problems.append((e, f'node created for the referenced value: {b}'))
                    else:
                        pc_problems.append((e, f'a node is created in the reference loop under {show(ckey)}, which is not the name (task_name(ref.factory), ref.impl.name(), ref.item.name(), ref.feat) of the referenced value'))
                # (no 'exists or is created' obligation: a path that reaches FLAT[name].add(...) has looked the node up successfully)
            key = f'{e0.func.qname}:edge[{kind}]'
            if problems:
                pe, msg = problems[0]
                r.fail(key, pe.where, f'{kind}: {msg}')
            else:
                r.ok(key, f'{kind}: every path of the reference loop executes FLAT[name(ref)].add(FLAT[child]) ({good_paths} abstract iteration ends)', e0.where)
            r.instance()
            key = f'{e0.func.qname}:referenced-node[{kind}]'
            if pc_problems:
                pe, msg = pc_problems[0]
                r.fail(key, pe.where, f'{kind}: {msg}')
            else:
                r.ok(key, f'{kind}: referenced node created only when absent, named as stored, alg=ref.impl, factory=ref.factory, fresh parents/ancestry/feedback sets', e0.where)

            # (d)-(f) the value loop of the tree walk
            d_problems, c_problems, root_problems = [], [], []
            root_paths = {True: 0, False: 0}
            for e, A, info in vl:
                if e.kind == 'loop_broken':
                    d_problems.append((e, f'the walk over the values can stop early ({e.data["how"]})'))
                    continue
                done = [t for t in e.tags if t[0] == 'loop-done' and ref_loop(t[2]) is not None]
                okd = False
                for t in done:
                    m = mcall(ref_loop(t[2]))
                    if m and m[0] == A and not m[2]:
                        okd = True
                if not okd:
                    d_problems.append((e, 'a path through the walk over the values does not run the reference loop of the algorithm (edges missing for that value)'))
                # child node creation
                for ckey, ctor, guarded in fx.creations(e):
                    cn = child_name(ckey)
                    if cn is None or cn[0] != A:
                        c_problems.append((e, f'the node of the value is named {show(ckey)}, not (task_name(factory) | bot._name()).alg.name().sv.name().key of the walk'))
                        continue
                    if not guarded:
                        c_problems.append((e, 'the node of the value is (re)created without testing that it is absent: a node created earlier by a reference, and its edges, are replaced'))
                    if ctor[2][0] != ckey:
                        c_problems.append((e, f'node stored under {show(ckey)} is named {show(ctor[2][0])}'))
                    for b in check_attrib(ctor, A, info['factory']):
                        c_problems.append((e, f'node created for the value: {b}'))
                # root registration
                rtests = [t for t in e.tags if t[0] == 'test' and (m := mcall(t[1])) and m[0] == A and not m[2] and not m[3] and m[1] in ACCESSORS + ('feedback',)]
                radds = [t for t in e.tags if t[0] == 'op' and t[2] == fx.ROOTS]
                radds_child = [t for t in radds if len(t[3]) == 1 and (k := fx.node_key(t[3][0])) is not None and (cn := child_name(k)) and cn[0] == A and t[1] == 'add']
                if len(radds) != len(radds_child):
                    root_problems.append((e, 'something other than the node of the current value is added to the root set'))
                if not rtests:
                    root_problems.append((e, 'root registration is not decided by the emptiness of the declared inputs of the algorithm'))
                else:
                    accs_r = {mcall(t[1])[1] for t in rtests}
                    if accs_r != {exp}:
                        root_problems.append((e, f'root test uses <alg>.{"/".join(sorted(accs_r))}() but the inputs of a {kind} algorithm are {exp}()'))
                    has_inputs = any(t[2] for t in rtests)
                    root_paths[has_inputs] += 1
                    if has_inputs and radds_child:
                        root_problems.append((e, 'a value whose algorithm declares inputs is registered as a root'))
                    if not has_inputs and not radds_child:
                        root_problems.append((e, 'a value whose algorithm declares no inputs is not registered as a root'))
            ev0 = vl[0][0]
            for tag, probs, okmsg in (
                ('builder-per-value', d_problems, 'the reference loop of the algorithm runs for every value on every path'),
                ('value-node', c_problems, 'value node created only when absent, named as stored, alg/factory of the walk, fresh parents/ancestry/feedback sets'),
                ('root', root_problems, f'root iff <alg>.{exp}() is empty (paths with inputs: {root_paths[True]}, without: {root_paths[False]})'),
            ):
                r.instance()
                key = f'{ev0.func.qname}:{tag}[{kind}]'
                if tag == 'root' and not probs and not (root_paths[True] and root_paths[False]):
                    probs = [(ev0, 'the emptiness test of the inputs does not split the paths (constant?)')]
                if probs:
                    r.fail(key, probs[0][0].where, f'{kind}: {probs[0][1]}')
                else:
                    r.ok(key, f'{kind}: {okmsg}', ev0.where)
        r.extra['builders'] = facts_out

        # ---- nothing else inserts children or roots
        stray = {}
        for e in ev:
            if e.kind != 'call':
                continue
            f, a = e.data['f'], e.data['args']
            if f[0] != 'attr' or f[2] not in GROW:
                continue
            in_ref_loop = any(t[0] == 'in' and (inp := ref_loop(t[2])) is not None and (m := mcall(inp)) and alg_info(m[0]) is not None for t in e.tags)
            in_value_loop = any(
                t[0] == 'in' and t[2][0] == 'elem' and t[2][1][0] == 'elem' and (m := mcall(t[2][1][1])) and m[1] == 'state_vectors' and alg_info(m[0]) is not None for t in e.tags
            )
            # receivers that are certainly not graph nodes: local collections, attribute sets <x>.get('k'), the root set
            not_a_node = local_collection(f[1]) or get_attrkey(f[1]) is not None or f[1] == fx.ROOTS
            if f[2] in NODE_INSERT and not not_a_node and not in_ref_loop:
                stray[f'{e.func.qname}:{norm(e.node)}'] = (e, 'inserts a child edge outside the loop over the declared inputs of an algorithm: an edge that no declaration asks for')
            if f[1] == fx.ROOTS and not in_value_loop:
                stray[f'{e.func.qname}:{norm(e.node)}'] = (e, 'changes the root set outside the walk over the values of the algorithms')
        r.instance()
        if stray:
            for key, (e, msg) in sorted(stray.items()):
                r.fail(key, e.where, f'{norm(e.node)} {msg}')
        else:
            r.ok(f'{CONSTRUCT}:no-other-insertion', 'every child insertion reached from Construct.__init__ lies in a declared-input loop, every root registration in the value walk', where(fx.init))

        # ---- Node.add inserts the child when it is not there yet
        _node_add(prog, rep, r)
        # ---- schedule._priors agrees with the table
        _priors(prog, rep, r, table)


def _role(key, pfields, A):
    if key is None:
        return 'other'
    if dotted_fields(key) == pfields:
        return 'parent'
    cn = child_name(key)
    if cn is not None and cn[0] == A:
        return 'child'
    return 'other'


def _node_add(prog, rep, r):
    f = prog.func(NODE + '.add')
    rep.analysed(f)
    r.instance()
    w = World(prog)
    exits = w.run_root(f)
    params = f.params()
    if len(params) != 2:
        r.fail(f'{f.qname}:appends-when-absent', where(f), 'Node.add does not take exactly one item')
        return
    S, I = ('self', NODE), ('param', f.qname, params[1])
    bad = []
    for tags, _k in exits:
        appended = any(t[0] == 'op' and t[1] in ('append', 'insert', 'extend') and t[2] == S and I in [x for a in t[3] for x in subterms(a)] for t in tags)
        known_present = False
        for t in tags:
            if t[0] == 'test' and t[1][0] == 'cmp' and t[1][1] in ('In', 'NotIn'):
                left, right = t[1][2], t[1][3]
                present = t[2] if t[1][1] == 'In' else not t[2]
                # item.tag in [c.tag for c in self]  |  item in self / list(self)
                tag_of_children = right[0] == 'comp' and right[2] == T_attr(T_elem(S), 'tag') and all(not ifs for _i, ifs in right[3])
                if present and ((left == T_attr(I, 'tag') and tag_of_children) or (left == I and right in (S, T_call(T_sym('external:list'), (S,))))):
                    known_present = True
        if not appended and not known_present:
            bad.append(tags)
    r.check(
        not bad,
        f'{f.qname}:appends-when-absent',
        where(f),
        f'every path of Node.add either appends the item or has established that a child with its tag is present ({len(exits)} paths)',
        f'Node.add can return without appending the item although no child with its tag was found ({len(bad)} of {len(exits)} paths): edges are silently dropped',
    )


def _priors(prog, rep, r, table):
    f = prog.func('dawgie.pl.schedule._priors')
    rep.analysed(f)
    p0 = ('param', f.qname, f.params()[0])
    for kind, cq in sorted(KIND_CLASS.items()):
        r.instance()

        def fold(t, cq=cq):
            if t[0] == 'call' and t[1] == T_sym('external:isinstance') and len(t[2]) == 2 and t[2][0] == p0 and t[2][1][0] == 'sym' and t[2][1][1] in KIND_CLASS.values():
                return t[2][1][1] == cq
            return None

        w = World(prog, fold=fold)
        w.run_root(f)
        rets = {e.data['value'] for e in w.events if e.kind == 'ret'}
        exp = T_call(T_attr(p0, table[kind])) if table[kind] else None
        r.check(
            rets == {exp},
            f'{f.qname}:{cq}',
            where(f),
            f'_priors({cq.rsplit(".", 1)[1]}) returns node.{table[kind]}() -- same accessor as the graph builder',
            f'_priors returns {sorted(show(x) for x in rets)} for a {cq} but the graph builder derives its edges from {table[kind]}(): rescheduling after an update and the task graph disagree',
        )


# ---------------------------------------------------------------------------
# R-C09-2


def rule2(ctx, rep, fx):
    # pylint: disable=too-many-locals,too-many-branches
    prog = ctx.prog
    with rep.rule(
        'R-C09-2',
        "feedback never orders: nothing computed from <alg>.feedback() or a node's 'feedback' attribute is inserted as a child / parent / ancestor / root; "
        'for every node of the table every as_vref(alg.feedback()) reference is stored in the feedback map under its full value name with the consumer tag',
        floor=5,
        breaks='a feedback reference creates an ordering edge (cycle: the producer waits for its consumer and nothing is released) or a fed-back value has no consumer entry (the consumer is never rescheduled)',
    ) as r:
        worlds = [(fx.w, 'Construct.__init__')]
        reached = set(fx.w.funcs)
        # every other function of the module that handles feedback references
        for q, f in sorted(prog.funcs.items()):
            if f.module.name != DAG or q in reached or f.parent is not None:
                continue
            mentions = any(
                (isinstance(n, ast.Constant) and n.value == 'feedback') or (isinstance(n, ast.Attribute) and n.attr == 'feedback') for n in f.own_nodes()
            )
            if mentions:
                w = World(prog)
                w.run_root(f)
                worlds.append((w, q))
        handlers = set()
        seen = set()
        fmap_loops = []
        for w, _root in worlds:
            for f in w.funcs.values():
                rep.analysed(f)
            for e in w.events:
                if e.kind not in ('iter_end', 'loop_broken', 'call', 'store'):
                    continue
                if e.kind == 'call' and not (e.data['f'][0] == 'attr' and e.data['f'][2] in GROW):
                    continue
                in_fb_loop = any(t[0] == 'in' and feedback_derived(t[2]) for t in e.tags)
                if e.kind in ('iter_end', 'loop_broken') and feedback_derived(e.data['elem']):
                    handlers.add(e.func.qname)
                    inp = ref_loop(e.data['elem'])
                    if inp is not None and e.func.module.name == DAG and e.func.cls is not None and e.func.cls.qname == CONSTRUCT:
                        fmap_loops.append(e)
                if e.kind == 'call':
                    f, a = e.data['f'], e.data['args']
                    if f[0] != 'attr' or f[2] not in GROW:
                        continue
                    recv = f[1]
                    if not (in_fb_loop or feedback_derived(recv) or any(feedback_derived(x) for x in a)):
                        continue
                    key = f'{e.func.qname}:{norm(e.node)}'
                    if key in seen:
                        continue
                    seen.add(key)
                    r.instance()
                    gk = get_attrkey(recv)
                    if f[2] == 'set' and a and a[0][0] == 'const':
                        ok = a[0][1] == 'feedback' or not any(feedback_derived(x) for x in a[1:])
                        why = f"writes the '{a[0][1]}' attribute"
                    elif gk is not None:
                        ok = gk[1] == 'feedback'
                        why = f"grows the '{gk[1]}' attribute set"
                    elif local_collection(recv):
                        ok, why = True, 'grows a local collection'
                    elif hasattr(fx, 'FEEDBACKS') and recv == fx.FEEDBACKS:
                        ok, why = True, 'grows the feedback map'
                    else:
                        ok, why = False, f'{show(recv)}.{f[2]}(...) is a node/root insertion'
                    r.check(
                        ok,
                        key,
                        e.where,
                        f'feedback data only {why}',
                        f'feedback-derived data creates ordering structure: {why} (in {e.func.qname}); feedback references must only reach the feedback attribute and the feedback map',
                    )
                if e.kind == 'store' and (in_fb_loop or feedback_derived(e.data['key']) or feedback_derived(e.data['value'])):
                    key = f'{e.func.qname}:{norm(e.node)}'
                    if key in seen:
                        continue
                    seen.add(key)
                    r.instance()
                    base = e.data['base']
                    is_map = base[0] == 'attr' and base[1][0] == 'self' and e.data['kind'] == 'item' and base != fx.FLAT
                    ok = is_map or base == fx.FLAT or local_collection(base) or (e.data['kind'] == 'attr' and base[0] == 'self' and not in_fb_loop)
                    r.check(
                        ok,
                        key,
                        e.where,
                        'feedback data stored in ' + ('a map of the construct' if is_map else 'the node table / a local'),
                        f'feedback-derived data is stored into {show(base)} (in {e.func.qname}): not one of the accepted sinks (feedback map, node creation, local)',
                    )
        r.extra['feedback_handlers'] = sorted(handlers)

        # ---- the feedback map
        r.instance()
        prop = prog.func(CONSTRUCT + '.feedbacks')
        rep.analysed(prop)
        rv = single_return(prop)
        FB = Scope(fx.w, prop, fx.w.default_env(prop), (prop.qname,)).term(rv, {}) if rv is not None else None
        if not (FB and FB[0] == 'attr' and FB[1] == fx.SELF):
            r.fail(f'{prop.qname}:returns-map', where(prop), 'Construct.feedbacks does not simply return an attribute of the construct')
            return
        r.ok(f'{prop.qname}:returns-map', f'feedbacks -> {show(FB)}', where(prop), nontrivial=False)
        r.instance()
        good, problems = 0, []
        for e in fmap_loops:
            inp = ref_loop(e.data['elem'])
            m = mcall(inp)
            gk = get_attrkey(m[0]) if m and m[1] == 'feedback' else None
            if gk is None or gk[1] != 'alg':
                problems.append((e, f'feedback loop over as_vref({show(inp)}) does not read the feedback() of the algorithm of a node'))
                continue
            N = gk[0]
            if e.kind == 'loop_broken':
                problems.append((e, f'the feedback loop can stop early ({e.data["how"]})'))
                continue
            if not fx.all_flat_nodes(N):
                problems.append((e, f'the consumer {show(N)} does not range over every node of the table'))
                continue
            R = e.data['elem']
            stores = [t for t in e.tags if t[0] == 'store' and t[1] == 'item' and t[2] == FB]
            okp = any(dotted_fields(t[3]) == value_name_fields(R) and t[4] == T_attr(N, 'tag') for t in stores)
            if okp:
                good += 1
            elif stores:
                t = stores[0]
                problems.append((e, f'feedback map entry is {show(t[3])} -> {show(t[4])}; expected full value name of the reference -> tag of the consumer'))
            else:
                problems.append((e, 'a path through the feedback loop stores nothing in the feedback map for the reference'))
        key = f'{CONSTRUCT}:feedback-map'
        if problems:
            r.fail(key, problems[0][0].where, problems[0][1])
        elif not good:
            r.fail(key, where(fx.init), 'no loop over as_vref(<node>.get(alg).feedback()) storing into the feedback map is reached from Construct.__init__')
        else:
            r.ok(key, f'every reference of every node: map[task.alg.sv.value] = consumer tag on all {good} abstract iteration ends', fmap_loops[0].where)


# ---------------------------------------------------------------------------
# R-C09-4


def trim_shape(prog, fx):
    """Construct.trim(tag, n) as a term over its parameters; -> (func, ok, detail)"""
    f = prog.func(CONSTRUCT + '.trim')
    ps = f.params()
    rv = single_return(f)
    if rv is None or len(ps) != 2 or not f.is_staticmethod():
        return f, False, 'not a two-parameter static function with a single return'
    env = fx.w.default_env(f)
    t = Scope(fx.w, f, env, (f.qname,)).term(rv, {})
    TAG, N = env[ps[0]], env[ps[1]]
    split = T_call(T_attr(TAG, 'split'), (T_const('.'),))
    accepted = [
        T_call(T_attr(T_const('.'), 'join'), (('sub', split, ('slice', lo, N, None)),))  # '.'.join(tag.split('.')[:n]) / [0:n]
        for lo in (None, T_const(0))
    ]
    return f, t in accepted, show(t)


def TRIM(tag, n):
    return T_call(T_sym(TRIM_FN), (tag, n))


def rule4(ctx, rep, fx):
    # pylint: disable=too-many-locals,too-many-branches,too-many-statements
    prog = ctx.prog
    with rep.rule(
        'R-C09-4',
        'granularity table: at/svt/tt are the value-level roots trimmed to the position of the algorithm / state-vector / task field of the '
        'arity-4 node names, vt is untrimmed; _trim_trees makes one short node per distinct trimmed name and trims every root; Node.trim looks '
        'the short node up by its own trimmed tag, copies every child edge with Node.add on the first visit of each value node and returns the short node',
        floor=11,
        breaks='algorithm-level graph has merged/split nodes or lost edges: one node per algorithm and an edge per declared input no longer hold at the granularity the scheduler uses',
    ) as r:
        r.note("the visitors guard is not required to exist (copying the children on every visit is slower but equivalent); required is that every first visit copies them and that the guard, if any, is keyed by the value node's own tag")
        r.instance()
        f, ok, det = trim_shape(prog, fx)
        rep.analysed(f)
        r.check(ok, f'{f.qname}:prefix', where(f), "trim(tag, n) == '.'.join(tag.split('.')[:n])", f"Construct.trim is not the n-component prefix '.'.join(tag.split('.')[:n]) but {det}")
        # 1 + position of the task / algorithm / state-vector field in the node names; child_name() (R-C09-1) pins the
        # fields of the names built by the tree walk to exactly these positions, so the two rules cannot drift apart
        levels = {'tt': 1, 'at': 2, 'svt': 3}
        SELF = fx.SELF
        stores = {}
        for e in fx.w.events:
            if e.kind == 'store' and e.data['kind'] == 'attr' and e.data['base'] == SELF:
                stores.setdefault(e.data['key'][1], []).append(e)
        for g in ('at', 'svt', 'tt', 'vt'):
            r.instance()
            p = prog.func(f'{CONSTRUCT}.{g}')
            rep.analysed(p)
            rv = single_return(p)
            t = Scope(fx.w, p, fx.w.default_env(p), (p.qname,)).term(rv, {}) if rv is not None else None
            key = f'{CONSTRUCT}.{g}:granularity'
            if not (t and t[0] == 'attr' and t[1] == SELF):
                r.fail(key, where(p), f'property {g} does not return an attribute of the construct')
                continue
            sts = stores.get(t[2], [])
            vals = {e.data['value'] for e in sts}
            if len(vals) != 1:
                r.fail(key, where(p), f'{show(t)} is assigned {len(vals)} different values in Construct.__init__')
                continue
            v = vals.pop()
            if g == 'vt':
                r.check(v == fx.ROOTS, key, sts[0].where, 'vt is the untrimmed root set', f'vt is {show(v)}, not the value-level root set {show(fx.ROOTS)}')
                continue
            m = mcall(v)
            tt = prog.method(CONSTRUCT, m[1]) if m and m[0] == SELF else None
            n = m[2][0] if m and len(m[2]) == 1 and not m[3] else (dict(m[3]).get('length') if m and not m[2] else None)
            if tt is None or tt.qname != CONSTRUCT + '._trim_trees' or n is None:
                r.fail(key, sts[0].where, f'{g} is {show(v)}, not the result of trimming the trees to a constant length')
                continue
            r.check(
                is_const(n, levels[g]),
                key,
                sts[0].where,
                f'{g} = roots trimmed to {levels[g]} name component(s)',
                f'{g} is trimmed to {show(n)} component(s); the {"task" if g == "tt" else "algorithm" if g == "at" else "state-vector"} field ends at component {levels[g]} of task.alg.sv.value',
            )

        # ---- _trim_trees(length)
        tf = prog.func(CONSTRUCT + '._trim_trees')
        rep.analysed(tf)
        r.instance()
        w = World(prog)
        w.run_root(tf)
        L = ('param', tf.qname, tf.params()[1]) if len(tf.params()) == 2 else None
        tcalls = {}
        for e in w.events:
            if e.kind == 'call':
                fm = e.data['f']
                if fm[0] == 'attr' and fm[2] == 'trim' and fm[1] == T_elem(fx.ROOTS):
                    tcalls[norm(e.node)] = e
        key = f'{tf.qname}:known-table'
        if L is None or not tcalls:
            r.fail(key, where(tf), '_trim_trees does not call <root>.trim(known, length) for the elements of the root set')
        else:
            probs = []
            for e in tcalls.values():
                a = e.data['args']
                if len(a) != 2 or e.data['kws'] or a[1] != L:
                    probs.append(f'{norm(e.node)}: the length handed to Node.trim is not the length the table was keyed with')
                    continue
                probs.extend(_known_table(a[0], fx, L))
            r.check(not probs, key, where(tf, next(iter(tcalls.values())).node), 'known = {trim(leaf, length): Node(that name, feedback=set(), visitors=set()) for every leaf of the table}; roots trimmed with the same length', '; '.join(probs[:2]))
        # all roots trimmed and returned
        r.instance()
        key = f'{tf.qname}:all-roots'
        rets = [e for e in w.events if e.kind == 'ret' and e.func is tf]
        okr, det = False, 'no return'
        for e in rets:
            v = e.data['value']
            if v[0] == 'comp' and v[1] == 'list' and len(v[3]) == 1 and v[3][0] == (fx.ROOTS, ()) and mcall(v[2]) and mcall(v[2])[1] == 'trim' and mcall(v[2])[0] == T_elem(fx.ROOTS):
                okr, det = True, 'returns [root.trim(known, length) for root in roots]'
            elif isinstance(e.node.value, ast.Name):
                name = e.node.value.id
                ends = [x for x in w.events if x.kind in ('iter_end', 'loop_broken') and x.data['elem'] == T_elem(fx.ROOTS)]
                bad = [x for x in ends if x.kind == 'loop_broken' or not any(
                    t[0] == 'op' and t[1] in ('append', 'add') and len(t[3]) == 1 and mcall(t[3][0]) and mcall(t[3][0])[1] == 'trim' and mcall(t[3][0])[0] == T_elem(fx.ROOTS) for t in x.tags
                )]
                appends = [x for x in w.events if x.kind == 'call' and x.func is tf and x.data['f'][0] == 'attr' and x.data['f'][2] in ('append', 'add') and isinstance(x.node.func.value, ast.Name) and x.node.func.value.id == name]
                if ends and not bad and appends and local_collection(v):
                    okr, det = True, f'every root: {name}.append(root.trim(known, length)); returns {name}'
                else:
                    det = f'{len(bad)} of {len(ends)} iteration ends over the roots do not collect root.trim(...) into the returned {name}'
            else:
                det = f'returns {show(v)}'
        r.check(okr, key, where(tf), det, f'_trim_trees does not return the trimmed node of every root: {det}')

        # ---- Node.trim(known, length)
        nt = prog.func(NODE + '.trim')
        rep.analysed(nt)
        w2 = World(prog)
        exits = w2.run_root(nt)
        ps = nt.params()
        S = ('self', NODE)
        K, LL = ('param', nt.qname, ps[1]), ('param', nt.qname, ps[2])
        SN = ('sub', K, TRIM(T_attr(S, 'tag'), LL))
        r.instance()
        rets = {e.data['value'] for e in w2.events if e.kind == 'ret' and e.func is nt}
        falls = [k for _t, k in exits if k == 'fallthrough']
        r.check(
            rets == {SN} and not falls,
            f'{nt.qname}:short-node',
            where(nt),
            'returns known[trim(self.tag, length)] on every path',
            f'Node.trim returns {sorted(show(x) for x in rets)}{" or None" if falls else ""}; expected the node stored in known under the trimmed own tag',
        )
        r.instance()
        probs = []
        child_call = T_call(T_attr(T_elem(S), 'trim'), (K, LL))
        ends = [e for e in w2.events if e.kind in ('iter_end', 'loop_broken') and e.data['elem'] == T_elem(S)]
        for e in ends:
            if e.kind == 'loop_broken':
                probs.append((e, f'the loop over the children can stop early ({e.data["how"]})'))
                continue
            ops = [t for t in e.tags if t[0] == 'op' and t[1] in NODE_INSERT and t[2] == SN]
            if any(t[1] == 'add' and t[3] == (child_call,) for t in ops):
                continue
            if any(t[3] == (child_call,) for t in ops):
                probs.append((e, 'children are copied with the raw Element API instead of Node.add: one duplicate child per value-level edge'))
            else:
                probs.append((e, f'a child is not copied as short_node.add(child.trim(known, length)) (insertions seen: {[show(t[2]) + "." + t[1] + "(" + ", ".join(show(a) for a in t[3]) + ")" for t in ops]})'))
        for e in w2.events:
            if e.kind == 'call' and e.data['f'][0] == 'attr' and e.data['f'][2] in NODE_INSERT and e.data['f'][1] in (SN, S):
                if e.data['args'] != (child_call,) and not any(feedback_derived(x) for x in e.data['args']):  # feedback: R-C09-2
                    probs.append((e, f'{norm(e.node)} inserts something other than a trimmed child of the value node'))
        visitors = T_call(T_attr(SN, 'get'), (T_const('visitors'),))
        npaths = 0
        for tags, _kind in exits:
            repeat = False
            for t in tags:
                if t[0] == 'test' and t[1][0] == 'cmp' and t[1][3] == visitors and t[1][2] == T_attr(S, 'tag'):
                    present = t[2] if t[1][1] == 'In' else not t[2]
                    if present:
                        repeat = True
            if repeat:
                continue  # this value node was trimmed before: its children are already there
            npaths += 1
            if not any(t[0] == 'loop-done' and t[2] == T_elem(S) for t in tags):
                probs.append((None, 'a path on which the value node is visited for the first time (self.tag not in the visitors of the short node) returns without copying the children'))
        key = f'{nt.qname}:children-copied'
        if not ends:
            probs.insert(0, (None, 'no loop over the children of the value node'))
        if probs:
            e, msg = probs[0]
            r.fail(key, e.where if e is not None else where(nt), f'Node.trim: {msg}')
        else:
            r.ok(key, f'first visit of a value node: every child c -> short_node.add(c.trim(known, length)) ({npaths} first-visit paths, {len(ends)} iteration ends)', where(nt))
        r.instance()
        r.check(
            _parents_copied(w2, nt, S, K, LL, SN),
            f'{nt.qname}:parents-copied',
            where(nt),
            "short node 'parents' grows by known[trim(p.tag, length)] for every parent p of the value node",
            "Node.trim does not carry the value node's parents over to the short node as known[trim(p.tag, length)]: algorithm-level parents are lost",
        )
        # constants the scheduling attributes are keyed on
        r.instance()
        consts = set()
        for n in nt.own_nodes():
            if isinstance(n, ast.Compare) and len(n.ops) == 1 and isinstance(n.ops[0], ast.Eq):
                sides = [n.left, n.comparators[0]]
                names = [x for x in sides if isinstance(x, ast.Name) and x.id == ps[2]]
                cs = [x for x in sides if isinstance(x, ast.Constant) and isinstance(x.value, int)]
                if names and cs:
                    consts.add(cs[0].value)
        r.check(
            consts <= {levels['at']},
            f'{nt.qname}:algorithm-level-attributes',
            where(nt),
            f'scheduling attributes and ancestry are set for length == {levels["at"]} (the algorithm level, = at)',
            f'Node.trim initialises the algorithm-level attributes for length in {sorted(consts)}, but at is trimmed to {levels["at"]}',
            nontrivial=False,
        )


def _parents_copied(w2, nt, S, K, LL, SN):
    """Node.trim: the short node's 'parents' receives known[trim(p.tag, length)] for every p of the value node's parents"""
    P = T_elem(T_call(T_attr(S, 'get'), (T_const('parents'),)))
    want = ('sub', K, TRIM(T_attr(P, 'tag'), LL))
    src = T_call(T_attr(S, 'get'), (T_const('parents'),))

    def from_parents(a):
        return a[0] == 'comp' and a[1] in ('list', 'set', 'gen') and a[2] == want and len(a[3]) == 1 and a[3][0] == (src, ())

    stored = set()
    grown = set()
    for e in w2.events:
        if e.kind != 'call':
            continue
        f, a = e.data['f'], e.data['args']
        if f[0] != 'attr':
            continue
        if f[2] == 'set' and f[1] == SN and len(a) == 2 and is_const(a[0], 'parents'):
            stored.add(a[1])
        if f[2] in ('update', '__ior__') and len(a) == 1 and from_parents(a[0]):
            grown.add(f[1])
        if f[2] == 'add' and len(a) == 1 and a[0] == want and any(t[0] == 'in' and t[2] == P for t in e.tags):
            grown.add(f[1])
    direct = T_call(T_attr(SN, 'get'), (T_const('parents'),))
    return bool(stored & grown) or direct in grown


def rule6(ctx, rep, fx):
    # pylint: disable=too-many-locals,too-many-branches,too-many-statements
    prog = ctx.prog
    with rep.rule(
        'R-C09-6',
        "parents mirror the child edges and the phases run in order: _parents gives every child of another algorithm the visited node as parent "
        '(no other filter), and Construct.__init__ inserts all edges before _parents(roots, set()), runs _ancestry after it, and trims only after '
        'ancestry and feedback are complete',
        floor=5,
        breaks="a node's parents/ancestry (what the release filter and the promotion engine read) miss declared inputs although the child edges exist",
    ) as r:
        pf = prog.func(CONSTRUCT + '._parents')
        rep.analysed(pf)
        ps = pf.params()
        w = World(prog)
        w.run_root(pf)
        N = T_elem(('param', pf.qname, ps[1])) if len(ps) >= 2 else None
        CH = T_elem(N) if N else None
        at_level = 2  # 1 + index of the algorithm field of task.alg.sv.value (R-C09-4 ties `at` to the same number)
        r.instance()
        key = f'{pf.qname}:parent-of-every-child'
        probs = []
        parent_loops = 0
        if N is None:
            probs.append((None, '_parents does not take the list of nodes to visit'))
        ends = [e for e in w.events if e.kind in ('iter_end', 'loop_broken')] if N else []

        def base(c):
            while c[0] in ('pick', 'sel'):
                c = c[1]
            return c

        def guards_of(c):
            """tests an element went through before it got into the iterated collection (append under if / filter / comprehension if)"""
            out = set()
            while c[0] in ('pick', 'sel'):
                out |= set(c[2]) if c[0] == 'pick' else {('test', c[2], True)}
                c = c[1]
            return out

        def same_alg(tests, c):
            """-> (True if the path knows child and node are the same algorithm, list of tests on the child that are not understood)"""
            same, foreign = False, []
            for t in tests:
                if t[0] != 'test' or CH not in list(subterms(t[1])):
                    continue
                tt = t[1]
                sides = {tt[2], tt[3]} if tt[0] == 'cmp' and tt[1] in ('Eq', 'NotEq') else set()
                if sides == {TRIM(T_attr(CH, 'tag'), T_const(at_level)), TRIM(T_attr(N, 'tag'), T_const(at_level))}:
                    equal = t[2] if tt[1] == 'Eq' else not t[2]
                    same = same or equal
                else:
                    foreign.append(tt)
            return same, foreign

        child_loops = {}
        for e in ends:
            if base(e.data['elem']) == CH:
                child_loops.setdefault(e.data['lid'], []).append(e)
        want_recv = lambda c: T_call(T_attr(c, 'get'), (T_const('parents'),))
        for lid, evs in sorted(child_loops.items()):
            c = evs[0].data['elem']
            has = lambda e, c=c: any(t[0] == 'op' and t[1] == 'add' and t[2] == want_recv(c) and t[3] == (N,) for t in e.data['new'])
            is_parent_loop = any(has(e) for e in evs)
            collects = lambda e: any(t[0] == 'op' and t[1] in ('append', 'add') and t[3] == (CH,) and local_collection(t[2]) for t in e.data['new'])
            is_collector = any(collects(e) for e in evs)
            if not (is_parent_loop or is_collector):
                continue
            parent_loops += is_parent_loop
            for e in evs:
                if e.kind == 'loop_broken':
                    probs.append((e, f'a loop over the children can stop early ({e.data["how"]})'))
                    continue
                tests = set(t for t in e.tags if t[0] == 'test') | guards_of(c)
                same, foreign = same_alg(tests, c)
                if foreign:
                    probs.append((e, f'the parent edge of a child depends on {show(foreign[0])}; only "child of another algorithm" (trim(child.tag, {at_level}) != trim(node.tag, {at_level})) may filter'))
                    continue
                if same:
                    continue
                if is_parent_loop and not has(e):
                    probs.append((e, 'a child of another algorithm does not get the visited node added to its parents on some path'))
                if is_collector and not is_parent_loop and not collects(e):
                    probs.append((e, 'a child of another algorithm is not collected for the parent assignment on some path'))
        # every visited node runs the loop(s)
        for e in ends:
            if e.data['elem'] == N:
                if e.kind == 'loop_broken':
                    probs.append((e, f'the loop over the visited nodes can stop early ({e.data["how"]})'))
                elif not any(t[0] == 'loop-done' and base(t[2]) == CH and t[1] in child_loops for t in e.data['new']):
                    probs.append((e, 'a visited node can skip the loop over its children'))
        if not parent_loops and not probs:
            probs.append((None, "no loop over the children of the visited node adds the node to the child's parents"))
        if probs:
            e, msg = probs[0]
            r.fail(key, e.where if e is not None else where(pf), f'Construct._parents: {msg}')
        else:
            r.ok(key, f'child.parents.add(node) for every child of another algorithm (level {at_level}) of every visited node; {len(ends)} abstract iteration ends', where(pf))

        _ancestry_facts(prog, rep, r, fx)

        # ---- order of the phases in Construct.__init__
        ev = fx.w.events
        idx = {'edge': [], 'parents': [], 'ancestry': [], 'trim': [], 'feedback': []}
        pcalls_all = []
        for i, e in enumerate(ev):
            if e.kind != 'call':
                continue
            f, a = e.data['f'], e.data['args']
            callee, _s = fx.w.callee_func(f)
            q = callee.qname if callee is not None else None
            if q == CONSTRUCT + '._parents' and e.func is not callee:
                idx['parents'].append(i)
                pcalls_all.append((i, e))
            elif q == CONSTRUCT + '._ancestry':
                idx['ancestry'].append(i)
            elif q == CONSTRUCT + '._trim_trees':
                idx['trim'].append(i)
            if f[0] == 'attr' and f[2] in NODE_INSERT and fx.node_key(f[1]) is not None:
                idx['edge'].append(i)
            if f[0] == 'attr' and f[2] in GROW and (gk := get_attrkey(f[1])) and gk[1] == 'feedback' and fx.flat_node(gk[0]):
                idx['feedback'].append(i)
        r.extra['phase_event_index'] = {k: (v[0], v[-1]) if v else None for k, v in idx.items()}
        last_edge = max(idx['edge']) if idx['edge'] else None
        pcalls = [e for i, e in pcalls_all if last_edge is not None and i > last_edge]
        p_at = min((i for i, _e in pcalls_all if last_edge is not None and i > last_edge), default=None)
        pcall = pcalls[0] if pcalls else (pcalls_all[0][1] if pcalls_all else None)
        a_at = min((i for i in idx['ancestry'] if p_at is not None and i > p_at), default=None)
        for name, cond, okmsg, failmsg in (
            (
                'parents-after-edges',
                p_at is not None
                and len(pcall.data['args']) == 2
                and (pcall.data['args'][0] == fx.ROOTS or pcall.data['args'][0] == T_call(T_attr(fx.FLAT, 'values')))
                and fresh_set(pcall.data['args'][1]),
                '_parents(roots, set()) runs after the last edge insertion',
                '_parents is not called (from the roots, with a fresh visited set) after all edges have been inserted: edges added later have no parent entry',
            ),
            (
                'ancestry-after-parents',
                a_at is not None,
                '_ancestry runs after _parents',
                '_ancestry is not called after the _parents pass that follows the last edge insertion: the closure is taken over incomplete parent sets',
            ),
            (
                'trim-after-closure',
                bool(idx['trim']) and a_at is not None and min(idx['trim']) > a_at and (not idx['feedback'] or min(idx['trim']) > max(idx['feedback'])),
                'every _trim_trees runs after _ancestry and after the feedback attributes are filled',
                'the trees are trimmed before ancestry / feedback are complete: the algorithm-level nodes copy incomplete sets',
            ),
        ):
            r.instance()
            r.check(cond, f'{fx.init.qname}:{name}', (pcall.where if pcall is not None else where(fx.init)), okmsg, failmsg)


def _ancestry_facts(prog, rep, r, fx):
    """what the shared closure rule (R-C09-3) leaves open about Construct._ancestry: whose parents seed and extend the
    set, which frontier elements are skipped, and which node receives the result"""
    if CONSTRUCT + '._ancestry' not in prog.funcs:
        # the closure pass is gone: the shared closure rule (R-C09-3) reports that; nothing left to refine here
        r.instance()
        r.fail(f'{CONSTRUCT}._ancestry:own-closure', where(fx.init), 'Construct._ancestry no longer exists: no separate closure pass runs after the parent edges are complete (see R-C09-3)')
        return
    af = prog.func(CONSTRUCT + '._ancestry')
    rep.analysed(af)
    w = World(prog)
    w.run_root(af)
    r.instance()
    key = f'{af.qname}:own-closure'
    writes = {}
    for e in w.events:
        if e.kind == 'call' and e.data['f'][0] == 'attr' and e.data['f'][2] in GROW:
            gk = get_attrkey(e.data['f'][1])
            if gk and gk[1] == 'ancestry':
                writes[norm(e.node)] = (e, gk[0])
    probs = []
    if not writes:
        probs.append((None, "nothing is written to an 'ancestry' attribute"))
    for e, D in writes.values():
        if not fx.all_flat_nodes(D):
            probs.append((e, f'the ancestry is written for {show(D)}, which does not range over every node of the table'))
            continue
        a = e.data['args']
        seed = T_elem(T_call(T_attr(D, 'get'), (T_const('parents'),)))
        ok = len(a) == 1 and a[0][0] == 'comp' and a[0][2] == T_attr(seed, 'tag') and all(not ifs for _i, ifs in a[0][3])
        if not ok:
            probs.append((e, f"the written set is {show(a[0]) if a else '?'}; expected the tags of a set seeded with the same node's own parents"))
        own_names = (T_attr(D, 'tag'), ('sub', D[1], T_const(0)) if D[0] == 'sub' else None)
        # frontier loops: every iteration extends the sets by the parents of the frontier element
        loops = [x for x in w.events if x.kind in ('iter_end', 'loop_broken') and any(t[0] == 'in' and t[2] == D or (t[0] == 'in' and D[0] == 'sub' and t[2] == D[1]) for t in x.tags)]
        seen = 0
        growing = {x.data['lid'] for x in loops if any(t[0] == 'op' and t[1] in ('update', '__ior__', 'add') for t in x.data['new'])}
        for x in loops:
            el = x.data['elem']
            if el == D or (D[0] == 'sub' and el == D[1]):
                if x.kind == 'loop_broken':
                    probs.append((x, f'the loop over the nodes can stop early ({x.data["how"]})'))
                continue
            if x.data['lid'] not in growing:
                continue  # a loop that extends nothing (logging, ...)
            seen += 1
            if x.kind == 'loop_broken':
                probs.append((x, f'the loop over the frontier can stop early ({x.data["how"]})'))
                continue
            if el[0] == 'sel':
                pred, P = el[2], el[1]
                self_excl = pred[0] == 'cmp' and (
                    (pred[1] == 'NotEq' and {pred[2], pred[3]} & {T_attr(P, 'tag')} and {pred[2], pred[3]} & set(own_names))
                    or (pred[1] == 'IsNot' and {pred[2], pred[3]} == {P, D})
                )
                if not self_excl:
                    probs.append((x, f'frontier elements are skipped unless {show(pred)}; only the node itself may be skipped'))
                    continue
            else:
                is_self, foreign = False, None
                for t in x.data['new']:
                    if t[0] != 'test':
                        continue
                    c = t[1]
                    if c[0] == 'cmp' and c[1] in ('Eq', 'NotEq') and {c[2], c[3]} & {T_attr(el, 'tag')} and {c[2], c[3]} & set(own_names):
                        is_self = is_self or (t[2] if c[1] == 'Eq' else not t[2])
                    else:
                        foreign = c
                if foreign is not None:
                    probs.append((x, f'the expansion of a frontier element depends on {show(foreign)}; only the node itself may be skipped'))
                    continue
                if is_self:
                    continue
            srcs = (T_call(T_attr(el, 'get'), (T_const('parents'),)), T_call(T_attr(('sub', fx.FLAT, T_attr(el, 'tag')), 'get'), (T_const('parents'),)))
            ups = [t for t in x.data['new'] if t[0] == 'op' and t[1] in ('update', '__ior__') and len(t[3]) == 1]
            from_parents = [t for t in ups if (gk := get_attrkey(t[3][0])) and gk[1] == 'parents']
            if not [t for t in from_parents if t[3][0] in srcs]:
                probs.append((x, f"an iteration over the frontier does not extend the accumulated set with the frontier element's parents (updates seen: {[show(t[3][0]) for t in ups]})"))
            elif [t for t in from_parents if t[3][0] not in srcs]:
                probs.append((x, f"a set is extended with the parents of something other than the frontier element: {[show(t[3][0]) for t in from_parents if t[3][0] not in srcs]}"))
        if not seen:
            probs.append((e, 'no loop over a frontier of parents was found'))
    if probs:
        e, msg = probs[0]
        r.fail(key, e.where if e is not None else where(af), f'Construct._ancestry: {msg}')
    else:
        r.ok(key, "every node of the table: ancestry <- tags of (own parents, extended by the parents of every frontier element but the node itself)", where(af))


def _known_table(D, fx, L):
    """problems of the dict handed to Node.trim as `known`"""
    if not (D[0] == 'comp' and D[1] == 'dict' and D[2][0] == 'kv'):
        return [f'the table of short nodes is not a dict comprehension ({show(D)})']
    k, v = D[2][1], D[2][2]
    probs = []
    if any(ifs for _i, ifs in D[3]):
        probs.append('the table of short nodes is filtered')
    leafs = (T_elem(fx.FLAT), T_elem(T_call(T_attr(fx.FLAT, 'keys'))))
    if not any(k == TRIM(leaf, L) for leaf in leafs):
        probs.append(f'keys are {show(k)}, not Construct.trim(<every name of the table>, length)')
    # iterables: the node table itself, or a set/list of the trimmed names
    for it, _ifs in D[3]:
        if it in (fx.FLAT, T_call(T_attr(fx.FLAT, 'keys'))):
            continue
        if it[0] == 'comp' and it[1] in ('set', 'list', 'gen') and len(it[3]) == 1 and it[3][0][0] in (fx.FLAT, T_call(T_attr(fx.FLAT, 'keys'))) and not it[3][0][1]:
            continue
        probs.append(f'the trimmed names range over {show(it)}, not over every name of the node table')
    if not (v[0] == 'call' and v[1] == T_sym(NODE) and v[2] and v[2][0] == k):
        probs.append('the short node is not a fresh Node named by its key')
    else:
        d = attrib_of(v) or {}
        for a in ('feedback', 'visitors'):
            if not fresh_set(d.get(a, ('top', 'missing'))):
                probs.append(f"short node attribute '{a}' is not a fresh set()")
    return probs


# ---------------------------------------------------------------------------
# R-C09-5


def rule5(ctx, rep, fx):
    prog = ctx.prog
    f = prog.func(AS_VREF)
    rep.analysed(f, prog.func(REFS + '.svref2vref'), prog.func(REFS + '.algref2svref'), prog.func(REFS + '.vref_as_name'))
    with rep.rule(
        'R-C09-5',
        'reference expansion: as_vref yields, for a V_REF itself, for an SV_REF one V_REF per key of its state vector, for an ALG_REF one V_REF per '
        'key of every state vector of impl.state_vectors(), each carrying the factory/impl of the reference; vref_as_name has the node-name field order',
        floor=4,
        breaks='references at algorithm or state-vector granularity produce no (or wrong) value-level edges',
    ) as r:
        p0 = ('param', f.qname, f.params()[0])
        REF = T_elem(p0)
        for level in REF_LEVELS:
            r.instance()

            def fold(t, level=level):
                if t[0] == 'call' and t[1] == T_sym('external:isinstance') and len(t[2]) == 2 and t[2][0] == REF and t[2][1][0] == 'sym' and t[2][1][1] in REF_LEVELS:
                    return t[2][1][1] == level
                return None

            w = World(prog, fold=fold)
            w.run_root(f)
            if level == 'dawgie.V_REF':
                expected = [REF, _vref(T_attr(REF, 'factory'), T_attr(REF, 'impl'), T_attr(REF, 'item'), T_attr(REF, 'feat'))]
            elif level == 'dawgie.SV_REF':
                item = T_attr(REF, 'item')
                expected = [_vref(T_attr(REF, 'factory'), T_attr(REF, 'impl'), item, ft) for ft in (T_elem(item), T_elem(T_call(T_attr(item, 'keys'))))]
            else:
                item = T_elem(T_call(T_attr(T_attr(REF, 'impl'), 'state_vectors')))
                expected = [_vref(T_attr(REF, 'factory'), T_attr(REF, 'impl'), item, ft) for ft in (T_elem(item), T_elem(T_call(T_attr(item, 'keys'))))]
            key = f'{f.qname}:{level.rsplit(".", 1)[1]}'
            probs = []
            covered = 0
            outer = [e for e in w.events if e.func is f and e.kind in ('iter_end', 'loop_broken') and e.data['elem'] == REF]
            if not outer:
                probs.append('no loop over the references')
            for e in outer:
                if e.kind == 'loop_broken':
                    probs.append(f'the loop over the references can stop early ({e.data["how"]})')
                    continue
                ok = _covered(w, f, e, expected, probs, 0)
                if ok:
                    covered += 1
                else:
                    probs.append('a path yields nothing for a reference of this kind (edges silently missing)')
            r.check(not probs and covered > 0, key, where(f), f'{level}: value-level references with the fields of the original on all {covered} abstract paths', f'as_vref({level}): ' + '; '.join(sorted(set(probs))[:2]))
        r.instance()
        vn = prog.func(REFS + '.vref_as_name')
        p = ('param', vn.qname, vn.params()[0])
        rv = single_return(vn)
        t = Scope(fx.w, vn, {vn.params()[0]: p}, (vn.qname,)).term(rv, {}) if rv is not None else None
        r.check(
            t is not None and dotted_fields(t) == value_name_fields(p),
            f'{vn.qname}:field-order',
            where(vn),
            'task_name(factory).impl.name().item.name().feat',
            f'vref_as_name builds {show(t) if t else "?"}; node names are task_name(factory).alg.sv.value',
        )


def _vref(factory, impl, item, feat):
    return T_call(T_sym('dawgie.V_REF'), (), tuple(sorted({'factory': factory, 'impl': impl, 'item': item, 'feat': feat}.items())))


def _covered(w, f, e, expected, probs, depth):
    """the iteration that ended with e yielded the expansion itself, or completed an inner loop all of whose iterations did"""
    new = e.data['new']
    if _yields_ok(new, expected, probs):
        return True
    if depth > 3:
        return False
    for t in new:
        if t[0] == 'loop-done':
            inner = [x for x in w.events if x.func is f and x.kind in ('iter_end', 'loop_broken') and x.data['lid'] == t[1]]
            if inner and all(x.kind == 'iter_end' and _covered(w, f, x, expected, probs, depth + 1) for x in inner):
                return True
    return False


def _yields_ok(tags, expected, probs):
    ys = [t for t in tags if t[0] == 'yield']
    good = False
    for t in ys:
        v = t[2] if t[1] == 'one' else T_elem(t[2])
        if v in expected:
            good = True
        else:
            probs.append(f'yields {show(v)}, which is not the value-level expansion of the reference')
    return good


# ---------------------------------------------------------------------------


def rule7(ctx, rep):
    """names are derived from the live configuration (added after seeded change C09-5: util.names hoisted
    len(dawgie.context.ae_base_package.split('.')) into a module constant evaluated at import; context.override and
    the worker entry point assign the package afterwards, so task names of a dotted base package kept one element
    too many and the algorithm tree collapsed to one node per task)"""
    prog = ctx.prog
    with rep.rule(
        'R-C09-7',
        'no importable module captures, at import time, a dawgie.context setting that is assigned again at run time: the modules that name tasks and build the graph read the configuration when called',
        floor=1,
        breaks='task / algorithm names are computed from the configuration that was current when the module was imported, not from the one the pipeline runs with: nodes merge or vanish',
    ) as r:
        CTX = 'dawgie.context'
        # settings with a run-time writer (an assignment inside a function, or in another module)
        runtime = set()
        for fn in prog.funcs.values():
            for s_ in fn.own_nodes():
                tg = s_.targets if isinstance(s_, ast.Assign) else ([s_.target] if isinstance(s_, (ast.AugAssign, ast.AnnAssign)) else [])
                for t in tg:
                    if isinstance(t, ast.Attribute):
                        sym = prog.resolve_in(t, fn) or ''
                        if sym.startswith(CTX + '.'):
                            runtime.add(sym)
        for m in prog.modules.values():
            if m.name == CTX:
                continue
            for s_ in m.tree.body:
                tg = s_.targets if isinstance(s_, ast.Assign) else ([s_.target] if isinstance(s_, (ast.AugAssign, ast.AnnAssign)) else [])
                for t in tg:
                    if isinstance(t, ast.Attribute) and isinstance(t.value, ast.Attribute) and norm(t.value) == CTX:
                        runtime.add(CTX + '.' + t.attr)
        if CTX + '.ae_base_package' not in runtime:
            raise AnalysisError('no run-time writer of dawgie.context.ae_base_package found (context.override / worker entry point)')
        r.extra['settings_assigned_at_run_time'] = len(runtime)

        def import_time(body):
            """statements executed when the module is imported (not under `if __name__ == '__main__'`, not function bodies)"""
            for s_ in body:
                if isinstance(s_, (ast.FunctionDef, ast.AsyncFunctionDef)):
                    continue
                if isinstance(s_, ast.If) and '__name__' in norm(s_.test) and '__main__' in norm(s_.test):
                    continue
                if isinstance(s_, ast.ClassDef):
                    yield from import_time(s_.body)
                    continue
                yield s_

        scope = ('dawgie.util', 'dawgie.pl.dag', 'dawgie.pl.scan', 'dawgie.pl.schedule', 'dawgie.pl.version', 'dawgie.base', 'dawgie')
        n = 0
        for m in sorted(prog.modules.values(), key=lambda x: x.name):
            if m.name.endswith('__main__') or not (m.name in scope or m.name.startswith('dawgie.util.')):
                continue
            n += 1
            for s_ in import_time(m.tree.body):
                for x in ast.walk(s_):
                    if isinstance(x, (ast.FunctionDef, ast.AsyncFunctionDef, ast.Lambda)):
                        continue
                    if isinstance(x, ast.Attribute) and isinstance(x.ctx, ast.Load) and isinstance(x.value, (ast.Attribute, ast.Name)) and norm(x.value) in (CTX, 'context'):
                        sym = CTX + '.' + x.attr
                        if sym in runtime and not _inside_deferred(s_, x):
                            r.instance()
                            r.fail(
                                f'{m.name}:import-time:{x.attr}',
                                f'{m.relpath}:{s_.lineno}',
                                f'{m.name} evaluates {norm(x)} when it is imported ({norm(s_)[:80]}); context.override / the worker entry point assign it later, so the captured value is stale',
                            )
        for _ in range(n):
            r.instance()
        r.ok('graph-naming-modules:no-import-time-capture', f'{n} modules on the naming / graph construction path read the configuration only inside functions')


def _inside_deferred(stmt, node):
    """node sits inside a lambda / nested def of the statement (evaluated later, not at import)"""
    for x in ast.walk(stmt):
        if isinstance(x, (ast.Lambda, ast.FunctionDef, ast.AsyncFunctionDef)) and any(y is node for y in ast.walk(x)):
            return True
    return False


def rule8(ctx, rep):
    """a generator is consumed once (added after seeded change C09-6: Construct._build_tree expanded the declared inputs
    with util.as_vref - a generator - once per algorithm and handed the same object to the edge builder for every value;
    the first value consumed it, every further value of the algorithm got no parent edge)"""
    prog = ctx.prog
    with rep.rule(
        'R-C09-8',
        'in the graph builder (dawgie.pl.dag) a one-shot iterator (call of a generator function such as util.as_vref, generator expression, map / filter / zip) held in a local is not consumed inside a loop that runs more than once per binding',
        floor=1,
        breaks='the second and later iterations see an exhausted iterator: values / algorithms after the first get no edges, parents or ancestry and whatever hangs below them vanishes from every tree',
    ) as r:
        def is_gen_call(e, f):
            if isinstance(e, ast.GeneratorExp):
                return True
            if isinstance(e, ast.Call):
                if isinstance(e.func, ast.Name) and e.func.id in ('map', 'filter', 'zip', 'iter', 'reversed', 'enumerate'):
                    return True
                q = prog.callee(e, f)
                g = prog.funcs.get(q) if q else None
                return g is not None and any(isinstance(x, (ast.Yield, ast.YieldFrom)) for x in g.own_nodes())
            return False

        checked = 0
        for q, raw in sorted(prog.funcs.items()):
            if raw.module.name != 'dawgie.pl.dag':
                continue
            f = prog.nfunc(q)
            parent = {}
            for n in ast.walk(f.node):
                for ch in ast.iter_child_nodes(n):
                    parent[id(ch)] = n

            def loops_of(n):
                out = []
                x = parent.get(id(n))
                prev = n
                while x is not None and x is not f.node:
                    if isinstance(x, (ast.For, ast.While)) and any(prev is b or any(prev is y for y in ast.walk(b)) for b in x.body + x.orelse):
                        out.append(id(x))
                    if isinstance(x, (ast.ListComp, ast.SetComp, ast.DictComp, ast.GeneratorExp)) and prev is not x.generators[0].iter:
                        out.append(id(x))
                    prev, x = x, parent.get(id(x))
                return set(out)

            for a in f.own_nodes():
                if not (isinstance(a, ast.Assign) and len(a.targets) == 1 and isinstance(a.targets[0], ast.Name) and is_gen_call(a.value, f)):
                    continue
                name = a.targets[0].id
                rebinds = [d for d in f.own_nodes() if isinstance(d, ast.Assign) and d is not a and any(isinstance(t, ast.Name) and t.id == name for t in d.targets)]
                if rebinds:
                    continue
                checked += 1
                r.instance()
                rep.analysed(f)
                base = loops_of(a)
                uses = [u for u in f.own_nodes() if isinstance(u, ast.Name) and u.id == name and isinstance(u.ctx, ast.Load)]
                again = [u for u in uses if loops_of(u) - base]
                r.check(
                    not again,
                    f'{q}:{name}:one-shot-consumed-once',
                    where(f, again[0] if again else a),
                    f'{name} = {norm(a.value)[:40]} is consumed at the loop depth it was created',
                    f'{q}: the one-shot iterator {name} = {norm(a.value)[:50]} is used inside a loop that iterates more often than the iterator is created: it is exhausted after the first pass',
                )
        if not checked:
            r.instance()
            r.ok('dawgie.pl.dag:no-held-one-shot-iterators', 'no local of the graph builder holds a generator across a loop')


def rule9(ctx, rep):
    """added after seeded change C09-10: a guard-clause tidy-up of scan.advanced_factories ended the "user defined factory,
    not overriding it" arm in `continue`, which also skipped the collection of that factory: the package's algorithms
    had no nodes, and everything depending on them vanished from the graph"""
    prog = ctx.prog
    f = prog.nfunc('dawgie.pl.scan.advanced_factories')
    rep.analysed(f)
    with rep.rule(
        'R-C09-9',
        'scan.advanced_factories collects every factory a task package ends up with: on every path of the per-factory iteration that leaves the attribute on the module (found there and kept, or installed), it is appended to the factory list',
        floor=1,
        breaks='a package that brings its own task / analysis / regress function is silently dropped: its algorithms and everything downstream of them are missing from the task graph',
    ) as r:
        # by role: the innermost loop whose body appends getattr(<module>, <name>) to a collection
        loops = []
        for lp in [n for n in f.own_nodes() if isinstance(n, ast.For)]:
            apps = [c for b in lp.body for c in ast.walk(b) if isinstance(c, ast.Call) and isinstance(c.func, ast.Attribute) and c.func.attr == 'append' and c.args
                    and isinstance(c.args[0], ast.Call) and isinstance(c.args[0].func, ast.Name) and c.args[0].func.id == 'getattr' and len(c.args[0].args) >= 2]
            if apps and not any(isinstance(x, ast.For) and any(a in list(ast.walk(x)) for a in apps) for b in lp.body for x in ast.walk(b)):
                loops.append((lp, apps))
        key = f'{f.qname}:kept-factory-collected'
        r.instance()
        if not loops:
            r.fail(key, where(f), 'advanced_factories no longer appends getattr(<module>, <factory name>) to the factory lists')
            return
        lp, apps = loops[0]
        mod_e, name_e = norm(apps[0].args[0].args[0]), norm(apps[0].args[0].args[1])

        def is_attr_call(c, fn_name):
            return isinstance(c, ast.Call) and isinstance(c.func, ast.Name) and c.func.id == fn_name and len(c.args) >= 2 and norm(c.args[0]) == mod_e and norm(c.args[1]) == name_e

        class Has(Flow):
            # state: (has 'T'/'F'/'?', appended, aliases = names bound to getattr(m, fn, None) while has was unchanged)
            def on_stmt(s, st_, state):
                has, app, al = state
                if isinstance(st_, ast.Assign) and len(st_.targets) == 1 and isinstance(st_.targets[0], ast.Name):
                    v = st_.value
                    if is_attr_call(v, 'getattr') and len(v.args) == 3 and isinstance(v.args[2], ast.Constant) and v.args[2].value is None:
                        return ((has, app, al | {st_.targets[0].id}),)
                    return ((has, app, al - {st_.targets[0].id}),)
                return (state,)

            def on_call(s, c, state):
                has, app, al = state
                if is_attr_call(c, 'setattr'):
                    return (('T', app, frozenset()),)
                if is_attr_call(c, 'delattr'):
                    return (('F', app, frozenset()),)
                if any(c is a for a in apps):
                    return ((has, True, al),)
                return (state,)

            def on_test(s, e, state):
                has, app, al = state
                pos = None
                if is_attr_call(e, 'hasattr'):
                    pos = True
                elif isinstance(e, ast.Name) and e.id in al:
                    pos = True
                elif isinstance(e, ast.Compare) and len(e.ops) == 1 and isinstance(e.left, ast.Name) and e.left.id in al and isinstance(e.comparators[0], ast.Constant) and e.comparators[0].value is None:
                    pos = isinstance(e.ops[0], (ast.IsNot, ast.NotEq))
                    if not isinstance(e.ops[0], (ast.Is, ast.IsNot, ast.Eq, ast.NotEq)):
                        pos = None
                if pos is None:
                    return (state,), (state,)
                if has == '?':
                    yes, no = (('T', app, al),), (('F', app, al),)
                elif has == 'T':
                    yes, no = (state,), ()
                else:
                    yes, no = (), (state,)
                return (yes, no) if pos else (no, yes)

        out = Has().block(lp.body, {('?', False, frozenset())})
        ends = out.normal | out.cont
        lost = sorted({st for st in ends if st[0] == 'T' and not st[1]}, key=str)
        r.check(
            bool(ends) and not lost,
            key,
            where(f, lp),
            f'{len(ends)} abstract end states of one (package, factory) iteration: attribute present implies collected',
            f'an iteration of the (package, factory) loop can end with {name_e} still on the module but not appended to the factory list '
            f'({len(lost)} of {len(ends)} end states): that factory never reaches the graph construction',
        )


def check(ctx):
    rep = Report(
        PID,
        ctx.tier,
        ctx.prog,
        'dag.Construct.__init__ is executed symbolically (Flow-based interpreter over structural terms, callees of Construct/Node/util.refs inlined '
        'with their parameters bound, loop-iteration-scoped path facts).  Decided: (1) per factory kind, every value of every algorithm gets a node, is a '
        'root iff its declared inputs are empty, and every as_vref(inputs) reference adds child under parent with the task.alg.sv.value name, the accessor '
        'being the one the element class declares and schedule._priors uses; (2) nothing derived from feedback() reaches a child/parent/ancestor/root '
        'insertion and every feedback reference of every node is stored in the feedback map; (3) parents/ancestry form a transitive closure (shared rule); '
        '(4) at/svt/tt/vt are trimmed at the field positions of the name, one short node per trimmed name, all child edges and parents copied; (5) as_vref '
        'expands all three reference levels to value level; (6) _parents gives every child of another algorithm its parent, and edges -> _parents -> _ancestry '
        '-> trimming run in that order.  Not decided: functional exactness of the builder for every engine shape.',
        assumptions=[
            'dawgie.Task/Analysis/Regress._name() returns the name the bot was constructed with',
            'Algorithm/Analyzer/Regression are disjoint class hierarchies; ALG_REF/SV_REF/V_REF are distinct namedtuple types',
            'the algorithm engine is acyclic (property quantifier) and follows the naming rule (no "." in names)',
        ],
    )
    rep.not_decided = [
        'exactness of the derived graph for every engine shape (functional correctness of the builder as a whole)',
        'pl/scan.py: which factories are discovered and under which kind they are registered (runtime import machinery)',
        'util.names.task_name: uniqueness of the computed task prefix',
        'duplicate entries in the at/svt/tt root lists (one per value-level root; the node objects are unique)',
        'algorithms without any value (no state vector / empty state vectors) get no node at all; an algorithm whose declared inputs expand to nothing is neither a root nor a child',
        'two consumers feeding on the same value: the feedback map keeps the last one only',
    ]
    fx = Facts(ctx)
    for f in fx.w.funcs.values():
        rep.analysed(f)
    rep.extra['interpreter_steps'] = fx.w.steps
    rep.extra['events'] = len(fx.w.events)
    rule1(ctx, rep, fx)
    rule2(ctx, rep, fx)
    shared.closure_rule(ctx, rep, 'R-C09-3')
    rule4(ctx, rep, fx)
    rule5(ctx, rep, fx)
    rule6(ctx, rep, fx)
    rule7(ctx, rep)
    rule8(ctx, rep)
    rule9(ctx, rep)
    return rep


_D = 'pl/dag.py'
_R = 'util/refs.py'
_NODE_ATTRIB = """attrib={
                        'alg': %s,
                        'ancestry': set(),
                        'factory': %s,
                        'feedback': set(),
                        'parents': set(),
                    },"""
# the three sibling builders as they are today (anchor text of the "merged into one" benign variant)
_THREE_OLD = """def _sub_analysis(self, a, fn):
        for ref in dawgie.util.as_vref(a.traits()):
            pf, pi = ref.factory, ref.impl
            pn = '.'.join( [ dawgie.util.task_name(pf), pi.name(), ref.item.name(), ref.feat, ] )
            if pn not in self._flat:
                self._flat[pn] = Node( pn, attrib={ 'alg': pi, 'ancestry': set(), 'factory': pf, 'feedback': set(), 'parents': set(), }, )
            self._flat[pn].add(self._flat[fn])
            pass
        return
    def _sub_regression(self, a, fn):
        for ref in dawgie.util.as_vref(a.variables()):
            ( pf, pi, ) = ( ref.factory, ref.impl, )
            pn = '.'.join( [ dawgie.util.task_name(pf), pi.name(), ref.item.name(), ref.feat, ] )
            if pn not in self._flat:
                self._flat[pn] = Node( pn, attrib={ 'alg': pi, 'ancestry': set(), 'factory': pf, 'feedback': set(), 'parents': set(), }, )
            self._flat[pn].add(self._flat[fn])
            pass
        return
    def _sub_task(self, a, fn):
        for ref in dawgie.util.as_vref(a.previous()):
            ( pf, pi, ) = ( ref.factory, ref.impl, )
            pn = '.'.join( [ dawgie.util.task_name(pf), pi.name(), ref.item.name(), ref.feat, ] )
            if pn not in self._flat:
                self._flat[pn] = Node( pn, attrib={ 'alg': pi, 'ancestry': set(), 'factory': pf, 'feedback': set(), 'parents': set(), }, )
            self._flat[pn].add(self._flat[fn])
            pass
        return"""
_THREE_NEW = """def _sub(self, a, fn, dep):
        for ref in dawgie.util.as_vref(getattr(a, dep)()):
            pn = dawgie.util.vref_as_name(ref)
            if pn not in self._flat:
                self._flat[pn] = Node(
                    pn,
                    attrib={
                        'alg': ref.impl,
                        'ancestry': set(),
                        'factory': ref.factory,
                        'feedback': set(),
                        'parents': set(),
                    },
                )
            parent, child = self._flat[pn], self._flat[fn]
            parent.add(child)
        return

    def _sub_analysis(self, a, fn):
        self._sub(a, fn, 'traits')

    def _sub_regression(self, a, fn):
        return self._sub(a, fn, 'variables')

    def _sub_task(self, a, fn):
        self._sub(a, fn, 'previous')"""

VARIANTS = [
    V('scanner skips the collection of a user defined factory', 'B', 'pl/scan.py', 'advanced_factories', "m.__name__, fn, )", "m.__name__, fn, )\n                continue", 'R-C09-9'),
    V('scanner collects the installed factory in its own arm', 'N', 'pl/scan.py', 'advanced_factories', "setattr(m, fn, getattr(fs, fn))", "setattr(m, fn, getattr(fs, fn))\n                factories[f].append(getattr(m, fn))\n                continue", None),
    V('scanner collects in each arm', 'N', 'pl/scan.py', 'advanced_factories', "m.__name__, fn, )", "m.__name__, fn, )\n                factories[f].append(getattr(m, fn))\n                continue", None),

    V('declared inputs expanded once, consumed twice', 'B', 'pl/dag.py', 'Construct._sub_task', 'for ref in dawgie.util.as_vref(a.previous()):', 'refs = dawgie.util.as_vref(a.previous())\n        for ref in [x for _k in (1, 2) for x in refs]:', 'R-C09-8'),
    V('declared inputs expanded into a list first', 'N', 'pl/dag.py', 'Construct._sub_task', 'for ref in dawgie.util.as_vref(a.previous()):', 'refs = list(dawgie.util.as_vref(a.previous()))\n        for ref in [x for _k in (1,) for x in refs]:', None),
    V('base package depth captured at import', 'B', 'util/names.py', None, 'import logging', "import logging\n\n_AE_DEPTH = len(dawgie.context.ae_base_package.split('.'))", 'R-C09-7'),
    V('module constant unrelated to the configuration', 'N', 'util/names.py', None, 'import logging', "import logging\n\n_SEP = '.'", None),
    # ---- breaking
    V('edge reversed in one sibling', 'B', _D, 'Construct._sub_task', 'self._flat[pn].add(self._flat[fn])', 'self._flat[fn].add(self._flat[pn])', 'R-C09-1'),
    V('one sibling uses feedback() as inputs (edge rule)', 'B', _D, 'Construct._sub_regression', 'a.variables()', 'a.feedback()', 'R-C09-1'),
    V('one sibling uses feedback() as inputs (feedback rule)', 'B', _D, 'Construct._sub_regression', 'a.variables()', 'a.feedback()', 'R-C09-2'),
    V('accessor table: analysis roots decided by variables()', 'B', _D, 'Construct.__init__', "self._sub_analysis, 'traits',", "self._sub_analysis,\n            'variables',", 'R-C09-1'),
    V('wrong builder registered for the analysis kind', 'B', _D, 'Construct.__init__', "self._sub_analysis, 'traits',", "self._sub_task,\n            'traits',", 'R-C09-1'),
    V('edge only when the referenced node is new', 'B', _D, 'Construct._sub_analysis', 'self._flat[pn].add(self._flat[fn])', 'if len(self._flat[pn]) == 0:\n                self._flat[pn].add(self._flat[fn])', 'R-C09-1'),
    V('referenced node carries the consumer algorithm', 'B', _D, 'Construct._sub_task', "'alg': pi,", "'alg': a,", 'R-C09-1'),
    V('referenced node created without the absence test', 'B', _D, 'Construct._sub_regression', 'if pn not in self._flat:', 'if pn:', 'R-C09-1'),
    V('parent name fields swapped', 'B', _D, 'Construct._sub_analysis', 'pi.name(), ref.item.name(),', 'ref.item.name(),\n                    pi.name(),', 'R-C09-1'),
    V('root test inverted', 'B', _D, 'Construct._build_tree', 'if not getattr(alg, sub_dep)():', 'if getattr(alg, sub_dep)():', 'R-C09-1'),
    V('edge builder only run for new nodes', 'B', _D, 'Construct._build_tree', 'sub_algs(alg, fn)', 'if self._flat[fn] in self._roots:\n                            sub_algs(alg, fn)', 'R-C09-1'),
    V('value node recreated unconditionally', 'B', _D, 'Construct._build_tree', 'if fn not in self._flat:', 'if fn:', 'R-C09-1'),
    V('Node.add appends only duplicates', 'B', _D, 'Node.add', 'if item.tag not in names:', 'if item.tag in names:', 'R-C09-1'),
    V('_priors returns traits for a Regression', 'B', 'pl/schedule.py', '_priors', 'result = node.variables()', 'result = node.traits()', 'R-C09-1'),
    V('_feedback inserts an ordering edge', 'B', _D, 'Construct._feedback', 'self._feedbacks[fbn] = node.tag', 'self._feedbacks[fbn] = node.tag\n                self._flat[fbn].add(node)', 'R-C09-2'),
    V('_feedback writes the parents attribute', 'B', _D, 'Construct._feedback', "node.get('feedback').add(self._flat[fbn])", "node.get('parents').add(self._flat[fbn])", 'R-C09-2'),
    V('feedback map filled only for unseen names', 'B', _D, 'Construct._feedback', 'self._feedbacks[fbn] = node.tag', 'if fbn in self._feedbacks:\n                    self._feedbacks[fbn] = node.tag', 'R-C09-2'),
    V('feedback map keyed by the consumer', 'B', _D, 'Construct._feedback', 'self._feedbacks[fbn] = node.tag', 'self._feedbacks[node.tag] = fbn', 'R-C09-2'),
    V('feedback collected for the roots only', 'B', _D, 'Construct._feedback', 'for node in self._flat.values():', 'for node in self._roots:', 'R-C09-2'),
    V('Node.trim copies feedback as a child edge', 'B', _D, 'Node.trim', "short_node.get('feedback').add(f.trim(known, length))", 'short_node.add(f.trim(known, length))', 'R-C09-2'),
    V('_ancestry stops after one round', 'B', _D, 'Construct._ancestry', 'parents = grands', 'parents = set()', 'R-C09-3'),
    V('_parents does not recurse', 'B', _D, 'Construct._parents', 'self._parents( list(filter(lambda n, k=known: n.tag not in k, children)), known )', 'pass', 'R-C09-3'),
    V('at trimmed to 3 components', 'B', _D, 'Construct.__init__', 'self._at = self._trim_trees(2)', 'self._at = self._trim_trees(3)', 'R-C09-4'),
    V('tt trimmed to 2 components', 'B', _D, 'Construct.__init__', 'self._tt = self._trim_trees(1)', 'self._tt = self._trim_trees(2)', 'R-C09-4'),
    V('vt trimmed', 'B', _D, 'Construct.__init__', 'self._vt = self._roots', 'self._vt = self._trim_trees(4)', 'R-C09-4'),
    V('trim keeps one component too many', 'B', _D, 'Construct.trim', "tag.split('.')[:length]", "tag.split('.')[: length + 1]", 'R-C09-4'),
    V('Node.trim does not copy the children', 'B', _D, 'Node.trim', 'short_node.add(c.trim(known, length))', 'pass', 'R-C09-4'),
    V('Node.trim repeat-visit guard keyed by the short name', 'B', _D, 'Node.trim', "if self.tag not in short_node.get('visitors'):", "if short_name not in short_node.get('visitors'):\n            short_node.get('visitors').add(short_name)", 'R-C09-4'),
    V('Node.trim trims the children one level deeper', 'B', _D, 'Node.trim', 'short_node.add(c.trim(known, length))', 'short_node.add(c.trim(known, length + 1))', 'R-C09-4'),
    V('Node.trim returns the value node', 'B', _D, 'Node.trim', 'return short_node', 'return self', 'R-C09-4'),
    V('short nodes only for the roots', 'B', _D, 'Construct._trim_trees', 'trimmed = {Construct.trim(leaf, length) for leaf in self._flat}', 'trimmed = {Construct.trim(leaf.tag, length) for leaf in self._roots}', 'R-C09-4'),
    V('only roots with children are trimmed', 'B', _D, 'Construct._trim_trees', 'result.append(root.trim(trimmed, length))', 'if len(root):\n                result.append(root.trim(trimmed, length))', 'R-C09-4'),
    V('algorithm-level parents not carried over', 'B', _D, 'Node.trim', "short_node.set('parents', aset)", 'pass', 'R-C09-4'),
    V('as_vref drops ALG_REF', 'B', _R, 'as_vref', 'if isinstance(reference, dawgie.ALG_REF):', 'if isinstance(reference, dawgie.ALG_REF) and False:', 'R-C09-5'),
    V('as_vref yields the SV_REF itself', 'B', _R, 'as_vref', 'yield from svref2vref(reference)', 'yield reference', 'R-C09-5'),
    V('svref2vref puts the state vector in impl', 'B', _R, 'svref2vref', 'impl=ref.impl', 'impl=ref.item', 'R-C09-5'),
    V('algref2svref expands the first state vector only', 'B', _R, 'algref2svref', 'for sv in ref.impl.state_vectors()', 'for sv in ref.impl.state_vectors()[:1]', 'R-C09-5'),
    V('vref_as_name field order', 'B', _R, 'vref_as_name', 'vref.impl.name(), vref.item.name(),', 'vref.item.name(),\n            vref.impl.name(),', 'R-C09-5'),
    V('_parents keeps same-algorithm children only', 'B', _D, 'Construct._parents', 'if self.trim(child.tag, 2) != self.trim(node.tag, 2):', 'if self.trim(child.tag, 2) == self.trim(node.tag, 2):', 'R-C09-6'),
    V('_parents compares at task level', 'B', _D, 'Construct._parents', 'if self.trim(child.tag, 2) != self.trim(node.tag, 2):', 'if self.trim(child.tag, 1) != self.trim(node.tag, 1):', 'R-C09-6'),
    V('_parents gives parents to unknown children only', 'B', _D, 'Construct._parents', "child.get('parents').add(node)", "if child.tag not in known:\n                    child.get('parents').add(node)", 'R-C09-6'),
    V('_ancestry before _parents', 'B', _D, 'Construct.__init__', "self._parents(self._roots, set()) LOG.info('Construct() - build ancestry') self._ancestry()", 'self._ancestry()\n        self._parents(self._roots, set())', 'R-C09-6'),
    V(
        'task tree built after _parents',
        'B',
        _D,
        'Construct.__init__',
        "self._build_tree( factories[dawgie.Factories.task], Shape.ellipse, self._sub_task, 'previous', ) self._feedbacks = {} self._feedback() LOG.info('Construct() - build parents') self._parents(self._roots, set())",
        "self._parents(self._roots, set())\n        self._build_tree(\n            factories[dawgie.Factories.task],\n            Shape.ellipse,\n            self._sub_task,\n            'previous',\n        )\n        self._feedbacks = {}\n        self._feedback()",
        'R-C09-6',
    ),
    V('trim before ancestry', 'B', _D, 'Construct.__init__', 'self._ancestry()', 'self._xt = self._trim_trees(2)\n        self._ancestry()', 'R-C09-6'),
    V('_ancestry expands only the node itself', 'B', _D, 'Construct._ancestry', 'p.tag != n', 'p.tag == n', 'R-C09-6'),
    V("_ancestry re-adds the node's own parents", 'B', _D, 'Construct._ancestry', "heritage.update(self._flat[p.tag].get('parents'))", "heritage.update(self._flat[name].get('parents'))", 'R-C09-6'),
    V('_ancestry computed for the roots only', 'B', _D, 'Construct._ancestry', 'for name, dct in self._flat.items():', 'for name, dct in [(r.tag, r) for r in self._roots]:', 'R-C09-6'),
    # ---- benign
    V('_ancestry skips the node itself with if/continue', 'N', _D, 'Construct._ancestry', 'for p in filter(lambda p, n=name: p.tag != n, parents):', 'for p in parents:\n                    if p.tag == name:\n                        continue', None),
    V('_ancestry over values()', 'N', _D, 'Construct._ancestry', 'for name, dct in self._flat.items():', 'for dct in self._flat.values():\n            name = dct.tag', None),
    V('additional early _ancestry pass (the later one still follows _parents)', 'N', _D, 'Construct.__init__', 'self._parents(self._roots, set())', 'self._ancestry()\n        self._parents(self._roots, set())', None),
    V('three builders merged into one parametrised function', 'N', _D, None, _THREE_OLD, _THREE_NEW, None),
    V('rename pn', 'N', _D, None, 'pn', 'parent_name', None, 'all'),
    V('hoist nodes into locals and log', 'N', _D, 'Construct._sub_regression', 'self._flat[pn].add(self._flat[fn])', "parent = self._flat[pn]\n            child = self._flat[fn]\n            LOG.debug('edge %s -> %s', pn, fn)\n            parent.add(child)", None),
    V('parent name as f-string', 'N', _D, 'Construct._sub_task', "pn = '.'.join( [ dawgie.util.task_name(pf), pi.name(), ref.item.name(), ref.feat, ] )", "pn = f'{dawgie.util.task_name(pf)}.{pi.name()}.{ref.item.name()}.{ref.feat}'", None),
    V('parent name through vref_as_name', 'N', _D, 'Construct._sub_analysis', "pn = '.'.join( [ dawgie.util.task_name(pf), pi.name(), ref.item.name(), ref.feat, ] )", 'pn = dawgie.util.vref_as_name(ref)', None),
    V('inverted creation test', 'N', _D, 'Construct._sub_analysis', 'if pn not in self._flat:', 'if pn in self._flat:\n                pass\n            else:', None),
    V('root test through a local', 'N', _D, 'Construct._build_tree', 'if not getattr(alg, sub_dep)():', 'deps = getattr(alg, sub_dep)()\n                        if not deps:', None),
    V('child name from task_name(factory)', 'N', _D, 'Construct._build_tree', 'bot._name(),', 'dawgie.util.task_name(factory),', None),
    V('_trim_trees returns a comprehension', 'N', _D, 'Construct._trim_trees', 'for root in self._roots: result.append(root.trim(trimmed, length)) return result', 'return [root.trim(trimmed, length) for root in self._roots]', None),
    V('Node.trim early return on repeat visit', 'N', _D, 'Node.trim', "if self.tag not in short_node.get('visitors'):", "if self.tag in short_node.get('visitors'):\n            return short_node\n        if True:", None),
    V('Node.trim iterates a copy of the children', 'N', _D, 'Node.trim', 'for c in self:', 'for c in list(self):', None),
    V('_feedback over items() with reordered statements', 'N', _D, 'Construct._feedback', "for node in self._flat.values():", "for _name, node in self._flat.items():", None),
    V('_parents assigns while collecting', 'N', _D, 'Construct._parents', "children.append(child)", "children.append(child)\n                    LOG.debug('parent %s of %s', node.tag, child.tag)", None),
    V('Node.add early return', 'N', _D, 'Node.add', 'if item.tag not in names: self.append(item) return', 'if item.tag in names:\n            return\n        self.append(item)', None),
    V('as_vref with elif', 'N', _R, 'as_vref', 'if isinstance(reference, dawgie.SV_REF):', 'elif isinstance(reference, dawgie.SV_REF):', None),
    V('svref2vref positional fields', 'N', _R, 'svref2vref', 'factory=ref.factory, impl=ref.impl, item=ref.item, feat=key', 'ref.factory, ref.impl, ref.item, key', None),
    V('as_vref expands ALG_REF with nested loops', 'N', _R, 'as_vref', 'for svref in algref2svref(reference): yield from svref2vref(svref)', 'for sv in reference.impl.state_vectors():\n                for key in sv:\n                    yield dawgie.V_REF(reference.factory, reference.impl, sv, key)', None),
    V('_priors with early returns', 'N', 'pl/schedule.py', '_priors', 'result = node.traits()', 'return node.traits()', None),
]
