"""C03  Each released unit runs once at a time and its result is never dropped."""

import ast

from .. import AnalysisError
from ..flow import Flow
from ..report import Report
from ..util import where, norm, calls_to, get_key, arg, call_name
from ..variants import V
from .. import wsa
from . import shared

PID = 'C03'


def rule1(ctx, rep):
    prog = ctx.prog
    f = prog.nfunc('dawgie.pl.schedule.next_job_batch')
    rep.analysed(f)
    with rep.rule(
        'R-C03-1',
        'release filter truth table, own-doing atom: a target that is still executing for the job is never released again',
        floor=8,
        breaks='two executions of the same (algorithm, target) in flight; the second reply finds no queue entry and is dropped',
    ) as r:
        ra = wsa.release_analysis(prog, f)
        r.extra['truth_table_rows'] = len(ra['results'])
        for bits, res in sorted(ra['results'].items()):
            rho = res['rho']
            if not rho['tau_in_own_doing']:
                continue
            r.instance()
            name = ','.join(a for a in wsa.ATOMS if rho[a])
            key = f'{f.qname}:own-doing[{name}]'
            if res['problems']:
                r.fail(key, where(f, res['problems'][0].node), res['problems'][0].msg)
            elif not res['finals']:
                r.fail(key, where(f), 'filter structure not understood (no path through the ancestor/target iteration)')
            else:
                r.check(
                    not res['released'],
                    key,
                    where(f, ra['outer']),
                    'target withheld while it is in the job\'s own doing set',
                    f'a target that is in the job\'s own doing set is released again (moved to {sorted(res["released"])}) [{name}]',
                )
        # the same must hold when there is no queued ancestor at all (the dependency loop does not execute)
        r.instance()
        res0 = _no_ancestor(prog, f, ra)
        r.check(
            res0 is True,
            f'{f.qname}:own-doing[no-queued-ancestor]',
            where(f, ra['outer']),
            'target withheld also when no ancestor is queued',
            f'with no queued ancestor a target in the job\'s own doing set is released again ({res0})',
        )


def _no_ancestor(prog, f, ra):
    """run the loop body with the dependency loop taking zero iterations"""
    rho = {a: False for a in wsa.ATOMS}
    rho['tau_in_own_doing'] = True
    fl = wsa.ReleaseFilter(prog, f, ra['jvar'], rho, ra['target_loop'])
    fl.on_for_orig = fl.on_for

    def on_for(node, st, _orig=fl.on_for):
        if fl._is_dep_iter(node.iter, st):
            return ()
        return _orig(node, st)

    fl.on_for = on_for
    try:
        out = fl.block(ra['outer'].body, {frozenset()})
    except wsa.Undischarged as u:
        return u.msg
    finals = out.normal | out.cont | out.brk
    if not finals:
        return 'no path'
    rel = {x[1] for st in finals for x in st if x[0] == 'released'}
    return True if not rel else f'moved to {sorted(rel)}'


class _Count(Flow):
    """counts calls of interest along each path: state = tuple of (name, count) + flags"""

    def __init__(self, prog, f, names):
        super().__init__()
        self.prog = prog
        self.f = f
        self.names = names  # qname -> label

    def on_call(self, call, st):
        sym = self.prog.callee(call, self.f)
        fn = self.prog.func_of(sym) if sym else None
        q = fn.qname if fn is not None else sym
        if q in self.names:
            d = dict(st)
            lab = self.names[q]
            d[lab] = min(d.get(lab, 0) + 1, 3)
            d.setdefault('order', ())
            d['order'] = d['order'] + (lab,)
            return (tuple(sorted(d.items())),)
        return (st,)


def rule2(ctx, rep):
    prog = ctx.prog
    disp = prog.nfunc('dawgie.pl.farm.dispatch')
    put = prog.nfunc('dawgie.pl.farm._put')
    rep.analysed(disp, put)
    with rep.rule(
        'R-C03-2',
        'one message per released (job, target); do drained and job dropped from the batch after queuing; the batch shrinks nowhere else',
        floor=3,
        breaks='a released unit is queued twice (do not cleared) or handed to two workers / lost (unpaired pops)',
    ) as r:
        # _put appends exactly one message on every path
        class Ap(Flow):
            def on_call(s, call, st):
                if isinstance(call.func, ast.Attribute) and call.func.attr in ('append', 'extend', 'insert'):
                    tgts = {shared.resolve_container(prog, put, x) for x in ast.walk(call.func.value) if isinstance(x, (ast.Name, ast.Attribute))}
                    if tgts & {'dawgie.pl.farm._cluster', 'dawgie.pl.farm._cloud'}:
                        return (min(st + 1, 3),)
                return (st,)

        ex = Ap().exits(put.node, 0)
        r.instance()
        r.check(ex == {1}, f'{put.qname}:appends-exactly-once', where(put), 'exactly one append to _cluster/_cloud on every path', f'_put appends {sorted(ex)} messages depending on the path (expected exactly 1)')
        # dispatch: per job iteration: after the _put calls, do.clear() and _jobs.remove(j) on every normal path
        loop, jv = shared.job_loop(prog, disp)

        class It(Flow):
            def on_call(s, call, st):
                put_n, cleared, removed = st
                sym = prog.callee(call, disp)
                if sym == put.qname:
                    if cleared or removed:
                        return (('late-put', cleared, removed),)
                    return ((1, cleared, removed),)
                if isinstance(call.func, ast.Attribute) and call.func.attr == 'clear':
                    gk = get_key(call.func.value)
                    if gk and gk[1] == 'do' and isinstance(gk[0], ast.Name) and gk[0].id == jv:
                        return ((put_n, True, removed),)
                if isinstance(call.func, ast.Attribute) and call.func.attr == 'remove' and shared.resolve_container(prog, disp, call.func.value) == 'dawgie.pl.farm._jobs':
                    if call.args and isinstance(call.args[0], ast.Name) and call.args[0].id == jv:
                        return ((put_n, cleared, True),)
                if isinstance(call.func, ast.Attribute) and call.func.attr in ('pop', 'popleft') and shared.resolve_container(prog, disp, call.func.value) == 'dawgie.pl.farm._jobs':
                    # the job leaves the batch here (before its messages exist if a _put follows: 'late-put')
                    return ((put_n, cleared, True),)
                return (st,)

        it = It()
        out = it.block(loop.body, {(0, False, False)})
        finals = out.normal | out.cont
        r.instance()
        bad = sorted({st for st in finals if not (st[1] and st[2]) or st[0] == 'late-put'}, key=str)
        r.check(
            not bad and bool(finals),
            f'{disp.qname}:do-drained-and-job-dropped',
            where(disp, loop),
            "every normal path of one job iteration executes <job>.get('do').clear() and _jobs.remove(<job>) after the _put calls",
            f'a path through the job iteration leaves the do set or the batch entry behind (states (put, cleared, removed) = {bad}): the unit would be queued again on the next tick',
        )
        # who-may-shrink the batch: besides the per-job removal above only farm.clear() (the whole estate is reset on a
        # reload) may take jobs out of _jobs - their targets are already in `doing`, so a job that silently leaves the
        # batch is never offered again (added after seeded change C02-4: `_jobs.clear()` in dispatch's except handler)
        JOBS = 'dawgie.pl.farm._jobs'
        in_loop = {id(x) for b in loop.body for x in ast.walk(b)}
        for fn in prog.funcs.values():
            if not fn.module.name.startswith('dawgie.'):
                continue
            g = prog.nfunc(fn.qname) if fn.qname == disp.qname else fn
            globs = {n for x in g.own_nodes() if isinstance(x, ast.Global) for n in x.names}
            for n in g.own_nodes():
                site = None
                if isinstance(n, ast.Call) and isinstance(n.func, ast.Attribute) and n.func.attr in ('clear', 'pop', 'popleft', 'remove', '__delitem__') and shared.resolve_container(prog, g, n.func.value) == JOBS:
                    site = n
                elif isinstance(n, ast.Delete) and any(isinstance(t, ast.Subscript) and shared.resolve_container(prog, g, t.value) == JOBS for t in n.targets):
                    site = n
                elif isinstance(n, (ast.Assign, ast.AugAssign)):
                    tg = n.targets if isinstance(n, ast.Assign) else [n.target]
                    for t in tg:
                        base = t.value if isinstance(t, ast.Subscript) else t
                        if isinstance(base, ast.Attribute) and prog.resolve_in(base, g) == JOBS:
                            site = n
                        if isinstance(base, ast.Name) and base.id == '_jobs' and (base.id in globs or isinstance(t, ast.Subscript)) and g.module.name == 'dawgie.pl.farm':
                            site = n
                if site is None:
                    continue
                r.instance()
                okw = g.qname == 'dawgie.pl.farm.clear' or (g.qname == disp.qname and id(site) in in_loop and isinstance(site, ast.Call) and site.func.attr in ('remove', 'pop', 'popleft'))
                r.check(
                    okw,
                    f'{g.qname}:{norm(site)[:80]}',
                    where(g, site),
                    'batch entries leave _jobs only per job after their messages exist, or in farm.clear()',
                    f'{g.qname}: {norm(site)[:80]} takes jobs out of the batch outside the per-job hand-over: their targets stay in `doing` and are never offered again',
                )
        # the pairing of one idle worker with one message (and the bound of that loop) is decided by the hand-over model
        # of C11 (R-C11-2 / R-C11-4, borrowed in check()): it recognises the pairing however the loop is written


def rule3(ctx, rep):
    prog = ctx.prog
    f = prog.nfunc('dawgie.pl.farm.Hand._res')
    rep.analysed(f)
    with rep.rule(
        'R-C03-3',
        'reply applied exactly once: find -> complete exactly once -> exactly one of update / purge; only IndexError of find is swallowed',
        floor=3,
        breaks='a result is recorded twice, never, or both propagated and purged',
    ) as r:
        names = {
            'dawgie.pl.schedule.find': 'find',
            'dawgie.pl.schedule.complete': 'complete',
            'dawgie.pl.schedule.update': 'update',
            'dawgie.pl.schedule.purge': 'purge',
        }

        class C(_Count):
            def may_raise(s, call, st):
                # only the lookup may legitimately fail (IndexError); failures inside complete/update are not modelled (ND)
                sym = prog.callee(call, f)
                return sym == 'dawgie.pl.schedule.find' and dict(st).get('find', 0) == 0

        fl = C(prog, f, names)
        out = fl.run(f.node, ())
        finals = out.normal | out.ret
        r.instance()
        bad = []
        for st in finals:
            d = dict(st)
            if d.get('find', 0) == 0:
                continue  # lookup failed: nothing applied, checked below
            order = d.get('order', ())
            ok = d.get('complete', 0) == 1 and (d.get('update', 0) + d.get('purge', 0)) == 1 and order.index('complete') < min(
                [order.index(x) for x in ('update', 'purge') if x in order] or [99]
            ) and order.index('find') < order.index('complete')
            if not ok:
                bad.append(order)
        r.check(
            not bad and any(dict(st).get('find') for st in finals),
            f'{f.qname}:exactly-once',
            where(f),
            'every path on which the job is found: find, complete x1, then exactly one of update/purge',
            f'paths with a different call sequence: {sorted(set(bad))}',
        )
        # the job handed to complete/update/purge is the one returned by find, the ids come from the message
        r.instance()
        fc = calls_to(prog, f, 'dawgie.pl.schedule.find')
        cc = calls_to(prog, f, 'dawgie.pl.schedule.complete')
        okargs = False
        det = ''
        if len(fc) == 1 and cc:
            st = [s for s in f.own_nodes() if isinstance(s, ast.Assign) and s.value is fc[0] and isinstance(s.targets[0], ast.Name)]
            if st:
                jobv = st[0].targets[0].id
                msgp = f.params()[0]
                okargs = (
                    isinstance(fc[0].args[0], ast.Attribute)
                    and norm(fc[0].args[0]) == f'{msgp}.jobid'
                    and all(isinstance(c.args[0], ast.Name) and c.args[0].id == jobv for c in cc)
                    and all(norm(c.args[1]) == f'{msgp}.runid' for c in cc)
                )
                det = f'find({msgp}.jobid) -> {jobv} -> complete({jobv}, {msgp}.runid, ...)'
        r.check(okargs, f'{f.qname}:job-provenance', where(f), det, 'the job completed is not the one looked up by the job id of the reply (or the run id is not the reply\'s)')
        # swallowed exceptions
        r.instance()
        hs = [h for n in f.own_nodes() if isinstance(n, ast.Try) for h in n.handlers]
        types = sorted(norm(h.type) if h.type is not None else 'bare' for h in hs)
        r.check(types == ['IndexError'], f'{f.qname}:handlers', where(f), 'only IndexError (failed lookup) is swallowed', f'exception handlers {types}: a failure while applying the result would be swallowed silently')


_SHAPE_FN = [None]  # function whose single-assignment locals may be expanded while a key shape is computed


def _local_def(name):
    fn = _SHAPE_FN[0]
    if fn is None:
        return None
    defs = [s.value for s in fn.own_nodes() if isinstance(s, ast.Assign) and any(isinstance(t, ast.Name) and t.id == name for t in s.targets)]
    return defs[0] if len(defs) == 1 else None


def _key_shape(e, base, _depth=0):
    """shape of a busy-list key expression: list of ('fld', attr) / ('lit', text) / ('dflt', attr, text)"""
    # `d if not x else x` is `x if x else d`
    while isinstance(e, ast.IfExp) and isinstance(e.test, ast.UnaryOp) and isinstance(e.test.op, ast.Not):
        e = ast.IfExp(test=e.test.operand, body=e.orelse, orelse=e.body)
    if isinstance(e, ast.Name) and e.id != base and _depth < 4:
        d = _local_def(e.id)
        if d is not None:
            return _key_shape(d, base, _depth + 1)
    if isinstance(e, ast.Call) and isinstance(e.func, ast.Attribute) and e.func.attr == 'join' and isinstance(e.func.value, ast.Constant) and e.func.value.value == '' and len(e.args) == 1 and isinstance(e.args[0], (ast.Tuple, ast.List)):
        out = []
        for x in e.args[0].elts:
            s = _key_shape(x, base, _depth)
            if s is None:
                return None
            out += s
        return out
    if isinstance(e, (ast.IfExp, ast.BoolOp)):
        # <x> if <x> else 'dflt'  /  <x> or 'dflt'  where <x> is a local that already carries the same default
        inner, dflt = None, None
        if isinstance(e, ast.IfExp) and norm(e.test) == norm(e.body) and isinstance(e.orelse, ast.Constant):
            inner, dflt = e.body, e.orelse.value
        elif isinstance(e, ast.BoolOp) and isinstance(e.op, ast.Or) and len(e.values) == 2 and isinstance(e.values[1], ast.Constant):
            inner, dflt = e.values[0], e.values[1].value
        if isinstance(inner, ast.Name) and inner.id != base:
            s = _key_shape(inner, base, _depth + 1)
            if s is not None and len(s) == 1:
                if s[0][0] == 'fld':
                    return [('dflt', s[0][1], dflt)]
                if s[0][0] == 'dflt' and s[0][2] == dflt:
                    return s
    if isinstance(e, ast.BinOp) and isinstance(e.op, ast.Add):
        a, b = _key_shape(e.left, base), _key_shape(e.right, base)
        return None if a is None or b is None else a + b
    if isinstance(e, ast.Constant) and isinstance(e.value, str):
        return [('lit', e.value)]
    if isinstance(e, ast.Attribute) and isinstance(e.value, ast.Name) and e.value.id == base:
        return [('fld', e.attr)]
    if isinstance(e, ast.IfExp) and norm(e.test) == norm(e.body) and isinstance(e.body, ast.Attribute) and isinstance(e.orelse, ast.Constant):
        return [('dflt', e.body.attr, e.orelse.value)]
    if isinstance(e, ast.BoolOp) and isinstance(e.op, ast.Or) and len(e.values) == 2 and isinstance(e.values[0], ast.Attribute) and isinstance(e.values[1], ast.Constant):
        return [('dflt', e.values[0].attr, e.values[1].value)]
    if isinstance(e, ast.JoinedStr):
        out = []
        for v in e.values:
            if isinstance(v, ast.Constant):
                out.append(('lit', v.value))
            elif isinstance(v, ast.FormattedValue):
                s = _key_shape(v.value, base)
                if s is None:
                    return None
                out += s
        return out
    return None


def _merge_lits(shape):
    out = []
    for s in shape:
        if s[0] == 'lit' and out and out[-1][0] == 'lit':
            out[-1] = ('lit', out[-1][1] + s[1])
        else:
            out.append(s)
    return out


def rule4(ctx, rep):
    prog = ctx.prog
    with rep.rule(
        'R-C03-4',
        'busy list = in flight: appended only when a task is handed out, removed only by its reply (or clear); key shapes agree under the reply field correspondence',
        floor=6,
        breaks='the crew view shows units that are not in flight / never clears a finished one (CREW-priority reload waits forever)',
    ) as r:
        owners_add = {'dawgie.pl.farm.Hand.do', 'dawgie.pl.worker.aws.Contractor._reg'}
        owners_del = {'dawgie.pl.farm.Hand._res', 'dawgie.pl.farm.clear'}
        shapes = {}
        for fn in [prog.nfunc(q) if q.startswith(('dawgie.pl.farm', 'dawgie.pl.worker.aws')) else f0 for q, f0 in prog.funcs.items()]:
            for c in fn.calls():
                if isinstance(c.func, ast.Attribute) and shared.resolve_container(prog, fn, c.func.value) == 'dawgie.pl.farm._busy':
                    m = c.func.attr
                    if m in ('append', 'extend', 'insert'):
                        r.instance()
                        rep.analysed(fn)
                        r.check(fn.qname in owners_add, f'{fn.qname}:{norm(c)[:60]}', where(fn, c), 'append at a hand-out site', f'{fn.qname} appends to the busy list but does not hand a task to a worker')
                        if c.args:
                            base = fn.params()[1] if len(fn.params()) > 1 else None
                            _SHAPE_FN[0] = fn
                            shapes[fn.qname] = (_key_shape(c.args[0], base), c, fn)
                    elif m in ('remove', 'pop', 'clear'):
                        r.instance()
                        rep.analysed(fn)
                        r.check(fn.qname in owners_del, f'{fn.qname}:{norm(c)[:60]}', where(fn, c), 'removal by the reply handler / clear', f'{fn.qname} removes from the busy list outside the reply handler')
        # the key removed in _res
        res = prog.nfunc('dawgie.pl.farm.Hand._res')
        msgp = res.params()[0]
        rm = [c for c in res.calls() if isinstance(c.func, ast.Attribute) and c.func.attr == 'remove' and shared.resolve_container(prog, res, c.func.value) == 'dawgie.pl.farm._busy']
        if not rm or not isinstance(rm[0].args[0], ast.Name):
            raise AnalysisError('Hand._res: removal of the busy key not found')
        kv = rm[0].args[0].id
        defs = [s.value for s in res.own_nodes() if isinstance(s, ast.Assign) and any(isinstance(t, ast.Name) and t.id == kv for t in s.targets)]
        if len(defs) != 1:
            raise AnalysisError('Hand._res: busy key is not defined exactly once')
        _SHAPE_FN[0] = res
        rshape = _key_shape(defs[0], msgp)
        # field correspondence task message -> reply message, established by the workers' reply constructions
        corr = _reply_correspondence(ctx, rep, r)
        want = None
        if rshape is not None:
            want = _merge_lits([(s[0], corr.get(s[1], s[1])) + tuple(s[2:]) if s[0] in ('fld', 'dflt') else s for s in rshape])
        for q, (shape, call, fn) in sorted(shapes.items()):
            r.instance()
            have = _merge_lits(shape) if shape is not None else None
            r.check(
                have is not None and want is not None and have == want,
                f'{q}:busy-key-shape',
                where(fn, call),
                f'key shape {have} matches the reply handler under {corr}',
                f'busy key built in {q} has shape {have}; the reply handler removes {want} (reply fields mapped through {corr}): the entry would never be cleared',
            )
        # _time is maintained under the same key in the same functions
        for fn in [prog.nfunc(q) if q.startswith(('dawgie.pl.farm', 'dawgie.pl.worker.aws')) else f0 for q, f0 in prog.funcs.items()]:
            for n in fn.own_nodes():
                tg = None
                if isinstance(n, ast.Assign) and isinstance(n.targets[0], ast.Subscript):
                    tg = n.targets[0]
                elif isinstance(n, ast.Delete) and isinstance(n.targets[0], ast.Subscript):
                    tg = n.targets[0]
                if tg is not None and shared.resolve_container(prog, fn, tg.value) == 'dawgie.pl.farm._time':
                    r.instance()
                    r.check(fn.qname in owners_add | owners_del, f'{fn.qname}:{norm(n)[:60]}', where(fn, n), '_time maintained next to _busy', f'{fn.qname} writes farm._time outside the busy-list owners')


def _reply_correspondence(ctx, rep, r):
    """reply.incarnation <- task.target, reply.jobid <- task.jobid: read from every reply construction of the workers"""
    prog = ctx.prog
    corr = {}
    n = 0
    for q in ('dawgie.pl.worker.cluster.execute', 'dawgie.pl.worker.aws.execute'):
        if not prog.has_func(q):
            continue
        fn = prog.nfunc(q)
        rep.analysed(fn)
        for c in calls_to(prog, fn, 'dawgie.pl.message.make'):
            typ = arg(c, None, 'typ')
            if typ is None or not norm(typ).endswith('Type.response'):
                continue
            inc, jid, rid = arg(c, None, 'inc'), arg(c, None, 'jid'), arg(c, None, 'rid')
            if inc is None and jid is None:
                continue
            n += 1
            r.instance()
            ok = (
                isinstance(inc, ast.Attribute) and inc.attr == 'target'
                and isinstance(jid, ast.Attribute) and jid.attr == 'jobid'
                and isinstance(rid, ast.Attribute) and rid.attr == 'runid'
                and len({norm(inc.value), norm(jid.value), norm(rid.value)}) == 1
            )
            r.check(
                ok,
                f'{q}:{norm(c)[:70]}',
                where(fn, c),
                'reply carries inc=<task>.target, jid=<task>.jobid, rid=<task>.runid',
                f'reply construction {norm(c)[:120]} does not echo target/jobid/runid of the task it answers: the reply would be applied to another unit or not found',
            )
            if ok:
                corr['incarnation'] = 'target'
                corr['jobid'] = 'jobid'
    if n < 3:
        raise AnalysisError(f'only {n} worker reply constructions found (expected success / invalid / failure)')
    return corr


def rule5(ctx, rep):
    """cloud hand-over (added after seeded change C04-5: a failed push in Connect.hire neither hired nor handed the job
    back; the unit left farm's lists for good while its target stayed in `doing`)"""
    prog = ctx.prog
    cls = prog.cls('dawgie.pl.worker.aws.Connect')
    with rep.rule(
        'R-C03-5',
        'cloud hand-over: every step of the hiring exchange (methods of aws.Connect) ends, on every normal path, in exactly one of: next step scheduled, contractor recorded as hired, job handed back through the respond callback',
        floor=3,
        breaks='a unit handed to the cloud path silently disappears: it is in no list of the farm, its target stays in `doing` and nothing re-releases it',
    ) as r:
        # steps: the methods of the exchange; helpers extracted later (called directly by a step) are analysed inline
        steps = [m for n, m in sorted(cls.methods.items()) if not n.startswith('__') and not shared.inlined_helper(prog, ctx.cg, m)]
        for m in steps:
            f = prog.nfunc(m.qname)
            rep.analysed(f)

            class St(Flow):
                def on_call(s, call, st):
                    fn = call.func
                    hit = False
                    if isinstance(fn, ast.Attribute) and isinstance(fn.value, ast.Name) and fn.value.id == 'self' and fn.attr in ('_respond', '_call_later'):
                        hit = True
                    if isinstance(fn, ast.Attribute) and fn.attr in ('append', 'add') and isinstance(fn.value, (ast.Name, ast.Attribute)) and (prog.resolve_in(fn.value, f) or '').endswith('aws._contractors'):
                        hit = True
                    return (min(st + 1, 2),) if hit else (st,)

            fl = St()
            out = fl.run(f.node, 0)
            exits = out.normal | out.ret
            r.instance()
            r.check(
                exits == {1},
                f'{m.qname}:one-outcome',
                where(f),
                'every normal path continues, hires or hands the job back exactly once',
                f'{m.qname} can return after {sorted(exits)} outcomes (next step scheduled / hired / handed back): with 0 the job is lost, with 2 it is both kept and handed back',
            )


def rule6(ctx, rep):
    """an in-flight unit stays in `doing` and findable until its reply (the own-doing filter of R-C03-1 and the lookup
    of R-C03-3 both rely on it).  Added after the history found while confirming seeded change C03-3: purge() withdraws
    a failed target from the `doing` set of dependents that are executing it."""
    prog = ctx.prog
    with rep.rule(
        'R-C03-6',
        'the doing set is truthful: a target leaves `doing` only where the reply is applied (schedule.complete); while some other site strips it, every queue rebuild keeps the entries that are already queued',
        floor=2,
        breaks='a unit that is still executing looks idle: it is released a second time while the first execution has not replied, or its job leaves the queue and the reply is dropped',
    ) as r:
        from .. import wsa as _w

        strip = []
        for o in _w.all_ops(prog):
            if o.kind == 'doing' and o.op in _w.SHRINK:
                if shared.inlined_helper(prog, ctx.cg, o.func):
                    continue  # seen again, spliced into its caller
                r.instance()
                rep.analysed(o.func)
                ok = o.func.qname == 'dawgie.pl.schedule.complete'
                if not ok:
                    strip.append(o)
                r.check(
                    ok,
                    f'{o.func.qname}:doing-shrinks-outside-reply',
                    o.where,
                    'doing shrinks in complete() (reply applied)',
                    f'{o.func.qname}: {norm(o.node)} takes a target out of `doing` although no reply was applied: the unit is still executing but is no longer protected by the own-doing filter (second concurrent release) nor counted as working',
                )
        for o in _w.all_ops(prog):
            if o.kind == 'que' and o.op == 'rebind' and strip:
                facts = shared.rebind_facts(prog, o)
                if facts['kind'] != 'filtered':
                    continue
                r.instance()
                k = facts.get('table_queued', facts['table'])
                r.check(
                    all(k.values()),
                    f'{o.func.qname}:{norm(o.node)[:100]}:keeps-queued-entries',
                    o.where,
                    'entries already on the queue are kept whatever their sets look like',
                    f'{o.func.qname} rebuilds the queue and drops entries whose todo and doing are empty; because {strip[0].func.qname} strips `doing` of executing units, such an entry can be in flight: its reply no longer finds the job and the result is dropped',
                )


def check(ctx):
    rep = Report(
        PID,
        ctx.tier,
        ctx.prog,
        'Decides the structural half of exactly-once execution: (1) the release filter (abstract truth table) never releases a target that is in '
        'the job\'s own doing set; (2) farm.dispatch queues one message per released (job,target), drains do, drops the batch entry, and pops one '
        'worker per message; (3) farm.Hand._res applies a found reply exactly once (complete then update xor purge) and swallows only the failed '
        'lookup; (4) the busy list is written only at hand-out / reply sites with agreeing key shapes (reply field correspondence read from the '
        'worker reply constructions); (5) every step of the cloud hiring exchange continues, hires or hands the job back. With Inv-A (C01) the job of an in-flight unit is always findable.',
        assumptions=['workers answer every task they accept (property assumption)', 'exceptions raised inside complete/update/purge are not modelled'],
    )
    rep.not_decided = ['workers that never answer', "the exception path inside dispatch's bare except", 'concrete reply orders (the induction is argued in DESIGN.md)']
    rule1(ctx, rep)
    rule2(ctx, rep)
    rule3(ctx, rep)
    rule4(ctx, rep)
    rule5(ctx, rep)
    rule6(ctx, rep)
    def _c11(m):
        model = m.Model(ctx)
        m._rule1(model, rep)
        m._rule2(model, rep)
        m._rule4(model, rep)
        m._rule5(model, rep)
    shared.borrow(ctx, rep, [
        ('c01', lambda m: m.rule2(ctx, rep), 'the task messages made for a job are the targets just released (do), not those already executing'),
        ('c11', _c11, 'a task written to a worker that is gone or stale is a released unit that no one answers'),
        ('c14', lambda m: m._rule1(ctx, rep), 'a result is applied only if its frame is reassembled: the reply stream is cut into messages the same way for every fragmentation'),
        ('c02', lambda m: m._update_rules(ctx, rep, 6), 'the new-value report of a result is propagated by update()/organize(): every reported target must be queued'),
    ])
    return rep


VARIANTS = [
    V('organize drops idle-looking queue entries', 'B', 'pl/schedule.py', 'organize', 'lambda j: j in que or j.get(\'todo\') or j.get(\'doing\')', 'lambda j: j.get(\'todo\') or j.get(\'doing\')', 'R-C03-6'),
    V('complete also discards from do', 'N', 'pl/schedule.py', 'complete', "job.get('doing').clear()", "job.get('doing').clear()\n        job.get('do').clear()", None),
    V('failed hire push drops the job', 'B', 'pl/worker/aws.py', 'Connect.hire', 'else:\n            self._log.warning', 'elif response:\n            self._log.warning', 'R-C03-5'),
    V('interview hands back and continues', 'B', 'pl/worker/aws.py', 'Connect.interview', 'self._respond(self._job, True)', 'self._respond(self._job, True)\n            self._call_later(15, self.interview)', 'R-C03-5'),
    V('own-doing filter removed', 'B', 'pl/schedule.py', 'next_job_batch', "available -= job.get('doing')", 'pass', 'R-C03-1'),
    V('own-doing filter only inside dependency loop', 'B', 'pl/schedule.py', 'next_job_batch', "available -= job.get('doing')  # still executing from an earlier batch\n            for dep in jobs.keys() & job.get('ancestry'):", "for dep in jobs.keys() & job.get('ancestry'):\n                available -= job.get('doing')", 'R-C03-1'),
    V('do not cleared', 'B', 'pl/farm.py', 'dispatch', "j.get('do').clear()", 'pass', 'R-C03-2'),
    V('job not dropped from batch', 'B', 'pl/farm.py', 'dispatch', '_jobs.remove(j)', 'pass', 'R-C03-2'),
    V('batch cleared in the except handler', 'B', 'pl/farm.py', 'dispatch', 'log.exception("Error processing from next_job_batch()")', 'log.exception("Error processing from next_job_batch()")\n        _jobs.clear()', 'R-C03-2'),
    V('_put appends twice', 'B', 'pl/farm.py', '_put', ').append(msg)', ').append(msg)\n    _cluster.append(msg)', 'R-C03-2'),
    V('worker not popped', 'B', 'pl/farm.py', 'dispatch', '_workers.pop(0).do(_cluster.pop(0))', '_workers[0].do(_cluster.pop(0))', 'R-C11-2'),
    V('loop bound len(_cluster)', 'B', 'pl/farm.py', 'dispatch', 'range(min(len(_cluster), len(_workers)))', 'range(len(_cluster))', 'R-C11-4'),
    V('purge and update both called', 'B', 'pl/farm.py', 'Hand._res', 'else:\n                dawgie.pl.schedule.purge(job, inc)', 'dawgie.pl.schedule.purge(job, inc)', 'R-C03-3'),
    V('complete called twice', 'B', 'pl/farm.py', 'Hand._res', 'dawgie.pl.schedule.complete(job, msg.runid, inc, msg.timing, state)', 'dawgie.pl.schedule.complete(job, msg.runid, inc, msg.timing, state)\n            dawgie.pl.schedule.complete(job, msg.runid, inc, msg.timing, state)', 'R-C03-3'),
    V('update before complete', 'B', 'pl/farm.py', 'Hand._res', 'dawgie.pl.schedule.complete(job, msg.runid, inc, msg.timing, state)\n', 'pass\n', 'R-C03-3'),
    V('bare except', 'B', 'pl/farm.py', 'Hand._res', 'except IndexError:', 'except Exception:', 'R-C03-3'),
    V('busy key with other bracket', 'B', 'pl/farm.py', 'Hand.do', "task.jobid + '['", "task.jobid + '('", 'R-C03-4'),
    V('reply echoes jobid as incarnation', 'B', 'pl/worker/cluster.py', 'execute', 'inc=m.target,\n                jid=m.jobid,\n                rid=m.runid,\n                suc=None,', 'inc=m.jobid,\n                jid=m.jobid,\n                rid=m.runid,\n                suc=None,', 'R-C03-4'),
    V('busy appended at registration', 'B', 'pl/farm.py', 'Hand._reg', '_workers.append(self)', "_workers.append(self)\n            _busy.append('registered')", 'R-C03-4'),
    V('busy key as f-string', 'N', 'pl/farm.py', 'Hand.do', "task.jobid + '[' + (task.target if task.target else '__all__') + ']'", "f\"{task.jobid}[{task.target if task.target else '__all__'}]\"", None),
    V('own-doing filter as difference_update', 'N', 'pl/schedule.py', 'next_job_batch', "available -= job.get('doing')", "available.difference_update(job.get('doing'))", None),
]
