"""C02  Reprocessing after a change is complete and minimal.

The rules are decided by *small-model symbolic execution*: the anchored functions are interpreted over
symbolic values (``_Sym``, built on the engine's path-sensitive ``Flow``) for a model that contains one
*focus* element and one *other* element of every collection that is iterated (report entries, children of
the reporting node, declared references), in every iteration order, under every assignment of the atoms
that the code can test (``is the entry flagged new``, ``does the reference name the entry``, ...).  What is
compared with the specification is the *outcome* (the arguments that reach ``schedule.organize``, the
sequence complete/update, the value returned), never the text of the function: loops may be rewritten as
comprehensions, guards reordered, helpers extracted (callees of the same module are interpreted in line).
"""

import ast
import itertools

from .. import AnalysisError
from ..flow import Flow, Out
from ..report import Report
from ..util import where, norm, calls_to, get_key, arg, call_name, walk_no_nested
from ..variants import V
from .. import wsa
from . import shared

PID = 'C02'

# ---------------------------------------------------------------------------
# symbolic core
#
# state  = (env, heap, trace)
#   env   frozenset of (local name, value)
#   heap  frozenset of (object id, frozenset of element values)   -- mutable sets / lists (accumulators)
#   trace tuple of events (role calls that matter to the rule)
# values = hashable tuples:
#   ('const', v) ('opaque', text) ('sym', dotted) ('p', name) ('obj', oid) ('list', items) ('mlist', kind, items)
#   ('str', base, lo, hi)  = '.'.join(fields[lo:hi]) of the dotted string `base`
#   ('attr', base, name) ('mcall', recv, name, args) ('lambda', key) + whatever the model introduces


def _eget(fs, k, d=None):
    for a, b in fs:
        if a == k:
            return b
    return d


def _eset(fs, k, v):
    return frozenset([(a, b) for a, b in fs if a != k] + [(k, v)])


def _is_opaque(v):
    return v[0] in ('opaque', 'elements-of')


class _Model:
    """domain knowledge plugged into the interpreter; every hook may decline (None / NotImplemented)"""

    def symbol(self, sym):
        return None

    def attr(self, base, name):
        return None

    def items(self, val):
        return None

    def truthy(self, val):
        return None

    def eq(self, a, b):
        return None

    def member(self, x, coll):
        return None

    def isinstance(self, val, tsym):
        return None

    def subscript(self, base, idx):
        return None

    def method(self, it, node, recv, name, a, kw, st):
        return NotImplemented

    def call(self, it, node, sym, a, kw, st):
        return NotImplemented

    def inline_ok(self, callee):
        return True


_PURE_BUILTINS = {'str', 'repr', 'len', 'print', 'id', 'hash', 'type', 'round', 'int', 'float', 'min', 'max', 'sum', 'abs', 'format', 'hasattr', 'callable'}
_COPY_BUILTINS = {'set', 'frozenset', 'list', 'tuple', 'sorted', 'reversed', 'iter'}


class _Sym(Flow):
    MAXDEPTH = 2

    def __init__(self, prog, func, model, sh, depth=0):
        super().__init__()
        self.prog = prog
        self.f = func
        self.m = model
        self.sh = sh  # shared across inlined callees: problems, lambdas, loops
        self.depth = depth
        sh.setdefault('problems', {})
        sh.setdefault('lambdas', {})
        sh.setdefault('loops', {})
        sh.setdefault('funcs', set()).add(func.qname)

    # ------------------------------------------------------------ bookkeeping
    def problem(self, node, msg):
        key = f'{self.f.qname}:{norm(node)[:110]}'
        self.sh['problems'].setdefault(key, (where(self.f, node), msg))

    def may_raise(self, call, st):
        return False  # exception edges are registered explicitly by the models (e.g. the failed lookup)

    def raises(self, st):
        if self._try:
            self._try[-1].add(st)

    def new_obj(self, st, node, toks):
        oid = ('o', self.f.qname, getattr(node, 'lineno', 0), getattr(node, 'col_offset', 0), type(node).__name__)
        env, heap, trace = st
        return ('obj', oid), (env, _eset(heap, oid, frozenset(toks)), trace)

    @staticmethod
    def emit(st, ev):
        return (st[0], st[1], st[2] + (ev,))

    def tokens(self, val, st):
        """elements of a collection value"""
        if val[0] == 'obj':
            return _eget(st[1], val[1], frozenset())
        if val[0] == 'list':
            return frozenset(val[1])
        if val[0] == 'mlist':
            return frozenset(val[2])
        it = self.m.items(val)
        if it is not None:
            return frozenset(it[1])
        return frozenset([('elements-of', val)])

    def items(self, val, st):
        """-> ('ordered'|'generic', tuple of element values) or None"""
        it = self.m.items(val)
        if it is not None:
            return it
        if val[0] == 'list':
            return ('ordered', tuple(val[1]))
        if val[0] == 'mlist':
            return ('generic', tuple(val[2]))
        if val[0] == 'obj':
            return ('generic', tuple(sorted(_eget(st[1], val[1], frozenset()), key=repr)))
        return None

    # ------------------------------------------------------------- statements
    _SIMPLE = (ast.Assign, ast.AugAssign, ast.AnnAssign, ast.Expr, ast.Delete, ast.Assert, ast.Pass, ast.Global, ast.Nonlocal, ast.Import, ast.ImportFrom)

    def stmt(self, s, states):
        if isinstance(s, self._SIMPLE):
            self.visited += 1
            return Out(self._each(self.on_stmt, s, states))
        return super().stmt(s, states)

    def on_stmt(self, s, st):
        if isinstance(s, ast.Assign):
            out = []
            for v, s1 in self.ev(s.value, st):
                cur = [s1]
                for t in s.targets:
                    cur = [s3 for s2 in cur for s3 in self.bind(t, v, s2)]
                out.extend(cur)
            return out
        if isinstance(s, ast.AnnAssign):
            if s.value is None:
                return (st,)
            return [s2 for v, s1 in self.ev(s.value, st) for s2 in self.bind(s.target, v, s1)]
        if isinstance(s, ast.AugAssign):
            return self._augassign(s, st)
        if isinstance(s, ast.Expr):
            return [s1 for _v, s1 in self.ev(s.value, st)]
        return (st,)

    def _augassign(self, s, st):
        out = []
        if not isinstance(s.target, ast.Name):
            return [s1 for _v, s1 in self.ev(s.value, st)]
        cur = _eget(st[0], s.target.id)
        for v, s1 in self.ev(s.value, st):
            if cur is not None and cur[0] == 'obj':
                if isinstance(s.op, (ast.BitOr, ast.Add)):
                    toks = self.tokens(cur, s1) | self.tokens(v, s1)
                    out.append((s1[0], _eset(s1[1], cur[1], toks), s1[2]))
                else:
                    self.problem(s, f'accumulator {s.target.id} is shrunk or replaced by {norm(s)}: contributions of other elements can be lost')
                    out.append(s1)
            else:
                out.append((_eset(s1[0], s.target.id, ('opaque', norm(s))), s1[1], s1[2]))
        return out

    def bind(self, tgt, val, st):
        if isinstance(tgt, ast.Name):
            return [(_eset(st[0], tgt.id, val), st[1], st[2])]
        if isinstance(tgt, (ast.Tuple, ast.List)):
            items = None
            if val[0] == 'list' and len(val[1]) == len(tgt.elts) and not any(isinstance(e, ast.Starred) for e in tgt.elts):
                items = val[1]
            cur = [st]
            for i, el in enumerate(tgt.elts):
                v = items[i] if items is not None else ('opaque', f'{norm(tgt)}[{i}]')
                if isinstance(el, ast.Starred):
                    el = el.value
                cur = [s2 for s1 in cur for s2 in self.bind(el, v, s1)]
            return cur
        return [st]  # attribute / subscript stores are not tracked

    def _s_Return(self, s, states):
        o = Out()
        for st in states:
            if s.value is None:
                o.ret.add((_eset(st[0], '$ret', ('const', None)), st[1], st[2]))
            else:
                for v, s1 in self.ev(s.value, st):
                    o.ret.add((_eset(s1[0], '$ret', v), s1[1], s1[2]))
        return o

    def _s_For(self, s, states):
        out = Out()
        done, brk = set(), set()
        generic_in = set()
        for st in states:
            for itv, s1 in self.ev(s.iter, st):
                it = self.items(itv, s1)
                if it is None:
                    generic_in.add(s1)
                    self.sh['loops'].setdefault(norm(s.iter), 'unknown')
                    continue
                kind, elems = it
                self.sh['loops'].setdefault(norm(s.iter), repr(itv)[:80])
                orders = list(itertools.permutations(elems)) if kind == 'generic' and len(elems) <= 3 else [elems]
                for perm in orders:
                    cur = {s1}
                    for el in perm:
                        ent = set()
                        for c in cur:
                            ent.update(self.bind(s.target, el, c))
                        ob = self.block(s.body, self._cap(ent))
                        out.ret |= ob.ret
                        out.exc |= ob.exc
                        brk |= ob.brk
                        cur = ob.normal | ob.cont
                        if not cur:
                            break
                    done |= cur
        if generic_in:
            # unknown iterable: 0..n iterations over an opaque element (engine fix-point)
            o = super()._s_For(s, generic_in)
            out.absorb(o, True)
        if s.orelse:
            oe = self.block(s.orelse, done)
            out.absorb(oe, True)
        else:
            out.normal |= done
        out.normal |= brk
        self._cap(out.normal)
        return out

    def on_for(self, node, st):
        return self.bind(node.target, ('opaque', f'element of {norm(node.iter)}'), st)

    def on_handler(self, h, st):
        return (st,)

    def on_test(self, e, st):
        t, f = [], []
        for tv, s1 in self.truth(e, st):
            if tv is not False:
                t.append(s1)
            if tv is not True:
                f.append(s1)
        return t, f

    # ------------------------------------------------------------ expressions
    def _seq(self, exprs, st):
        res = [((), st)]
        for e in exprs:
            nxt = []
            for vals, s in res:
                for v, s2 in self.ev(e, s):
                    nxt.append((vals + (v,), s2))
            res = nxt
        return res

    def ev(self, e, st):
        """-> list of (value, state)"""
        self.visited += 1
        if isinstance(e, ast.Constant):
            return [(('const', e.value), st)]
        if isinstance(e, ast.Name):
            v = _eget(st[0], e.id)
            if v is not None:
                return [(v, st)]
            sym = self.prog.resolve_in(e, self.f)
            if sym and not sym.startswith('local:'):
                mv = self.m.symbol(sym)
                return [(mv if mv is not None else ('sym', sym), st)]
            return [(('opaque', e.id), st)]
        if isinstance(e, ast.Attribute):
            root = e
            while isinstance(root, ast.Attribute):
                root = root.value
            if isinstance(root, ast.Name) and _eget(st[0], root.id) is None:
                sym = self.prog.resolve_in(e, self.f)
                if sym and not sym.startswith('local:'):
                    mv = self.m.symbol(sym)
                    return [(mv if mv is not None else ('sym', sym), st)]
            return [(self.attr(bv, e.attr), s1) for bv, s1 in self.ev(e.value, st)]
        if isinstance(e, ast.Call):
            return self.ev_call(e, st)
        if isinstance(e, ast.Subscript):
            return self._subscript(e, st)
        if isinstance(e, (ast.Compare, ast.BoolOp)) or (isinstance(e, ast.UnaryOp) and isinstance(e.op, ast.Not)):
            if isinstance(e, ast.BoolOp):
                return self._boolop_value(e, st)
            return [((('const', tv) if tv is not None else ('opaque', norm(e))), s1) for tv, s1 in self.truth(e, st)]
        if isinstance(e, ast.IfExp):
            out = []
            for tv, s1 in self.truth(e.test, st):
                if tv is not False:
                    out.extend(self.ev(e.body, s1))
                if tv is not True:
                    out.extend(self.ev(e.orelse, s1))
            return out
        if isinstance(e, ast.Tuple):
            return [(('list', vals), s1) for vals, s1 in self._seq(e.elts, st)]
        if isinstance(e, ast.List):
            if not e.elts:
                v, s1 = self.new_obj(st, e, ())
                return [(v, s1)]
            return [(('list', vals), s1) for vals, s1 in self._seq(e.elts, st)]
        if isinstance(e, ast.Set):
            out = []
            for vals, s1 in self._seq(e.elts, st):
                out.append(self.new_obj(s1, e, vals))
            return out
        if isinstance(e, (ast.SetComp, ast.ListComp, ast.GeneratorExp, ast.DictComp)):
            out = []
            for vals, s1 in self._comp(e, st):
                if isinstance(e, ast.GeneratorExp):
                    out.append((('list', vals), s1))
                elif isinstance(e, ast.DictComp):
                    out.append((('opaque', 'dict comprehension'), s1))
                else:
                    out.append(self.new_obj(s1, e, vals))
            return out
        if isinstance(e, ast.JoinedStr):
            parts = []
            for v in e.values:
                parts.append(v if isinstance(v, ast.Constant) else v.value)
            return [(self._concat(vals), s1) for vals, s1 in self._seq(parts, st)]
        if isinstance(e, ast.BinOp):
            out = []
            for (a, b), s1 in self._seq([e.left, e.right], st):
                if isinstance(e.op, ast.Add):
                    out.append((self._concat(self._flat_concat(a) + self._flat_concat(b)), s1))
                elif isinstance(e.op, ast.BitOr) and (a[0] == 'obj' or b[0] == 'obj'):
                    out.append(self.new_obj(s1, e, self.tokens(a, s1) | self.tokens(b, s1)))
                else:
                    if a[0] == 'obj' or b[0] == 'obj':
                        self.problem(e, f'set expression {norm(e)} removes elements from an accumulator')
                    out.append((('opaque', norm(e)), s1))
            return out
        if isinstance(e, ast.Lambda):
            key = (self.f.qname, e.lineno, e.col_offset)
            self.sh['lambdas'][key] = (e, self.f)
            return [(('lambda', key), st)]
        if isinstance(e, (ast.Yield, ast.YieldFrom)):
            kind = 'yield' if isinstance(e, ast.Yield) else 'yieldfrom'
            if e.value is None:
                return [(('const', None), self.emit(st, (kind, ('const', None))))]
            return [(('const', None), self.emit(s1, (kind, v))) for v, s1 in self.ev(e.value, st)]
        if isinstance(e, ast.NamedExpr):
            return [(v, s2) for v, s1 in self.ev(e.value, st) for s2 in self.bind(e.target, v, s1)]
        if isinstance(e, ast.Starred):
            return self.ev(e.value, st)
        return [(('opaque', norm(e)[:80]), st)]

    def _boolop_value(self, e, st):
        """value of `a or b` / `a and b` (short circuit)"""
        res = []
        cur = [st]
        for i, v in enumerate(e.values):
            last = i == len(e.values) - 1
            nxt = []
            for s in cur:
                for val, s1 in self.ev(v, s):
                    if last:
                        res.append((val, s1))
                        continue
                    tv = self.truthy(val, s1)
                    stop = tv if isinstance(e.op, ast.Or) else (None if tv is None else not tv)
                    if stop is not False:
                        res.append((val, s1))
                    if stop is not True:
                        nxt.append(s1)
            cur = nxt
        return res

    def attr(self, bv, name):
        r = self.m.attr(bv, name)
        if r is not None:
            return r
        if _is_opaque(bv):
            return ('opaque', f'{bv[1]}.{name}' if isinstance(bv[1], str) else name)
        if bv[0] == 'sym':
            return ('sym', bv[1] + '.' + name)
        return ('attr', bv, name)

    @staticmethod
    def _const_int(node):
        if node is None:
            return True, None
        if isinstance(node, ast.Constant) and isinstance(node.value, int):
            return True, node.value
        if isinstance(node, ast.UnaryOp) and isinstance(node.op, ast.USub) and isinstance(node.operand, ast.Constant) and isinstance(node.operand.value, int):
            return True, -node.operand.value
        return False, None

    def _subscript(self, e, st):
        out = []
        for bv, s1 in self.ev(e.value, st):
            sl = e.slice
            if isinstance(sl, ast.Slice):
                oks = [self._const_int(x) for x in (sl.lower, sl.upper, sl.step)]
                if bv[0] == 'list' and all(o for o, _ in oks):
                    out.append((('list', tuple(bv[1][slice(oks[0][1], oks[1][1], oks[2][1])])), s1))
                else:
                    out.append((('opaque', norm(e)), s1))
                continue
            ok, idx = self._const_int(sl)
            if ok and bv[0] == 'list':
                try:
                    out.append((bv[1][idx], s1))
                except IndexError:
                    out.append((('opaque', norm(e) + ' (index out of range)'), s1))
                continue
            for iv, s2 in self.ev(sl, s1):
                r = self.m.subscript(bv, iv)
                out.append((r if r is not None else ('opaque', norm(e)), s2))
        return out

    # dotted strings ------------------------------------------------------
    @staticmethod
    def _flat_concat(v):
        return list(v[1]) if v[0] == 'concat' else [v]

    @staticmethod
    def _concat(parts):
        """a + '.' + b  /  f'{a}.{b}'  -> dotted join when the literal parts are single dots"""
        parts = list(parts)
        if len(parts) == 1:
            return parts[0]
        fields, expect_val = [], True
        ok = True
        for p in parts:
            if expect_val:
                if p[0] == 'const':
                    ok = False
                    break
                fields.append(p)
            else:
                if p != ('const', '.'):
                    ok = False
                    break
            expect_val = not expect_val
        if ok and not expect_val and len(fields) > 1:
            return _Sym._join('.', fields)
        return ('concat', tuple(parts))

    @staticmethod
    def _join(sep, items):
        items = tuple(items)
        if sep == '.' and items and all(i[0] == 'str' for i in items):
            base = items[0][1]
            pos = items[0][2]
            ok = True
            for i in items:
                if i[1] != base or i[2] != pos:
                    ok = False
                    break
                pos = i[3]
            if ok:
                return ('str', base, items[0][2], pos)
        if len(items) == 1 and sep == '.':
            return items[0]
        return ('joined', sep, items)

    # comprehensions --------------------------------------------------------
    def _comp(self, e, st):
        """-> list of (tuple of element values, state)"""
        env0 = st[0]

        def rec(gi, s):
            if gi == len(e.generators):
                if isinstance(e, ast.DictComp):
                    return [((('opaque', 'dict item'),), s)]
                return [((v,), s2) for v, s2 in self.ev(e.elt, s)]
            g = e.generators[gi]
            res = []
            for itv, s1 in self.ev(g.iter, s):
                it = self.items(itv, s1)
                if it is None:
                    res.append(((('elements-of', itv),), s1))
                    continue
                self.sh['loops'].setdefault(norm(g.iter), repr(itv)[:80])
                acc = [((), s1)]
                for el in it[1]:
                    nxt = []
                    for vals, s2 in acc:
                        for s3 in self.bind(g.target, el, s2):
                            conds = [(True, s3)]
                            for cnd in g.ifs:
                                c2 = []
                                for ok, s4 in conds:
                                    if not ok:
                                        c2.append((False, s4))
                                        continue
                                    for tv, s5 in self.truth(cnd, s4):
                                        if tv is None:
                                            c2.append((True, s5))
                                            c2.append((False, s5))
                                        else:
                                            c2.append((bool(tv), s5))
                                conds = c2
                            for ok, s4 in conds:
                                if ok:
                                    for more, s5 in rec(gi + 1, s4):
                                        nxt.append((vals + more, s5))
                                else:
                                    nxt.append((vals, s4))
                    acc = nxt
                    if len(acc) > 256:
                        raise AnalysisError(f'comprehension {norm(e)[:60]} has too many undecided filters')
                res.extend(acc)
            return res

        return [(vals, (env0, s[1], s[2])) for vals, s in rec(0, st)]

    # truth ---------------------------------------------------------------------
    def truthy(self, v, st):
        r = self.m.truthy(v)
        if r is not None:
            return r
        k = v[0]
        if k == 'const':
            return bool(v[1])
        if k == 'obj':
            return bool(_eget(st[1], v[1], frozenset()))
        if k == 'list':
            return bool(v[1])
        if k == 'mlist':
            return bool(v[2])
        if k in ('str', 'lambda', 'joined', 'concat'):
            return True
        return None

    def eq(self, a, b):
        if a == b and not _is_opaque(a):
            return True
        r = self.m.eq(a, b)
        if r is None:
            r = self.m.eq(b, a)
        if r is not None:
            return r
        if a[0] == 'const' and b[0] == 'const':
            return a[1] == b[1]
        if a[0] == 'sym' and b[0] == 'sym':
            return a[1] == b[1]
        if a[0] == 'str' and b[0] == 'str':
            return False  # different fields of the model are assumed to hold different text
        return None

    def member(self, x, coll, st):
        r = self.m.member(x, coll)
        if r is not None:
            return r
        if coll[0] in ('obj', 'list', 'mlist') or self.m.items(coll) is not None:
            toks = self.tokens(coll, st)
            res = [self.eq(x, t) for t in toks]
            if any(v is True for v in res):
                return True
            if all(v is False for v in res):
                return False
        return None

    def truth(self, e, st):
        """-> list of (True | False | None, state)"""
        if isinstance(e, ast.UnaryOp) and isinstance(e.op, ast.Not):
            return [((None if tv is None else not tv), s1) for tv, s1 in self.truth(e.operand, st)]
        if isinstance(e, ast.BoolOp):
            is_and = isinstance(e.op, ast.And)
            res, cur = [], [(True if is_and else False, st)]
            for v in e.values:
                nxt = []
                for acc, s in cur:
                    for tv, s1 in self.truth(v, s):
                        if is_and:
                            if tv is False:
                                res.append((False, s1))
                            else:
                                nxt.append((acc if tv is True else None, s1))
                        else:
                            if tv is True:
                                res.append((True, s1))
                            else:
                                nxt.append((acc if tv is False else None, s1))
                cur = nxt
            return res + cur
        if isinstance(e, ast.Compare) and len(e.ops) == 1:
            op = e.ops[0]
            out = []
            # len(X) <op> n
            if isinstance(e.left, ast.Call) and isinstance(e.left.func, ast.Name) and e.left.func.id == 'len' and len(e.left.args) == 1:
                okc, n = self._const_int(e.comparators[0])
                for v, s1 in self.ev(e.left.args[0], st):
                    tv = self.truthy(v, s1)
                    r = None
                    if okc and tv is not None:
                        if (isinstance(op, ast.Gt) and n == 0) or (isinstance(op, ast.GtE) and n == 1) or (isinstance(op, ast.NotEq) and n == 0):
                            r = tv
                        elif (isinstance(op, ast.Eq) and n == 0) or (isinstance(op, ast.Lt) and n == 1) or (isinstance(op, ast.LtE) and n == 0):
                            r = not tv
                    out.append((r, s1))
                return out
            if isinstance(e.comparators[0], ast.Call) and isinstance(e.comparators[0].func, ast.Name) and e.comparators[0].func.id == 'len' and isinstance(op, ast.Lt):
                okc, n = self._const_int(e.left)
                if okc and n == 0:
                    return [(self.truthy(v, s1), s1) for v, s1 in self.ev(e.comparators[0].args[0], st)]
            for (a, b), s1 in self._seq([e.left, e.comparators[0]], st):
                r = None
                if isinstance(op, (ast.Eq, ast.NotEq)):
                    r = self.eq(a, b)
                    if r is not None and isinstance(op, ast.NotEq):
                        r = not r
                elif isinstance(op, (ast.In, ast.NotIn)):
                    r = self.member(a, b, s1)
                    if r is not None and isinstance(op, ast.NotIn):
                        r = not r
                elif isinstance(op, (ast.Is, ast.IsNot)):
                    r = self._is(a, b)
                    if r is not None and isinstance(op, ast.IsNot):
                        r = not r
                out.append((r, s1))
            return out
        return [(self.truthy(v, s1), s1) for v, s1 in self.ev(e, st)]

    def _is(self, a, b):
        if a[0] == 'const' and b[0] == 'const':
            return a[1] is b[1] if (a[1] is None or b[1] is None or isinstance(a[1], bool)) else (a[1] == b[1])
        for x, y in ((a, b), (b, a)):
            if y == ('const', None):
                r = self.m.eq(x, y)
                if r is not None:
                    return r
                if x[0] in ('obj', 'list', 'mlist', 'str', 'lambda'):
                    return False
                return None
        return self.eq(a, b)

    # calls ---------------------------------------------------------------------
    def ev_call(self, c, st):
        fn = c.func
        pos = [a.value if isinstance(a, ast.Starred) else a for a in c.args]
        kws = [k for k in c.keywords if k.arg is not None]
        head = []
        as_method = False
        if isinstance(fn, ast.Attribute):
            head = [fn.value]
            as_method = True
        out = []
        for vals, s in self._seq(head + pos + [k.value for k in kws], st):
            i = 1 if as_method else 0
            a = vals[i : i + len(pos)]
            kw = {k.arg: v for k, v in zip(kws, vals[i + len(pos) :])}
            if as_method and vals[0][0] != 'sym':
                out.extend(self.method(c, vals[0], fn.attr, a, kw, s))
            else:
                if as_method:
                    sym = vals[0][1] + '.' + fn.attr
                    csym = self.prog.callee(c, self.f)
                    if csym and not csym.startswith('local:'):
                        sym = csym
                    out.extend(self.function(c, sym, a, kw, s))
                elif isinstance(fn, ast.Name):
                    fv = _eget(s[0], fn.id)
                    if fv is not None and fv[0] == 'lambda':
                        out.extend(self.call_lambda(fv, a, s))
                    elif fv is not None:
                        out.append((('opaque', norm(c)[:80]), s))
                    else:
                        out.extend(self.function(c, self.prog.callee(c, self.f), a, kw, s))
                else:
                    out.append((('opaque', norm(c)[:80]), s))
        return out

    def call_lambda(self, fv, a, st):
        lam, owner = self.sh['lambdas'][fv[1]]
        env0 = st[0]
        env = env0
        names = [x.arg for x in lam.args.posonlyargs + lam.args.args]
        defaults = lam.args.defaults
        res = [st]
        # defaults are evaluated in the defining scope (approximated by the current one)
        for i, n in enumerate(names):
            if i < len(a):
                res = [(_eset(s[0], n, a[i]), s[1], s[2]) for s in res]
            else:
                di = i - (len(names) - len(defaults))
                if 0 <= di < len(defaults):
                    res = [(_eset(s1[0], n, v), s1[1], s1[2]) for s in res for v, s1 in self.ev(defaults[di], s)]
                else:
                    res = [(_eset(s[0], n, ('opaque', n)), s[1], s[2]) for s in res]
        out = []
        for s in res:
            for v, s1 in self.ev(lam.body, s):
                out.append((v, (env0, s1[1], s1[2])))
        return out

    def _escape(self, node, a, kw, st, what):
        for v in list(a) + list(kw.values()):
            if v[0] == 'obj':
                self.problem(node, f'an accumulator is handed to {what}, whose effect on it is not known')

    def method(self, c, recv, name, a, kw, st):
        r = self.m.method(self, c, recv, name, a, kw, st)
        if r is not NotImplemented:
            return r
        k = recv[0]
        if k == 'const' and isinstance(recv[1], str):
            if name == 'join' and len(a) == 1:
                it = self.items(a[0], st)
                if it is not None and (it[0] == 'ordered' or len(it[1]) <= 1):
                    return [(self._join(recv[1], it[1]), st)]
            return [(('opaque', norm(c)[:80]), st)]
        if k == 'str':
            if name == 'split' and a and a[0] == ('const', '.') and not kw:
                lo, hi = recv[2], recv[3]
                mx = None
                if len(a) > 1:
                    mx = a[1][1] if a[1][0] == 'const' and isinstance(a[1][1], int) and a[1][1] >= 0 else 'bad'
                if mx != 'bad' and hi is not None:
                    n = hi - lo
                    cut = n - 1 if mx is None else min(mx, n - 1)
                    parts = [('str', recv[1], lo + i, lo + i + 1) for i in range(cut)] + [('str', recv[1], lo + cut, hi)]
                    return [(('list', tuple(parts)), st)]
            return [(('opaque', norm(c)[:80]), st)]
        if k == 'obj':
            oid = recv[1]
            cur = _eget(st[1], oid, frozenset())

            def upd(toks):
                return (st[0], _eset(st[1], oid, frozenset(toks)), st[2])

            if name in ('add', 'append') and len(a) == 1:
                return [(('const', None), upd(cur | {a[0]}))]
            if name in ('update', 'extend', '__ior__'):
                t = cur
                for x in a:
                    t = t | self.tokens(x, st)
                return [(('const', None), upd(t))]
            if name == 'clear' and not a:
                return [(('const', None), upd(()))]
            if name in ('copy',) and not a:
                return [self.new_obj(st, c, cur)]
            if name in ('union',):
                t = cur
                for x in a:
                    t = t | self.tokens(x, st)
                return [self.new_obj(st, c, t)]
            if name in ('sort', 'reverse'):
                return [(('const', None), st)]
            if name in ('remove', 'discard', 'pop', 'difference_update', 'intersection_update', 'symmetric_difference_update', '__isub__', 'difference', 'intersection'):
                self.problem(c, f'{norm(c)} removes elements from an accumulator: contributions of other elements can be lost')
                return [(('opaque', norm(c)[:80]), st)]
            if name in ('issubset', 'issuperset', 'isdisjoint', 'count', 'index', '__contains__', '__len__'):
                return [(('opaque', norm(c)[:80]), st)]
            self.problem(c, f'operation {name} on an accumulator is not understood')
            return [(('opaque', norm(c)[:80]), st)]
        if k in ('list', 'mlist') and name == 'copy':
            return [(recv, st)]
        if _is_opaque(recv):
            self._escape(c, a, kw, st, norm(c.func))
            return [(('opaque', norm(c)[:80]), st)]
        return [(('mcall', recv, name, tuple(a)), st)]

    def function(self, c, sym, a, kw, st):
        r = self.m.call(self, c, sym, a, kw, st)
        if r is not NotImplemented:
            return r
        if sym is None:
            return [(('opaque', norm(c)[:80]), st)]
        if sym.startswith('external:'):
            name = sym[9:]
            if name in _COPY_BUILTINS:
                if not a:
                    return [self.new_obj(st, c, ())]
                src = a[0]
                it = self.items(src, st)
                if it is None:
                    return [(('opaque', norm(c)[:80]), st)]
                if src[0] == 'mlist' or self.m.items(src) is not None:
                    return [(('mlist', 'copy', tuple(it[1])), st)]  # still the whole generic collection
                if src[0] == 'list' and name in ('list', 'tuple'):
                    return [(src, st)]
                return [self.new_obj(st, c, it[1])]
            if name == 'filter' and len(a) == 2:
                return self._filter(c, a[0], a[1], st)
            if name in ('any', 'all') and len(a) == 1:
                it = self.items(a[0], st)
                if it is None:
                    return [(('opaque', norm(c)[:80]), st)]
                tvs = [self.truthy(x, st) for x in it[1]]
                if name == 'any':
                    r = True if any(t is True for t in tvs) else (False if all(t is False for t in tvs) else None)
                else:
                    r = False if any(t is False for t in tvs) else (True if all(t is True for t in tvs) else None)
                return [((('const', r) if r is not None else ('opaque', norm(c)[:80])), st)]
            if name == 'bool' and len(a) == 1:
                tv = self.truthy(a[0], st)
                return [((('const', tv) if tv is not None else ('opaque', norm(c)[:80])), st)]
            if name == 'isinstance' and len(a) == 2:
                ts = [a[1]] if a[1][0] != 'list' else list(a[1][1])
                rs = [self.m.isinstance(a[0], t[1]) if t[0] == 'sym' else None for t in ts]
                r = True if any(x is True for x in rs) else (False if all(x is False for x in rs) else None)
                return [((('const', r) if r is not None else ('opaque', norm(c)[:80])), st)]
            if name == 'str' and len(a) == 1 and a[0][0] in ('str', 'joined', 'concat'):
                return [(a[0], st)]
            if name in _PURE_BUILTINS:
                return [(('opaque', norm(c)[:80]), st)]
            self._escape(c, a, kw, st, name)
            return [(('opaque', norm(c)[:80]), st)]
        if '.log.' in sym or sym.endswith('.log') or '.LOG.' in sym or 'logging' in sym:
            return [(('opaque', 'logging'), st)]
        callee = self.prog.func_of(sym)
        if callee is not None and self.depth < self.MAXDEPTH and self._may_inline(callee):
            return self.inline(c, callee, a, kw, st)
        self._escape(c, a, kw, st, sym)
        return [(('opaque', norm(c)[:80]), st)]

    def _may_inline(self, callee):
        if any(isinstance(n, (ast.Yield, ast.YieldFrom)) for n in callee.own_nodes()):
            return False
        if callee.qname == self.f.qname:
            return False
        same_mod = callee.module is self.f.module
        return (same_mod or callee.parent is not None) and self.m.inline_ok(callee)

    def _filter(self, c, pred, src, st):
        it = self.items(src, st)
        if it is None:
            return [(('opaque', norm(c)[:80]), st)]
        keep_sets = [((), st)]
        for el in it[1]:
            nxt = []
            for kept, s in keep_sets:
                if pred == ('const', None):
                    rs = [(self.truthy(el, s), s)]
                elif pred[0] == 'lambda':
                    rs = [(self.truthy(v, s1), s1) for v, s1 in self.call_lambda(pred, (el,), s)]
                elif pred[0] == 'sym' and self.prog.func_of(pred[1]) is not None and self.depth < self.MAXDEPTH:
                    rs = [(self.truthy(v, s1), s1) for v, s1 in self.inline(c, self.prog.func_of(pred[1]), (el,), {}, s)]
                else:
                    rs = [(None, s)]
                for tv, s1 in rs:
                    if tv is None:
                        self.problem(c, f'filter predicate of {norm(c)[:70]} is not understood for {el[0]} elements')
                        nxt.append((kept + (el,), s1))
                    elif tv:
                        nxt.append((kept + (el,), s1))
                    else:
                        nxt.append((kept, s1))
            keep_sets = nxt
        out = []
        for kept, s in keep_sets:
            if it[0] == 'generic':
                out.append((('mlist', 'filtered', kept), s))
            else:
                out.append((('list', kept), s))
        return out

    def inline(self, c, callee, a, kw, st):
        args = callee.node.args
        names = [x.arg for x in args.posonlyargs + args.args]
        if callee.cls is not None and names and names[0] in ('self', 'cls') and not callee.is_staticmethod():
            names = names[1:]
        env = dict(st[0]) if callee.parent is self.f else {}
        defaults = args.defaults
        allnames = [x.arg for x in args.posonlyargs + args.args]
        for i, n in enumerate(names):
            if i < len(a):
                env[n] = a[i]
            elif n in kw:
                env[n] = kw[n]
            else:
                di = allnames.index(n) - (len(allnames) - len(defaults))
                d = defaults[di] if 0 <= di < len(defaults) else None
                env[n] = ('const', d.value) if isinstance(d, ast.Constant) else ('opaque', n)
        for x, d in zip(args.kwonlyargs, args.kw_defaults):
            env[x.arg] = kw.get(x.arg, ('const', d.value) if isinstance(d, ast.Constant) else ('opaque', x.arg))
        sub = _Sym(self.prog, callee, self.m, self.sh, self.depth + 1)
        o = sub.run(callee.node, (frozenset(env.items()), st[1], st[2]))
        self.visited += sub.visited
        out = []
        for s1 in o.ret:
            out.append((_eget(s1[0], '$ret', ('const', None)), (st[0], s1[1], s1[2])))
        for s1 in o.normal:
            out.append((('const', None), (st[0], s1[1], s1[2])))
        for s1 in o.exc:
            self.raises((st[0], s1[1], s1[2]))
        if not out and not o.exc:
            out.append((('opaque', norm(c)[:80]), st))
        return out

    def eval(self, e, states):
        return states  # every expression is evaluated by ev()/truth(); the engine only drives control flow


def _run(prog, func, model, env, sh=None):
    """interpret `func` with the given initial environment -> (Out, shared dict, interpreter)"""
    sh = sh if sh is not None else {}
    it = _Sym(prog, func, model, sh)
    out = it.run(func.node, (frozenset(env.items()), frozenset(), ()))
    sh['steps'] = sh.get('steps', 0) + it.visited
    return out, sh, it


# ---------------------------------------------------------------------------
# R-C02-1 / R-C02-2 : model of schedule.update

ORGANIZE = 'dawgie.pl.schedule.organize'
UPDATE = 'dawgie.pl.schedule.update'
PRIORS = 'dawgie.pl.schedule._priors'
AS_VREF = 'dawgie.util.refs.as_vref'
VREF_AS_NAME = 'dawgie.util.refs.vref_as_name'
FEEDBACKS = 'dawgie.pl.dag.Construct.feedbacks'
TRIM = 'dawgie.pl.dag.Construct.trim'

U_ATOMS = ('flag_f', 'flag_o', 'decl', 'self', 'infb')


class _UpdModel(_Model):
    """report = {focus entry f, other entry o}; children of the reporting node = {c, d}; declared references of a
    node n = {(n,v), (n,w)}.  Atoms: flag_f / flag_o (entry flagged new), decl (reference (c,v) names entry f),
    self (c carries the tag of the reporting node), infb (the name of f is a key of the feedback table).
    Every other (reference, entry) pair does not match; the name of o is not in the feedback table."""

    def __init__(self, prog, rho, arity, ranges):
        self.prog = prog
        self.rho = rho
        self.arity = arity
        self.ranges = ranges
        self.org = prog.func(ORGANIZE)

    def entry(self, e):
        return ('list', (('str', ('ename', e), 0, self.arity), ('flag', e)))

    def report(self):
        return ('mlist', 'report', (self.entry('f'), self.entry('o')))

    def symbol(self, sym):
        if sym == FEEDBACKS:
            return ('fbtable',)
        return None

    def attr(self, base, name):
        if base[0] == 'node' and name == 'tag':
            return ('tag', base[1])
        if base == ('sym', 'dawgie.pl.schedule.ae') and name == 'feedbacks':
            return ('fbtable',)
        return None

    def items(self, val):
        if val == ('node', 'orig'):
            return ('generic', (('node', 'c'), ('node', 'd')))
        if val[0] == 'vrefs':
            return ('generic', (('vref', val[1], 'v'), ('vref', val[1], 'w')))
        return None

    def truthy(self, val):
        if val[0] == 'flag':
            return self.rho['flag_' + val[1]]
        if val[0] in ('node', 'tag', 'vref', 'vname', 'alg'):
            return True
        return None

    def _entry_str(self, v):
        return v[0] == 'str' and v[1][0] == 'ename'

    def eq(self, a, b):
        if a[0] == 'tag' and b[0] == 'tag':
            x, y = a[1], b[1]
            if x == y:
                return True
            if {x, y} == {'c', 'orig'}:
                return self.rho['self']
            return False
        if a[0] == 'vname' and self._entry_str(b):
            self.ranges['name'].add((b[2], b[3]))
            return bool(a[1] == 'c' and a[2] == 'v' and b[1][1] == 'f' and self.rho['decl'])
        if a[0] == 'vname' and b[0] == 'vname':
            return a == b
        if a[0] == 'flag' and b[0] == 'const' and isinstance(b[1], bool):
            return self.rho['flag_' + a[1]] == b[1]
        if b == ('const', None) and a[0] in ('node', 'tag', 'vref', 'vname', 'alg', 'str', 'fbtable'):
            return False
        return None

    def member(self, x, coll):
        if coll == ('fbtable',):
            if self._entry_str(x):
                self.ranges['fbkey'].add((x[2], x[3]))
                return bool(x[1][1] == 'f' and self.rho['infb'])
            return None
        return None

    def subscript(self, base, idx):
        if base == ('fbtable',) and self._entry_str(idx):
            self.ranges['fbkey'].add((idx[2], idx[3]))
            return ('str', ('fbval', idx[1][1]), 0, 4)
        return None

    def method(self, it, node, recv, name, a, kw, st):
        if recv[0] == 'node':
            if name == 'get' and a and a[0] == ('const', 'alg'):
                return [(('alg', recv[1]), st)]
            if name == 'iter' and not a and recv[1] == 'orig':
                return [(('mlist', 'descendants', (('node', 'c'), ('node', 'd'), ('node', 'orig'))), st)]
            return [(('opaque', norm(node)[:80]), st)]
        if recv == ('fbtable',):
            if name == 'get' and a and self._entry_str(a[0]):
                self.ranges['fbkey'].add((a[0][2], a[0][3]))
                if a[0][1][1] == 'f' and self.rho['infb']:
                    return [(('str', ('fbval', 'f'), 0, 4), st)]
                return [((a[1] if len(a) > 1 else ('const', None)), st)]
            if name == 'keys' and not a:
                return [(('fbtable',), st)]
            return [(('opaque', norm(node)[:80]), st)]
        return NotImplemented

    def call(self, it, node, sym, a, kw, st):
        if sym == ORGANIZE:
            names = [x.arg for x in self.org.node.args.args]
            vals = {}
            for i, n in enumerate(names):
                if i < len(a):
                    vals[n] = a[i]
                elif n in kw:
                    vals[n] = kw[n]
                else:
                    vals[n] = ('const', None)
            nm = it.tokens(vals[names[0]], st) if vals[names[0]] != ('const', None) else frozenset()
            tg = it.tokens(vals[names[2]], st) if vals[names[2]] != ('const', None) else frozenset()
            ev = ('organize', nm, vals[names[1]], tg, norm(node)[:100])
            return [(('const', None), it.emit(st, ev))]
        if sym == PRIORS and len(a) == 1:
            if a[0][0] == 'alg':
                return [(('priors', a[0][1]), st)]
            return [(('opaque', norm(node)[:80]), st)]
        if sym == AS_VREF and len(a) == 1:
            if a[0][0] == 'priors':
                return [(('vrefs', a[0][1]), st)]
            return [(('opaque', norm(node)[:80]), st)]
        if sym == VREF_AS_NAME and len(a) == 1:
            if a[0][0] == 'vref':
                return [(('vname', a[0][1], a[0][2]), st)]
            return [(('opaque', norm(node)[:80]), st)]
        if sym == TRIM and len(a) == 2 and a[0][0] == 'str' and a[1][0] == 'const' and isinstance(a[1][1], int):
            return [(('str', a[0][1], a[0][2], min(a[0][2] + a[1][1], a[0][3])), st)]
        if sym is not None:
            f = self.prog.func_of(sym)
            if sym == 'dawgie.pl.schedule.promote' or (f is not None and f.module.name == 'dawgie.pl.promotion'):
                return [(('opaque', 'promotion engine'), st)]  # separate mechanism (re-use of old results), not decided here
        return NotImplemented

    def inline_ok(self, callee):
        return callee.qname not in (ORGANIZE, PRIORS)


def _update_table(prog, f, arity):
    params = f.params()
    if len(params) != 3:
        raise AnalysisError(f'{f.qname} no longer has the parameters (values, original, rid)')
    sh = {}
    ranges = {'name': set(), 'fbkey': set(), 'target': set(), 'fbtask': set()}
    rows = []
    for bits in itertools.product((False, True), repeat=len(U_ATOMS)):
        rho = dict(zip(U_ATOMS, bits))
        model = _UpdModel(prog, rho, arity, ranges)
        env = {params[0]: model.report(), params[1]: ('node', 'orig'), params[2]: ('p', 'rid')}
        out, sh, _it = _run(prog, f, model, env, sh)
        paths = set()
        for st in out.normal | out.ret | out.exc:
            paths.add(tuple(ev for ev in st[2] if ev[0] == 'organize'))
        rows.append((rho, sorted(paths, key=repr)))
    return rows, sh, ranges


U_CHECKS = {
    'dependent-selected': 'a child that declares a value reported new is handed to organize (completeness)',
    'dependent-minimal': 'a child is handed to organize only when one of its declared inputs was reported new',
    'no-stranger': 'nothing but matched children and feedback consumers is handed to organize',
    'feedback-selected': 'the consumer registered in the feedback table for a value reported new is handed to organize',
    'feedback-minimal': 'a feedback consumer is handed to organize only for a value reported new that is in the table',
    'targets-complete': 'the target of every entry reported new is handed to organize',
    'targets-minimal': 'only targets of entries reported new are handed to organize',
    'runid': 'the run id handed to organize is the one of the report (or None for a new run)',
}


def _row_issues(rho, paths, ranges):
    """-> {check: [message]} for one truth-table row"""
    iss = {k: [] for k in U_CHECKS}
    want_c = rho['flag_f'] and rho['decl']
    want_fb = rho['flag_f'] and rho['infb']
    want_t = {e for e in 'fo' if rho['flag_' + e]}
    if not paths:
        iss['dependent-selected'].append('no path through update reaches its end')
    for calls in paths:
        names = set()
        for c in calls:
            names |= c[1]
        kids = {t[1] for t in names if t[0] == 'tag'}
        fbs = set()
        junk = []
        for t in names:
            if t[0] == 'tag':
                continue
            if t[0] == 'str' and t[1][0] == 'fbval':
                fbs.add(t[1][1])
                ranges['fbtask'].add((t[2], t[3]))
            else:
                junk.append(t)
        shown = '; '.join(c[4] for c in calls) or 'organize not called'
        if want_c and not rho['self'] and 'c' not in kids:
            iss['dependent-selected'].append(f'child declaring the new value not scheduled ({shown})')
        if not want_c and not rho['self'] and 'c' in kids:
            iss['dependent-minimal'].append(f'child scheduled although none of its inputs was reported new ({shown})')
        if 'd' in kids or 'orig' in kids or junk:
            what = sorted(kids & {'d', 'orig'}) + [repr(j)[:60] for j in junk]
            iss['no-stranger'].append(f'unrelated names scheduled: {what} ({shown})')
        if want_fb and 'f' not in fbs:
            iss['feedback-selected'].append(f'feedback consumer of the new value not scheduled ({shown})')
        if (not want_fb and 'f' in fbs) or 'o' in fbs:
            iss['feedback-minimal'].append(f'feedback consumer scheduled without a new value in the feedback table ({shown})')
        for c in calls:
            got, tjunk = set(), []
            for t in c[3]:
                if t[0] == 'str' and t[1][0] == 'ename':
                    got.add(t[1][1])
                    ranges['target'].add((t[2], t[3]))
                else:
                    tjunk.append(t)
            if c[1] and want_t - got:
                iss['targets-complete'].append(f'target of a new entry missing in {c[4]}')
            if got - want_t or tjunk:
                iss['targets-minimal'].append(f'targets that no new entry carries: {sorted(got - want_t) + [repr(j)[:50] for j in tjunk]} in {c[4]}')
            if c[2] not in (('p', 'rid'), ('const', None)):
                iss['runid'].append(f'run id argument is {c[2]!r} in {c[4]}')
    return iss


def _atoms(rho, names=U_ATOMS):
    return ','.join(a for a in names if rho[a]) or 'none'


def _update_rules(ctx, rep, arity):
    prog = ctx.prog
    f = prog.func(UPDATE)
    rep.analysed(f, prog.func(ORGANIZE))
    rows, sh, ranges = _update_table(prog, f, arity)
    for q in sh.get('funcs', ()):
        rep.analysed(prog.funcs.get(q))
    issues = [(rho, _row_issues(rho, paths, ranges), paths) for rho, paths in rows]

    with rep.rule(
        'R-C02-1',
        'novelty filter: names compared with declared inputs, feedback look-ups and targets come exactly from report entries whose flag is truthy (truth table over the flag atoms)',
        floor=4,
        breaks='with the filter inverted or dropped nothing, or everything downstream, is rescheduled after a run',
    ) as r:
        r.extra['states_visited'] = sh.get('steps', 0)
        groups = {
            'names-from-new-entries-only': ('dependent-selected', 'dependent-minimal'),
            'feedback-from-new-entries-only': ('feedback-selected', 'feedback-minimal'),
            'targets-from-new-entries-only': ('targets-complete', 'targets-minimal'),
        }
        bad = {g: [] for g in groups}
        for rho, iss, _paths in issues:
            if not (rho['decl'] and rho['infb'] and not rho['self']):
                continue
            r.instance()
            rowbad = False
            for g, cs in groups.items():
                for c in cs:
                    for m in iss[c]:
                        bad[g].append(f'[{_atoms(rho, ("flag_f", "flag_o"))}] {m}')
                        rowbad = True
            if not rowbad:
                r.ok(f'{f.qname}:flags[{_atoms(rho, ("flag_f", "flag_o"))}]', 'selection and targets follow the flags', where(f))
        for g, msgs in bad.items():
            if msgs:
                r.fail(f'{f.qname}:{g}', where(f), f'{len(msgs)} violation(s) over the flag truth table, e.g. {msgs[0]}')

    with rep.rule(
        'R-C02-2',
        'every direct dependent is examined and exactly the matched ones (plus feedback consumers) are handed to organize with the targets of the new entries; '
        'organize puts every requested target into todo of every located node and queues it',
        floor=38,
        breaks='a consumer of a changed value is never run again (stale results at quiescence), or unrelated algorithms are re-run',
    ) as r:
        r.extra['truth_table_rows'] = len(rows)
        r.extra['loops_interpreted'] = dict(sorted(sh.get('loops', {}).items()))
        agg = {k: [] for k in U_CHECKS}
        for rho, iss, _paths in issues:
            r.instance()
            rowbad = False
            for c, msgs in iss.items():
                for m in msgs:
                    agg[c].append(f'[{_atoms(rho)}] {m}')
                    rowbad = True
            if not rowbad:
                r.ok(f'{f.qname}:row[{_atoms(rho)}]', 'names and targets handed to organize are exactly the specified ones on every path and iteration order', where(f))
        for c, msgs in agg.items():
            if msgs:
                r.fail(f'{f.qname}:{c}', where(f), f'{U_CHECKS[c]} -- violated in {len(msgs)} row(s)/path(s), e.g. {msgs[0]}')
        for key, (wh, msg) in sorted(sh.get('problems', {}).items()):
            r.fail(key, wh, msg)
        r.note('a child carrying the tag of the reporting node (self edge) is a cycle and outside the property (acyclic graphs): either treatment is accepted')
        r.note('the promotion engine (re-use of old results for entries not flagged new) is a separate mechanism and is not decided')
        _organize_rule(ctx, rep, r)
    return ranges


# ---------------------------------------------------------------------------
# organize: every requested target reaches todo of every located node


class _Org(Flow):
    """one iteration of the located-node loop of schedule.organize under the atoms (node is an aspect, all-targets marker)"""

    def __init__(self, prog, f, nvar, opmap, cls, rho):
        super().__init__()
        self.prog, self.f, self.nvar, self.opmap, self.cls, self.rho = prog, f, nvar, opmap, cls, rho
        self.unknown = []

    def on_test(self, e, st):
        if isinstance(e, ast.Call) and self.prog.resolve_in(e.func, self.f) == 'dawgie.pl.schedule._is_asp' and len(e.args) == 1 and isinstance(e.args[0], ast.Name) and e.args[0].id == self.nvar:
            return ((st,), ()) if self.rho['asp'] else ((), (st,))
        if isinstance(e, ast.Compare) and len(e.ops) == 1 and isinstance(e.ops[0], (ast.In, ast.NotIn)) and isinstance(e.left, ast.Constant) and e.left.value == '__all__':
            if self.cls(e.comparators[0]) == 'T':
                v = self.rho['allmark']
                if isinstance(e.ops[0], ast.NotIn):
                    v = not v
                return ((st,), ()) if v else ((), (st,))
        return (st,), (st,)

    def _op(self, node, st):
        op = self.opmap.get(id(node))
        if op is None:
            return st
        if op.kind == 'que':
            if op.op in ('append', 'insert') and op.args and isinstance(op.args[-1], ast.Name) and op.args[-1].id == self.nvar:
                return st | {('enq', 'que')}
            return st
        if op.kind != 'todo':
            return st
        if not (isinstance(op.owner, ast.Name) and op.owner.id == self.nvar):
            return st
        if op.op == 'add' and op.args:
            a = op.args[0]
            return st | {('grow', 'ALLMARK' if isinstance(a, ast.Constant) and a.value == '__all__' else f'BAD:{norm(node)}')}
        if op.op in ('update', '__ior__') and op.args:
            c = self.cls(op.args[0])
            return st | {('grow', c if c in ('T', 'ALLKNOWN') else f'BAD:{norm(node)}')}
        return st | {('grow', f'BAD:{norm(node)}')}  # assignment / removal: pending targets of the node are lost

    def on_call(self, call, st):
        return (self._op(call, st),)

    def on_stmt(self, s, st):
        st = self._op(s, st)
        if isinstance(s, ast.Assign) and isinstance(s.value, ast.Name) and s.value.id == self.nvar:
            for t in s.targets:
                if isinstance(t, ast.Subscript) and isinstance(t.value, ast.Name):
                    st = st | {('enq', t.value.id)}
        return (st,)


def _organize_rule(ctx, rep, r):
    prog = ctx.prog
    f = prog.func(ORGANIZE)
    params = [x.arg for x in f.node.args.args]
    if len(params) < 3:
        raise AnalysisError('schedule.organize no longer has (task_names, runid, targets, ...)')
    names_p, targets_p = params[0], params[2]

    def cls(e, seen=()):
        """'NAMES' | 'T' (the requested targets, whole) | 'ALLKNOWN' (every known target) | 'BAD'"""
        if isinstance(e, ast.Name):
            vals = [s.value for s in f.own_nodes() if isinstance(s, ast.Assign) and any(isinstance(t, ast.Name) and t.id == e.id for t in s.targets)]
            aug = [s for s in f.own_nodes() if isinstance(s, ast.AugAssign) and isinstance(s.target, ast.Name) and s.target.id == e.id]
            base = {'NAMES'} if e.id == names_p else ({'T'} if e.id == targets_p else set())
            if e.id in seen:
                return next(iter(base)) if len(base) == 1 else 'BAD'
            got = base | {cls(v, seen + (e.id,)) for v in vals}
            if aug or len(got) != 1:
                return 'BAD'
            return next(iter(got))
        if isinstance(e, ast.IfExp):
            # X if X else <empty>
            if norm(e.test) == norm(e.body) and _is_empty_coll(e.orelse):
                return cls(e.body, seen)
            return 'BAD'
        if isinstance(e, ast.BoolOp) and isinstance(e.op, ast.Or) and len(e.values) == 2 and _is_empty_coll(e.values[1]):
            return cls(e.values[0], seen)
        if isinstance(e, ast.Call):
            if isinstance(e.func, ast.Name) and e.func.id in ('set', 'list', 'sorted', 'tuple', 'frozenset') and len(e.args) == 1:
                return cls(e.args[0], seen)
            if isinstance(e.func, ast.Attribute) and e.func.attr == 'copy' and not e.args:
                return cls(e.func.value, seen)
            if prog.resolve_in(e.func, f) == 'dawgie.db.targets' and not e.args:
                return 'ALLKNOWN'
        return 'BAD'

    # the located-node loop(s): for n in <root>.locate(<name>) with <root> ranging over ae.at and <name> over task_names
    parent = {}
    for n in walk_no_nested(f.node):
        for c in ast.iter_child_nodes(n):
            parent[id(c)] = n
    loops = [n for n in f.own_nodes() if isinstance(n, ast.For) and isinstance(n.iter, ast.Call) and isinstance(n.iter.func, ast.Attribute) and n.iter.func.attr == 'locate']
    if not loops:
        r.instance()
        r.fail(f'{f.qname}:located-node-loop', where(f), 'no loop over <root>.locate(<task name>) found in organize: the requested names are not mapped to graph nodes in a form this rule understands')
        return
    ops = wsa.ops_in(prog, f)
    opmap = {id(o.node): o for o in ops}
    rebinds = [o for o in ops if o.kind == 'que' and o.op == 'rebind']
    for loop in loops:
        key0 = f'{f.qname}:{norm(loop.iter)}'
        encl = []
        p = parent.get(id(loop))
        while p is not None and p is not f.node:
            if isinstance(p, ast.For):
                encl.append(p)
            p = parent.get(id(p))
        recv, argn = loop.iter.func.value, (loop.iter.args[0] if loop.iter.args else None)
        roots_ok = names_ok = False
        for l in encl:
            if isinstance(l.target, ast.Name) and isinstance(recv, ast.Name) and l.target.id == recv.id:
                roots_ok = prog.resolve_in(l.iter, f) == 'dawgie.pl.dag.Construct.at' if isinstance(l.iter, (ast.Name, ast.Attribute)) else False
            if isinstance(l.target, ast.Name) and isinstance(argn, ast.Name) and l.target.id == argn.id:
                names_ok = cls(l.iter) == 'NAMES'
        early = [n for l in encl + [loop] for n in ast.walk(l) if isinstance(n, (ast.Break, ast.Return))]
        r.instance()
        r.check(
            roots_ok and names_ok and not early and isinstance(loop.target, ast.Name),
            f'{key0}:covers-all-names-and-roots',
            where(f, loop),
            'every requested name is located in every root of the algorithm tree',
            f'the node loop does not range over all requested names x all roots of ae.at (roots ok={roots_ok}, names ok={names_ok}, early exits={len(early)})',
        )
        if not isinstance(loop.target, ast.Name):
            continue
        nvar = loop.target.id
        for asp, allmark in itertools.product((False, True), repeat=2):
            rho = {'asp': asp, 'allmark': allmark}
            fl = _Org(prog, f, nvar, opmap, cls, rho)
            out = fl.block(loop.body, {frozenset()})
            finals = out.normal | out.cont | out.brk
            r.instance()
            bad = []
            for st in finals:
                grows = {x[1] for x in st if x[0] == 'grow'}
                enq = {x[1] for x in st if x[0] == 'enq'}
                wrong = sorted(g for g in grows if g.startswith('BAD:'))
                if wrong:
                    bad.append(f'todo is changed by {wrong[0][4:]}, which is not "add every requested target"')
                elif asp:
                    if not grows & {'ALLMARK', 'ALLKNOWN', 'T'}:
                        bad.append('a path adds nothing to todo of an aspect node')
                elif allmark:
                    if 'ALLKNOWN' not in grows:
                        bad.append('with the all-targets marker requested a path does not add every known target')
                else:
                    if 'T' not in grows:
                        bad.append('a path does not add the requested targets (the whole targets argument) to todo')
                    elif grows - {'T'}:
                        bad.append(f'targets that were not requested are added as well ({sorted(grows - {"T"})})')
                srcs = set()
                for o in rebinds:
                    srcs |= {n.id for n in ast.walk(o.args[0]) if isinstance(n, ast.Name)}
                if not (enq & (srcs | {'que'})):
                    bad.append('a path does not put the located node where the new queue is built from')
            name = ','.join(k for k, v in rho.items() if v) or 'none'
            r.check(
                bool(finals) and not bad,
                f'{key0}:todo[{name}]',
                where(f, loop),
                'every path of the node iteration adds the full requested target set and enqueues the node',
                f'organize, node iteration [{name}]: ' + '; '.join(sorted(set(bad)) or ['no path']),
            )
    # the queue built at the end keeps every node that has something to do
    r.instance()
    qops = [o for o in ops if o.kind == 'que' and (o.op == 'rebind' or o.op in ('append', 'insert', 'extend'))]
    okq, det = False, 'organize never (re)builds the work queue'
    for o in rebinds:
        facts = shared.rebind_facts(prog, o)
        if facts['kind'] in ('superset', 'filtered'):
            t = facts['table']
            okq = bool(t[(True, False)] and t[(True, True)])
            det = facts['detail']
        else:
            okq, det = False, facts['detail']
        if not okq:
            break
    if not rebinds and any(o.op in ('append', 'insert') for o in qops):
        okq, det = True, 'nodes are appended to the queue directly'
    r.check(okq, f'{f.qname}:queue-keeps-pending-nodes', where(f, rebinds[0].node if rebinds else None), det, f'a located node with pending targets does not end up in the work queue: {det}')


def _is_empty_coll(e):
    if isinstance(e, (ast.Set, ast.List, ast.Tuple)) and not e.elts:
        return True
    return isinstance(e, ast.Call) and isinstance(e.func, ast.Name) and e.func.id in ('set', 'list', 'tuple', 'frozenset') and not e.args
