"""C02  Reprocessing after a change is complete and minimal.

The rules are decided by *small-model symbolic execution*: the anchored functions are interpreted over
symbolic values (``_Sym``, built on the engine's path-sensitive ``Flow``) for a model that contains one
*focus* element and one *other* element of every collection that is iterated (report entries, children of
the reporting node, declared references), in every iteration order, under every assignment of the atoms
that the code can test (``is the entry flagged new``, ``does the reference name the entry``, ...).  What is
compared with the specification is the *outcome* (the arguments that reach ``schedule.organize``, the
sequence complete/update, the value returned), never the text of the function: loops may be rewritten as
comprehensions, guards reordered, helpers extracted (callees of the same module are interpreted in line).
"""

import ast
import itertools

from .. import AnalysisError
from ..flow import Flow, Out
from ..report import Report
from ..util import where, norm, calls_to, get_key, arg, call_name, walk_no_nested
from ..variants import V
from .. import wsa
from . import shared

PID = 'C02'

# ---------------------------------------------------------------------------
# symbolic core
#
# state  = (env, heap, trace)
#   env   frozenset of (local name, value)
#   heap  frozenset of (object id, frozenset of element values)   -- mutable sets / lists (accumulators)
#   trace tuple of events (role calls that matter to the rule)
# values = hashable tuples:
#   ('const', v) ('opaque', text) ('sym', dotted) ('p', name) ('obj', oid) ('list', items) ('mlist', kind, items)
#   ('str', base, lo, hi)  = '.'.join(fields[lo:hi]) of the dotted string `base`
#   ('attr', base, name) ('mcall', recv, name, args) ('lambda', key) + whatever the model introduces


def _holders(prog):
    """module globals that hold an instance of a repository class -> class qname.

    ``dawgie.pl.schedule.ae.feedbacks`` has to be read as ``Construct.feedbacks``; the engine knows the class of a global only
    when it is stored as ``<module>.<name> = Class(...)`` in one statement.  Here every store into a module global (attribute
    store through an imported module, ``global`` declaration, module level assignment) is followed to its value: a call of a
    repository class, a local bound once to such a call, or another holder.  A global that receives instances of different
    classes is not a holder (``None`` placeholders do not count)."""
    cache = prog.__dict__.setdefault('_c02_holders', None)
    if cache is not None:
        return cache
    stores = []  # (holder symbol, value expr, Func or None, Module)
    for m in prog.modules.values():
        for name, vals in m.globals.items():
            for v in vals:
                stores.append((m.name + '.' + name, v, None, m))
    for f in prog.funcs.values():
        for n in f.own_nodes():
            if not isinstance(n, ast.Assign):
                continue
            for t in n.targets:
                if not isinstance(t, (ast.Name, ast.Attribute)):
                    continue
                sym = prog._resolve_expr(t, f.module, f)
                if not sym or sym.startswith(('local:', 'external:', 'self.')):
                    continue
                parts = sym.rsplit('.', 1)
                if len(parts) == 2 and parts[0] in prog.modules and sym not in prog.funcs and sym not in prog.classes:
                    stores.append((sym, n.value, f, f.module))
    by = {}
    for sym, v, f, m in stores:
        by.setdefault(sym, []).append((v, f, m))
    res = {}
    for _ in range(3):  # holders that copy another holder
        changed = False
        for sym, lst in by.items():
            classes = set()
            for v, f, m in lst:
                if isinstance(v, ast.Constant) and v.value is None:
                    continue
                c = None
                if isinstance(v, ast.Call):
                    c = prog._resolve_expr(v.func, m, f)
                    c = c if c in prog.classes else None
                elif isinstance(v, ast.Name) and f is not None and prog._resolve_expr(v, m, f) == 'local:' + v.id:
                    c = prog._local_instance(f, v.id)
                elif isinstance(v, (ast.Name, ast.Attribute)):
                    c = res.get(prog._resolve_expr(v, m, f))
                classes.add(c)
            if len(classes) == 1 and None not in classes and res.get(sym) != next(iter(classes)):
                res[sym] = next(iter(classes))
                changed = True
        if not changed:
            break
    prog.__dict__['_c02_holders'] = res
    return res


def _via_holder(prog, r):
    """resolved symbol '<holder>.<member>...' -> '<Class member>...' (same convention as Program.resolve_expr for singletons)"""
    if not r or r.startswith(('local:', 'external:')):
        return r
    for k, cls in _holders(prog).items():
        if r.startswith(k + '.'):
            rest = r[len(k) + 1 :].split('.')
            meth = prog.method(cls, rest[0])
            base = meth.qname if meth is not None else cls + '.' + rest[0]
            return '.'.join([base] + rest[1:])
    return r


def _resolve(prog, expr, func):
    return _via_holder(prog, prog.resolve_in(expr, func))


def _callee(prog, call, func):
    return _via_holder(prog, prog.callee(call, func))


def _eget(fs, k, d=None):
    for a, b in fs:
        if a == k:
            return b
    return d


def _eset(fs, k, v):
    return frozenset([(a, b) for a, b in fs if a != k] + [(k, v)])


def _is_opaque(v):
    return v[0] in ('opaque', 'elements-of')


class _Model:
    """domain knowledge plugged into the interpreter; every hook may decline (None / NotImplemented)"""

    def symbol(self, sym):
        return None

    def attr(self, base, name):
        return None

    def items(self, val):
        return None

    def truthy(self, val):
        return None

    def eq(self, a, b):
        return None

    def member(self, x, coll):
        return None

    def isinstance(self, val, tsym):
        return None

    def subscript(self, base, idx):
        return None

    def method(self, it, node, recv, name, a, kw, st):
        return NotImplemented

    def call(self, it, node, sym, a, kw, st):
        return NotImplemented

    def inline_ok(self, callee):
        return True


_PURE_BUILTINS = {'str', 'repr', 'len', 'print', 'id', 'hash', 'type', 'round', 'int', 'float', 'min', 'max', 'sum', 'abs', 'format', 'hasattr', 'callable'}
_COPY_BUILTINS = {'set', 'frozenset', 'list', 'tuple', 'sorted', 'reversed', 'iter'}


class _Sym(Flow):
    MAXDEPTH = 2

    def __init__(self, prog, func, model, sh, depth=0):
        super().__init__()
        self.prog = prog
        self.f = func
        self.m = model
        self.sh = sh  # shared across inlined callees: problems, lambdas, loops
        self.depth = depth
        sh.setdefault('problems', {})
        sh.setdefault('lambdas', {})
        sh.setdefault('loops', {})
        sh.setdefault('funcs', set()).add(func.qname)

    # ------------------------------------------------------------ bookkeeping
    def problem(self, node, msg):
        key = f'{self.f.qname}:{norm(node)[:110]}'
        self.sh['problems'].setdefault(key, (where(self.f, node), msg))

    def may_raise(self, call, st):
        return False  # exception edges are registered explicitly by the models (e.g. the failed lookup)

    def raises(self, st):
        if self._try:
            self._try[-1].add(st)

    def new_obj(self, st, node, toks):
        oid = ('o', self.f.qname, getattr(node, 'lineno', 0), getattr(node, 'col_offset', 0), type(node).__name__)
        env, heap, trace = st
        return ('obj', oid), (env, _eset(heap, oid, frozenset(toks)), trace)

    @staticmethod
    def emit(st, ev):
        if st[2].count(ev) >= 3:
            return st  # keeps the state space finite inside loops over unknown iterables; three repetitions decide every count rule
        return (st[0], st[1], st[2] + (ev,))

    def tokens(self, val, st):
        """elements of a collection value"""
        if val[0] == 'obj':
            return _eget(st[1], val[1], frozenset())
        if val[0] == 'list':
            return frozenset(val[1])
        if val[0] == 'mlist':
            return frozenset(val[2])
        it = self.m.items(val)
        if it is not None:
            return frozenset(it[1])
        return frozenset([('elements-of', val)])

    def items(self, val, st):
        """-> ('ordered'|'generic', tuple of element values) or None"""
        it = self.m.items(val)
        if it is not None:
            return it
        if val[0] == 'list':
            return ('ordered', tuple(val[1]))
        if val[0] == 'mlist':
            return ('generic', tuple(val[2]))
        if val[0] == 'obj':
            return ('generic', tuple(sorted(_eget(st[1], val[1], frozenset()), key=repr)))
        return None

    # ------------------------------------------------------------- statements
    _SIMPLE = (ast.Assign, ast.AugAssign, ast.AnnAssign, ast.Expr, ast.Delete, ast.Assert, ast.Pass, ast.Global, ast.Nonlocal, ast.Import, ast.ImportFrom)

    def stmt(self, s, states):
        if isinstance(s, self._SIMPLE):
            self.visited += 1
            return Out(self._each(self.on_stmt, s, states))
        return super().stmt(s, states)

    def on_stmt(self, s, st):
        if isinstance(s, ast.Assign):
            out = []
            for v, s1 in self.ev(s.value, st):
                cur = [s1]
                for t in s.targets:
                    cur = [s3 for s2 in cur for s3 in self.bind(t, v, s2)]
                out.extend(cur)
            return out
        if isinstance(s, ast.AnnAssign):
            if s.value is None:
                return (st,)
            return [s2 for v, s1 in self.ev(s.value, st) for s2 in self.bind(s.target, v, s1)]
        if isinstance(s, ast.AugAssign):
            return self._augassign(s, st)
        if isinstance(s, ast.Expr):
            return [s1 for _v, s1 in self.ev(s.value, st)]
        return (st,)

    def _augassign(self, s, st):
        out = []
        if not isinstance(s.target, ast.Name):
            return [s1 for _v, s1 in self.ev(s.value, st)]
        cur = _eget(st[0], s.target.id)
        for v, s1 in self.ev(s.value, st):
            if cur is not None and cur[0] == 'obj':
                if isinstance(s.op, (ast.BitOr, ast.Add)):
                    toks = self.tokens(cur, s1) | self.tokens(v, s1)
                    out.append((s1[0], _eset(s1[1], cur[1], toks), s1[2]))
                else:
                    self.problem(s, f'accumulator {s.target.id} is shrunk or replaced by {norm(s)}: contributions of other elements can be lost')
                    out.append(s1)
            else:
                out.append((_eset(s1[0], s.target.id, ('opaque', norm(s))), s1[1], s1[2]))
        return out

    def bind(self, tgt, val, st):
        if isinstance(tgt, ast.Name):
            return [(_eset(st[0], tgt.id, val), st[1], st[2])]
        if isinstance(tgt, (ast.Tuple, ast.List)):
            items = None
            if val[0] == 'list' and len(val[1]) == len(tgt.elts) and not any(isinstance(e, ast.Starred) for e in tgt.elts):
                items = val[1]
            cur = [st]
            for i, el in enumerate(tgt.elts):
                v = items[i] if items is not None else ('opaque', f'{norm(tgt)}[{i}]')
                if isinstance(el, ast.Starred):
                    el = el.value
                cur = [s2 for s1 in cur for s2 in self.bind(el, v, s1)]
            return cur
        return [st]  # attribute / subscript stores are not tracked

    def _s_Return(self, s, states):
        o = Out()
        for st in states:
            if s.value is None:
                o.ret.add((_eset(st[0], '$ret', ('const', None)), st[1], st[2]))
            else:
                for v, s1 in self.ev(s.value, st):
                    o.ret.add((_eset(s1[0], '$ret', v), s1[1], s1[2]))
        return o

    def _s_For(self, s, states):
        out = Out()
        done, brk = set(), set()
        generic_in = set()
        for st in states:
            for itv, s1 in self.ev(s.iter, st):
                it = self.items(itv, s1)
                if it is None:
                    generic_in.add(s1)
                    self.sh['loops'].setdefault(norm(s.iter), 'unknown')
                    continue
                kind, elems = it
                self.sh['loops'].setdefault(norm(s.iter), repr(itv)[:80])
                orders = list(itertools.permutations(elems)) if kind == 'generic' and len(elems) <= 3 else [elems]
                for perm in orders:
                    cur = {s1}
                    for el in perm:
                        ent = set()
                        for c in cur:
                            ent.update(self.bind(s.target, el, c))
                        ob = self.block(s.body, self._cap(ent))
                        out.ret |= ob.ret
                        out.exc |= ob.exc
                        brk |= ob.brk
                        cur = ob.normal | ob.cont
                        if not cur:
                            break
                    done |= cur
        if generic_in:
            # unknown iterable: 0..n iterations over an opaque element (engine fix-point)
            o = super()._s_For(s, generic_in)
            out.absorb(o, True)
        if s.orelse:
            oe = self.block(s.orelse, done)
            out.absorb(oe, True)
        else:
            out.normal |= done
        out.normal |= brk
        self._cap(out.normal)
        return out

    def on_for(self, node, st):
        return self.bind(node.target, ('opaque', f'element of {norm(node.iter)}'), st)

    def on_handler(self, h, st):
        return (st,)

    def on_test(self, e, st):
        t, f = [], []
        for tv, s1 in self.truth(e, st):
            if tv is not False:
                t.append(s1)
            if tv is not True:
                f.append(s1)
        return t, f

    # ------------------------------------------------------------ expressions
    def _seq(self, exprs, st):
        res = [((), st)]
        for e in exprs:
            nxt = []
            for vals, s in res:
                for v, s2 in self.ev(e, s):
                    nxt.append((vals + (v,), s2))
            res = nxt
        return res

    def ev(self, e, st):
        """-> list of (value, state)"""
        self.visited += 1
        if isinstance(e, ast.Constant):
            return [(('const', e.value), st)]
        if isinstance(e, ast.Name):
            v = _eget(st[0], e.id)
            if v is not None:
                return [(v, st)]
            sym = _resolve(self.prog, e, self.f)
            if sym and not sym.startswith('local:'):
                mv = self.m.symbol(sym)
                return [(mv if mv is not None else ('sym', sym), st)]
            return [(('opaque', e.id), st)]
        if isinstance(e, ast.Attribute):
            root = e
            while isinstance(root, ast.Attribute):
                root = root.value
            if isinstance(root, ast.Name) and _eget(st[0], root.id) is None:
                sym = _resolve(self.prog, e, self.f)
                if sym and not sym.startswith('local:'):
                    mv = self.m.symbol(sym)
                    return [(mv if mv is not None else ('sym', sym), st)]
            return [(self.attr(bv, e.attr), s1) for bv, s1 in self.ev(e.value, st)]
        if isinstance(e, ast.Call):
            return self.ev_call(e, st)
        if isinstance(e, ast.Subscript):
            return self._subscript(e, st)
        if isinstance(e, (ast.Compare, ast.BoolOp)) or (isinstance(e, ast.UnaryOp) and isinstance(e.op, ast.Not)):
            if isinstance(e, ast.BoolOp):
                return self._boolop_value(e, st)
            return [((('const', tv) if tv is not None else ('opaque', norm(e))), s1) for tv, s1 in self.truth(e, st)]
        if isinstance(e, ast.IfExp):
            out = []
            for tv, s1 in self.truth(e.test, st):
                if tv is not False:
                    out.extend(self.ev(e.body, s1))
                if tv is not True:
                    out.extend(self.ev(e.orelse, s1))
            return out
        if isinstance(e, ast.Tuple):
            return [(('list', vals), s1) for vals, s1 in self._seq(e.elts, st)]
        if isinstance(e, ast.List):
            if not e.elts:
                v, s1 = self.new_obj(st, e, ())
                return [(v, s1)]
            return [(('list', vals), s1) for vals, s1 in self._seq(e.elts, st)]
        if isinstance(e, ast.Set):
            out = []
            for vals, s1 in self._seq(e.elts, st):
                out.append(self.new_obj(s1, e, vals))
            return out
        if isinstance(e, (ast.SetComp, ast.ListComp, ast.GeneratorExp, ast.DictComp)):
            out = []
            for vals, s1 in self._comp(e, st):
                if isinstance(e, ast.GeneratorExp):
                    out.append((('list', vals), s1))
                elif isinstance(e, ast.DictComp):
                    out.append((('opaque', 'dict comprehension'), s1))
                else:
                    out.append(self.new_obj(s1, e, vals))
            return out
        if isinstance(e, ast.JoinedStr):
            parts = []
            for v in e.values:
                parts.append(v if isinstance(v, ast.Constant) else v.value)
            return [(self._concat(vals), s1) for vals, s1 in self._seq(parts, st)]
        if isinstance(e, ast.BinOp):
            out = []
            for (a, b), s1 in self._seq([e.left, e.right], st):
                if isinstance(e.op, ast.Add):
                    out.append((self._concat(self._flat_concat(a) + self._flat_concat(b)), s1))
                elif isinstance(e.op, ast.BitOr) and (a[0] == 'obj' or b[0] == 'obj'):
                    out.append(self.new_obj(s1, e, self.tokens(a, s1) | self.tokens(b, s1)))
                else:
                    if a[0] == 'obj' or b[0] == 'obj':
                        self.problem(e, f'set expression {norm(e)} removes elements from an accumulator')
                    out.append((('opaque', norm(e)), s1))
            return out
        if isinstance(e, ast.Lambda):
            key = (self.f.qname, e.lineno, e.col_offset)
            self.sh['lambdas'][key] = (e, self.f)
            return [(('lambda', key), st)]
        if isinstance(e, (ast.Yield, ast.YieldFrom)):
            kind = 'yield' if isinstance(e, ast.Yield) else 'yieldfrom'
            if e.value is None:
                return [(('const', None), self.emit(st, (kind, ('const', None))))]
            return [(('const', None), self.emit(s1, (kind, v))) for v, s1 in self.ev(e.value, st)]
        if isinstance(e, ast.NamedExpr):
            return [(v, s2) for v, s1 in self.ev(e.value, st) for s2 in self.bind(e.target, v, s1)]
        if isinstance(e, ast.Starred):
            return self.ev(e.value, st)
        return [(('opaque', norm(e)[:80]), st)]

    def _boolop_value(self, e, st):
        """value of `a or b` / `a and b` (short circuit)"""
        res = []
        cur = [st]
        for i, v in enumerate(e.values):
            last = i == len(e.values) - 1
            nxt = []
            for s in cur:
                for val, s1 in self.ev(v, s):
                    if last:
                        res.append((val, s1))
                        continue
                    tv = self.truthy(val, s1)
                    stop = tv if isinstance(e.op, ast.Or) else (None if tv is None else not tv)
                    if stop is not False:
                        res.append((val, s1))
                    if stop is not True:
                        nxt.append(s1)
            cur = nxt
        return res

    def attr(self, bv, name):
        r = self.m.attr(bv, name)
        if r is not None:
            return r
        if _is_opaque(bv):
            return ('opaque', f'{bv[1]}.{name}' if isinstance(bv[1], str) else name)
        if bv[0] == 'sym':
            return ('sym', bv[1] + '.' + name)
        return ('attr', bv, name)

    @staticmethod
    def _const_int(node):
        if node is None:
            return True, None
        if isinstance(node, ast.Constant) and isinstance(node.value, int):
            return True, node.value
        if isinstance(node, ast.UnaryOp) and isinstance(node.op, ast.USub) and isinstance(node.operand, ast.Constant) and isinstance(node.operand.value, int):
            return True, -node.operand.value
        return False, None

    def _subscript(self, e, st):
        out = []
        for bv, s1 in self.ev(e.value, st):
            sl = e.slice
            if isinstance(sl, ast.Slice):
                oks = [self._const_int(x) for x in (sl.lower, sl.upper, sl.step)]
                if bv[0] == 'list' and all(o for o, _ in oks):
                    out.append((('list', tuple(bv[1][slice(oks[0][1], oks[1][1], oks[2][1])])), s1))
                else:
                    out.append((('opaque', norm(e)), s1))
                continue
            ok, idx = self._const_int(sl)
            if ok and bv[0] == 'list':
                try:
                    out.append((bv[1][idx], s1))
                except IndexError:
                    out.append((('opaque', norm(e) + ' (index out of range)'), s1))
                continue
            for iv, s2 in self.ev(sl, s1):
                r = self.m.subscript(bv, iv)
                out.append((r if r is not None else ('opaque', norm(e)), s2))
        return out

    # dotted strings ------------------------------------------------------
    @staticmethod
    def _flat_concat(v):
        return list(v[1]) if v[0] == 'concat' else [v]

    @staticmethod
    def _concat(parts):
        """a + '.' + b  /  f'{a}.{b}'  -> dotted join when the literal parts are single dots"""
        parts = list(parts)
        if len(parts) == 1:
            return parts[0]
        fields, expect_val = [], True
        ok = True
        for p in parts:
            if expect_val:
                if p[0] == 'const':
                    ok = False
                    break
                fields.append(p)
            else:
                if p != ('const', '.'):
                    ok = False
                    break
            expect_val = not expect_val
        if ok and not expect_val and len(fields) > 1:
            return _Sym._join('.', fields)
        return ('concat', tuple(parts))

    @staticmethod
    def _join(sep, items):
        items = tuple(items)
        if sep == '.' and items and all(i[0] == 'str' for i in items):
            base = items[0][1]
            pos = items[0][2]
            ok = True
            for i in items:
                if i[1] != base or i[2] != pos:
                    ok = False
                    break
                pos = i[3]
            if ok:
                return ('str', base, items[0][2], pos)
        if len(items) == 1 and sep == '.':
            return items[0]
        return ('joined', sep, items)

    # comprehensions --------------------------------------------------------
    def _comp(self, e, st):
        """-> list of (tuple of element values, state)"""
        env0 = st[0]

        def rec(gi, s):
            if gi == len(e.generators):
                if isinstance(e, ast.DictComp):
                    return [((('opaque', 'dict item'),), s)]
                return [((v,), s2) for v, s2 in self.ev(e.elt, s)]
            g = e.generators[gi]
            res = []
            for itv, s1 in self.ev(g.iter, s):
                it = self.items(itv, s1)
                if it is None:
                    res.append(((('elements-of', itv),), s1))
                    continue
                self.sh['loops'].setdefault(norm(g.iter), repr(itv)[:80])
                acc = [((), s1)]
                for el in it[1]:
                    nxt = []
                    for vals, s2 in acc:
                        for s3 in self.bind(g.target, el, s2):
                            conds = [(True, s3)]
                            for cnd in g.ifs:
                                c2 = []
                                for ok, s4 in conds:
                                    if not ok:
                                        c2.append((False, s4))
                                        continue
                                    for tv, s5 in self.truth(cnd, s4):
                                        if tv is None:
                                            c2.append((True, s5))
                                            c2.append((False, s5))
                                        else:
                                            c2.append((bool(tv), s5))
                                conds = c2
                            for ok, s4 in conds:
                                if ok:
                                    for more, s5 in rec(gi + 1, s4):
                                        nxt.append((vals + more, s5))
                                else:
                                    nxt.append((vals, s4))
                    acc = nxt
                    if len(acc) > 256:
                        raise AnalysisError(f'comprehension {norm(e)[:60]} has too many undecided filters')
                res.extend(acc)
            return res

        return [(vals, (env0, s[1], s[2])) for vals, s in rec(0, st)]

    # truth ---------------------------------------------------------------------
    def truthy(self, v, st):
        r = self.m.truthy(v)
        if r is not None:
            return r
        k = v[0]
        if k == 'const':
            return bool(v[1])
        if k == 'obj':
            return bool(_eget(st[1], v[1], frozenset()))
        if k == 'list':
            return bool(v[1])
        if k == 'mlist':
            return bool(v[2])
        if k in ('str', 'lambda', 'joined', 'concat'):
            return True
        return None

    def eq(self, a, b):
        if a == b and not _is_opaque(a):
            return True
        r = self.m.eq(a, b)
        if r is None:
            r = self.m.eq(b, a)
        if r is not None:
            return r
        if a[0] == 'const' and b[0] == 'const':
            return a[1] == b[1]
        if a[0] == 'sym' and b[0] == 'sym':
            return a[1] == b[1]
        if a[0] == 'str' and b[0] == 'str':
            return False  # different fields of the model are assumed to hold different text
        return None

    def member(self, x, coll, st):
        r = self.m.member(x, coll)
        if r is not None:
            return r
        if coll[0] in ('obj', 'list', 'mlist') or self.m.items(coll) is not None:
            toks = self.tokens(coll, st)
            res = [self.eq(x, t) for t in toks]
            if any(v is True for v in res):
                return True
            if all(v is False for v in res):
                return False
        return None

    def truth(self, e, st):
        """-> list of (True | False | None, state)"""
        if isinstance(e, ast.UnaryOp) and isinstance(e.op, ast.Not):
            return [((None if tv is None else not tv), s1) for tv, s1 in self.truth(e.operand, st)]
        if isinstance(e, ast.BoolOp):
            is_and = isinstance(e.op, ast.And)
            res, cur = [], [(True if is_and else False, st)]
            for v in e.values:
                nxt = []
                for acc, s in cur:
                    for tv, s1 in self.truth(v, s):
                        if is_and:
                            if tv is False:
                                res.append((False, s1))
                            else:
                                nxt.append((acc if tv is True else None, s1))
                        else:
                            if tv is True:
                                res.append((True, s1))
                            else:
                                nxt.append((acc if tv is False else None, s1))
                cur = nxt
            return res + cur
        if isinstance(e, ast.Compare) and len(e.ops) == 1:
            op = e.ops[0]
            out = []
            # len(X) <op> n
            if isinstance(e.left, ast.Call) and isinstance(e.left.func, ast.Name) and e.left.func.id == 'len' and len(e.left.args) == 1:
                okc, n = self._const_int(e.comparators[0])
                for v, s1 in self.ev(e.left.args[0], st):
                    tv = self.truthy(v, s1)
                    r = None
                    if okc and tv is not None:
                        if (isinstance(op, ast.Gt) and n == 0) or (isinstance(op, ast.GtE) and n == 1) or (isinstance(op, ast.NotEq) and n == 0):
                            r = tv
                        elif (isinstance(op, ast.Eq) and n == 0) or (isinstance(op, ast.Lt) and n == 1) or (isinstance(op, ast.LtE) and n == 0):
                            r = not tv
                    out.append((r, s1))
                return out
            if isinstance(e.comparators[0], ast.Call) and isinstance(e.comparators[0].func, ast.Name) and e.comparators[0].func.id == 'len' and isinstance(op, ast.Lt):
                okc, n = self._const_int(e.left)
                if okc and n == 0:
                    return [(self.truthy(v, s1), s1) for v, s1 in self.ev(e.comparators[0].args[0], st)]
            for (a, b), s1 in self._seq([e.left, e.comparators[0]], st):
                r = None
                if isinstance(op, (ast.Eq, ast.NotEq)):
                    r = self.eq(a, b)
                    if r is not None and isinstance(op, ast.NotEq):
                        r = not r
                elif isinstance(op, (ast.In, ast.NotIn)):
                    r = self.member(a, b, s1)
                    if r is not None and isinstance(op, ast.NotIn):
                        r = not r
                elif isinstance(op, (ast.Is, ast.IsNot)):
                    r = self._is(a, b)
                    if r is not None and isinstance(op, ast.IsNot):
                        r = not r
                out.append((r, s1))
            return out
        return [(self.truthy(v, s1), s1) for v, s1 in self.ev(e, st)]

    def _is(self, a, b):
        if a[0] == 'const' and b[0] == 'const':
            return a[1] is b[1] if (a[1] is None or b[1] is None or isinstance(a[1], bool)) else (a[1] == b[1])
        for x, y in ((a, b), (b, a)):
            if y == ('const', None):
                r = self.m.eq(x, y)
                if r is not None:
                    return r
                if x[0] in ('obj', 'list', 'mlist', 'str', 'lambda'):
                    return False
                return None
        return self.eq(a, b)

    # calls ---------------------------------------------------------------------
    def ev_call(self, c, st):
        fn = c.func
        pos = [a.value if isinstance(a, ast.Starred) else a for a in c.args]
        kws = [k for k in c.keywords if k.arg is not None]
        head = []
        as_method = False
        if isinstance(fn, ast.Attribute):
            head = [fn.value]
            as_method = True
        out = []
        for vals, s in self._seq(head + pos + [k.value for k in kws], st):
            i = 1 if as_method else 0
            a = vals[i : i + len(pos)]
            kw = {k.arg: v for k, v in zip(kws, vals[i + len(pos) :])}
            if as_method and vals[0][0] != 'sym':
                out.extend(self.method(c, vals[0], fn.attr, a, kw, s))
            else:
                if as_method:
                    sym = vals[0][1] + '.' + fn.attr
                    csym = _callee(self.prog, c, self.f)
                    if csym and not csym.startswith('local:'):
                        sym = csym
                    out.extend(self.function(c, sym, a, kw, s))
                elif isinstance(fn, ast.Name):
                    fv = _eget(s[0], fn.id)
                    if fv is not None and fv[0] == 'lambda':
                        out.extend(self.call_lambda(fv, a, s))
                    elif fv is not None:
                        out.append((('opaque', norm(c)[:80]), s))
                    else:
                        out.extend(self.function(c, _callee(self.prog, c, self.f), a, kw, s))
                else:
                    out.append((('opaque', norm(c)[:80]), s))
        return out

    def call_lambda(self, fv, a, st):
        lam, owner = self.sh['lambdas'][fv[1]]
        env0 = st[0]
        env = env0
        names = [x.arg for x in lam.args.posonlyargs + lam.args.args]
        defaults = lam.args.defaults
        res = [st]
        # defaults are evaluated in the defining scope (approximated by the current one)
        for i, n in enumerate(names):
            if i < len(a):
                res = [(_eset(s[0], n, a[i]), s[1], s[2]) for s in res]
            else:
                di = i - (len(names) - len(defaults))
                if 0 <= di < len(defaults):
                    res = [(_eset(s1[0], n, v), s1[1], s1[2]) for s in res for v, s1 in self.ev(defaults[di], s)]
                else:
                    res = [(_eset(s[0], n, ('opaque', n)), s[1], s[2]) for s in res]
        out = []
        for s in res:
            for v, s1 in self.ev(lam.body, s):
                out.append((v, (env0, s1[1], s1[2])))
        return out

    def _escape(self, node, a, kw, st, what):
        for v in list(a) + list(kw.values()):
            if v[0] == 'obj':
                self.problem(node, f'an accumulator is handed to {what}, whose effect on it is not known')

    def method(self, c, recv, name, a, kw, st):
        r = self.m.method(self, c, recv, name, a, kw, st)
        if r is not NotImplemented:
            return r
        k = recv[0]
        if k == 'const' and isinstance(recv[1], str):
            if name == 'join' and len(a) == 1:
                it = self.items(a[0], st)
                if it is not None and (it[0] == 'ordered' or len(it[1]) <= 1):
                    return [(self._join(recv[1], it[1]), st)]
            return [(('opaque', norm(c)[:80]), st)]
        if k == 'str':
            if name == 'split' and a and a[0] == ('const', '.') and not kw:
                lo, hi = recv[2], recv[3]
                mx = None
                if len(a) > 1:
                    mx = a[1][1] if a[1][0] == 'const' and isinstance(a[1][1], int) and a[1][1] >= 0 else 'bad'
                if mx != 'bad' and hi is not None:
                    n = hi - lo
                    cut = n - 1 if mx is None else min(mx, n - 1)
                    parts = [('str', recv[1], lo + i, lo + i + 1) for i in range(cut)] + [('str', recv[1], lo + cut, hi)]
                    return [(('list', tuple(parts)), st)]
            return [(('opaque', norm(c)[:80]), st)]
        if k == 'obj':
            oid = recv[1]
            cur = _eget(st[1], oid, frozenset())

            def upd(toks):
                return (st[0], _eset(st[1], oid, frozenset(toks)), st[2])

            if name in ('add', 'append') and len(a) == 1:
                return [(('const', None), upd(cur | {a[0]}))]
            if name in ('update', 'extend', '__ior__'):
                t = cur
                for x in a:
                    t = t | self.tokens(x, st)
                return [(('const', None), upd(t))]
            if name == 'clear' and not a:
                return [(('const', None), upd(()))]
            if name in ('copy',) and not a:
                return [self.new_obj(st, c, cur)]
            if name in ('union',):
                t = cur
                for x in a:
                    t = t | self.tokens(x, st)
                return [self.new_obj(st, c, t)]
            if name in ('sort', 'reverse'):
                return [(('const', None), st)]
            if name in ('remove', 'discard', 'pop', 'difference_update', 'intersection_update', 'symmetric_difference_update', '__isub__', 'difference', 'intersection'):
                self.problem(c, f'{norm(c)} removes elements from an accumulator: contributions of other elements can be lost')
                return [(('opaque', norm(c)[:80]), st)]
            if name in ('issubset', 'issuperset', 'isdisjoint', 'count', 'index', '__contains__', '__len__'):
                return [(('opaque', norm(c)[:80]), st)]
            self.problem(c, f'operation {name} on an accumulator is not understood')
            return [(('opaque', norm(c)[:80]), st)]
        if k in ('list', 'mlist') and name == 'copy':
            return [(recv, st)]
        if _is_opaque(recv):
            self._escape(c, a, kw, st, norm(c.func))
            return [(('opaque', norm(c)[:80]), st)]
        return [(('mcall', recv, name, tuple(a)), st)]

    def function(self, c, sym, a, kw, st):
        r = self.m.call(self, c, sym, a, kw, st)
        if r is not NotImplemented:
            return r
        if sym is None:
            return [(('opaque', norm(c)[:80]), st)]
        if sym.startswith('external:'):
            name = sym[9:]
            if name in _COPY_BUILTINS:
                if not a:
                    return [self.new_obj(st, c, ())]
                src = a[0]
                it = self.items(src, st)
                if it is None:
                    return [(('opaque', norm(c)[:80]), st)]
                if src[0] == 'mlist' or self.m.items(src) is not None:
                    return [(('mlist', 'copy', tuple(it[1])), st)]  # still the whole generic collection
                if src[0] == 'list' and name in ('list', 'tuple'):
                    return [(src, st)]
                return [self.new_obj(st, c, it[1])]
            if name == 'filter' and len(a) == 2:
                return self._filter(c, a[0], a[1], st)
            if name in ('any', 'all') and len(a) == 1:
                it = self.items(a[0], st)
                if it is None:
                    return [(('opaque', norm(c)[:80]), st)]
                tvs = [self.truthy(x, st) for x in it[1]]
                if name == 'any':
                    r = True if any(t is True for t in tvs) else (False if all(t is False for t in tvs) else None)
                else:
                    r = False if any(t is False for t in tvs) else (True if all(t is True for t in tvs) else None)
                return [((('const', r) if r is not None else ('opaque', norm(c)[:80])), st)]
            if name == 'bool' and len(a) == 1:
                tv = self.truthy(a[0], st)
                return [((('const', tv) if tv is not None else ('opaque', norm(c)[:80])), st)]
            if name == 'isinstance' and len(a) == 2:
                ts = [a[1]] if a[1][0] != 'list' else list(a[1][1])
                rs = [self.m.isinstance(a[0], t[1]) if t[0] == 'sym' else None for t in ts]
                r = True if any(x is True for x in rs) else (False if all(x is False for x in rs) else None)
                return [((('const', r) if r is not None else ('opaque', norm(c)[:80])), st)]
            if name == 'str' and len(a) == 1 and a[0][0] in ('str', 'joined', 'concat'):
                return [(a[0], st)]
            if name in _PURE_BUILTINS:
                return [(('opaque', norm(c)[:80]), st)]
            self._escape(c, a, kw, st, name)
            return [(('opaque', norm(c)[:80]), st)]
        if '.log.' in sym or sym.endswith('.log') or '.LOG.' in sym or 'logging' in sym:
            return [(('opaque', 'logging'), st)]
        callee = self.prog.func_of(sym)
        if callee is not None and self.depth < self.MAXDEPTH and self._may_inline(callee):
            return self.inline(c, callee, a, kw, st)
        self._escape(c, a, kw, st, sym)
        return [(('opaque', norm(c)[:80]), st)]

    def _may_inline(self, callee):
        if any(isinstance(n, (ast.Yield, ast.YieldFrom)) for n in callee.own_nodes()):
            return False
        if callee.qname == self.f.qname:
            return False
        same_mod = callee.module is self.f.module
        return (same_mod or callee.parent is not None) and self.m.inline_ok(callee)

    def _filter(self, c, pred, src, st):
        it = self.items(src, st)
        if it is None:
            return [(('opaque', norm(c)[:80]), st)]
        keep_sets = [((), st)]
        for el in it[1]:
            nxt = []
            for kept, s in keep_sets:
                if pred == ('const', None):
                    rs = [(self.truthy(el, s), s)]
                elif pred[0] == 'lambda':
                    rs = [(self.truthy(v, s1), s1) for v, s1 in self.call_lambda(pred, (el,), s)]
                elif pred[0] == 'sym' and self.prog.func_of(pred[1]) is not None and self.depth < self.MAXDEPTH:
                    rs = [(self.truthy(v, s1), s1) for v, s1 in self.inline(c, self.prog.func_of(pred[1]), (el,), {}, s)]
                else:
                    rs = [(None, s)]
                for tv, s1 in rs:
                    if tv is None:
                        self.problem(c, f'filter predicate of {norm(c)[:70]} is not understood for {el[0]} elements')
                        nxt.append((kept + (el,), s1))
                    elif tv:
                        nxt.append((kept + (el,), s1))
                    else:
                        nxt.append((kept, s1))
            keep_sets = nxt
        out = []
        for kept, s in keep_sets:
            if it[0] == 'generic':
                out.append((('mlist', 'filtered', kept), s))
            else:
                out.append((('list', kept), s))
        return out

    def inline(self, c, callee, a, kw, st, recv=None):
        args = callee.node.args
        names = [x.arg for x in args.posonlyargs + args.args]
        env = dict(st[0]) if callee.parent is self.f else {}
        if callee.cls is not None and names and names[0] in ('self', 'cls') and not callee.is_staticmethod():
            if recv is not None:
                env[names[0]] = recv  # a method of the receiver's own class: the callee sees the same object
            names = names[1:]
        defaults = args.defaults
        allnames = [x.arg for x in args.posonlyargs + args.args]
        for i, n in enumerate(names):
            if i < len(a):
                env[n] = a[i]
            elif n in kw:
                env[n] = kw[n]
            else:
                di = allnames.index(n) - (len(allnames) - len(defaults))
                d = defaults[di] if 0 <= di < len(defaults) else None
                env[n] = ('const', d.value) if isinstance(d, ast.Constant) else ('opaque', n)
        for x, d in zip(args.kwonlyargs, args.kw_defaults):
            env[x.arg] = kw.get(x.arg, ('const', d.value) if isinstance(d, ast.Constant) else ('opaque', x.arg))
        sub = _Sym(self.prog, callee, self.m, self.sh, self.depth + 1)
        o = sub.run(callee.node, (frozenset(env.items()), st[1], st[2]))
        self.visited += sub.visited
        out = []
        for s1 in o.ret:
            out.append((_eget(s1[0], '$ret', ('const', None)), (st[0], s1[1], s1[2])))
        for s1 in o.normal:
            out.append((('const', None), (st[0], s1[1], s1[2])))
        for s1 in o.exc:
            self.raises((st[0], s1[1], s1[2]))
        if not out and not o.exc:
            out.append((('opaque', norm(c)[:80]), st))
        return out

    def eval(self, e, states):
        return states  # every expression is evaluated by ev()/truth(); the engine only drives control flow


def _run(prog, func, model, env, sh=None):
    """interpret `func` with the given initial environment -> (Out, shared dict, interpreter)"""
    sh = sh if sh is not None else {}
    it = _Sym(prog, func, model, sh)
    out = it.run(func.node, (frozenset(env.items()), frozenset(), ()))
    sh['steps'] = sh.get('steps', 0) + it.visited
    return out, sh, it


# ---------------------------------------------------------------------------
# R-C02-1 / R-C02-2 : model of schedule.update

ORGANIZE = 'dawgie.pl.schedule.organize'
UPDATE = 'dawgie.pl.schedule.update'
PRIORS = 'dawgie.pl.schedule._priors'
AS_VREF = 'dawgie.util.refs.as_vref'
VREF_AS_NAME = 'dawgie.util.refs.vref_as_name'
FEEDBACKS = 'dawgie.pl.dag.Construct.feedbacks'
TRIM = 'dawgie.pl.dag.Construct.trim'

U_ATOMS = ('flag_f', 'flag_o', 'decl', 'self', 'infb')


class _UpdModel(_Model):
    """report = {focus entry f, other entry o}; children of the reporting node = {c, d}; declared references of a
    node n = {(n,v), (n,w)}.  Atoms: flag_f / flag_o (entry flagged new), decl (reference (c,v) names entry f),
    self (c carries the tag of the reporting node, i.e. c *is* the reporting node), infb (the name of f is a key of the feedback table).
    Every other (reference, entry) pair does not match; the name of o is not in the feedback table."""

    def __init__(self, prog, rho, arity, ranges):
        self.prog = prog
        self.rho = rho
        self.arity = arity
        self.ranges = ranges
        self.org = prog.func(ORGANIZE)

    def entry(self, e):
        return ('list', (('str', ('ename', e), 0, self.arity), ('flag', e)))

    def report(self):
        return ('mlist', 'report', (self.entry('f'), self.entry('o')))

    def symbol(self, sym):
        if sym == FEEDBACKS:
            return ('fbtable',)
        return None

    def attr(self, base, name):
        if base[0] == 'node' and name == 'tag':
            return ('tag', base[1])
        if base == ('sym', 'dawgie.pl.schedule.ae') and name == 'feedbacks':
            return ('fbtable',)
        return None

    def items(self, val):
        if val == ('node', 'orig'):
            return ('generic', (('node', 'c'), ('node', 'd')))
        if val[0] == 'vrefs':
            return ('generic', (('vref', val[1], 'v'), ('vref', val[1], 'w')))
        return None

    def truthy(self, val):
        if val[0] == 'flag':
            return self.rho['flag_' + val[1]]
        if val[0] in ('node', 'tag', 'vref', 'vname', 'alg'):
            return True
        return None

    def _entry_str(self, v):
        return v[0] == 'str' and v[1][0] == 'ename'

    def eq(self, a, b):
        if a[0] == 'tag' and b[0] == 'tag':
            x, y = a[1], b[1]
            if x == y:
                return True
            if {x, y} == {'c', 'orig'}:
                return self.rho['self']
            return False
        if a[0] == 'vname' and self._entry_str(b):
            self.ranges['name'].add((b[2], b[3]))
            if a[1] == 'orig':  # the reporting node reads its own output exactly when its self edge (child c) does
                return bool(a[2] == 'v' and b[1][1] == 'f' and self.rho['decl'] and self.rho['self'])
            return bool(a[1] == 'c' and a[2] == 'v' and b[1][1] == 'f' and self.rho['decl'])
        if a[0] == 'vname' and b[0] == 'vname':
            return a == b
        if a[0] == 'flag' and b[0] == 'const' and isinstance(b[1], bool):
            return self.rho['flag_' + a[1]] == b[1]
        if b == ('const', None) and a[0] in ('node', 'tag', 'vref', 'vname', 'alg', 'str', 'fbtable'):
            return False
        return None

    def member(self, x, coll):
        if coll == ('fbtable',):
            if self._entry_str(x):
                self.ranges['fbkey'].add((x[2], x[3]))
                return bool(x[1][1] == 'f' and self.rho['infb'])
            return None
        return None

    def subscript(self, base, idx):
        if base == ('fbtable',) and self._entry_str(idx):
            self.ranges['fbkey'].add((idx[2], idx[3]))
            return ('str', ('fbval', idx[1][1]), 0, 4)
        return None

    def method(self, it, node, recv, name, a, kw, st):
        if recv[0] == 'node':
            if name == 'get' and a and a[0] == ('const', 'alg'):
                return [(('alg', recv[1]), st)]
            if name == 'iter' and not a and recv[1] == 'orig':
                return [(('mlist', 'descendants', (('node', 'c'), ('node', 'd'), ('node', 'orig'))), st)]
            return [(('opaque', norm(node)[:80]), st)]
        if recv == ('fbtable',):
            if name == 'get' and a and self._entry_str(a[0]):
                self.ranges['fbkey'].add((a[0][2], a[0][3]))
                if a[0][1][1] == 'f' and self.rho['infb']:
                    return [(('str', ('fbval', 'f'), 0, 4), st)]
                return [((a[1] if len(a) > 1 else ('const', None)), st)]
            if name == 'keys' and not a:
                return [(('fbtable',), st)]
            return [(('opaque', norm(node)[:80]), st)]
        return NotImplemented

    def call(self, it, node, sym, a, kw, st):
        if sym == ORGANIZE:
            names = [x.arg for x in self.org.node.args.args]
            vals = {}
            for i, n in enumerate(names):
                if i < len(a):
                    vals[n] = a[i]
                elif n in kw:
                    vals[n] = kw[n]
                else:
                    vals[n] = ('const', None)
            nm = it.tokens(vals[names[0]], st) if vals[names[0]] != ('const', None) else frozenset()
            tg = it.tokens(vals[names[2]], st) if vals[names[2]] != ('const', None) else frozenset()
            ev = ('organize', nm, vals[names[1]], tg, norm(node)[:100])
            return [(('const', None), it.emit(st, ev))]
        if sym == PRIORS and len(a) == 1:
            if a[0][0] == 'alg':
                return [(('priors', a[0][1]), st)]
            return [(('opaque', norm(node)[:80]), st)]
        if sym == AS_VREF and len(a) == 1:
            if a[0][0] == 'priors':
                return [(('vrefs', a[0][1]), st)]
            return [(('opaque', norm(node)[:80]), st)]
        if sym == VREF_AS_NAME and len(a) == 1:
            if a[0][0] == 'vref':
                return [(('vname', a[0][1], a[0][2]), st)]
            return [(('opaque', norm(node)[:80]), st)]
        if sym == TRIM and len(a) == 2 and a[0][0] == 'str' and a[1][0] == 'const' and isinstance(a[1][1], int):
            return [(('str', a[0][1], a[0][2], min(a[0][2] + a[1][1], a[0][3])), st)]
        if sym is not None:
            f = self.prog.func_of(sym)
            if sym == 'dawgie.pl.schedule.promote' or (f is not None and f.module.name == 'dawgie.pl.promotion'):
                return [(('opaque', 'promotion engine'), st)]  # separate mechanism (re-use of old results), not decided here
        return NotImplemented

    def inline_ok(self, callee):
        return callee.qname not in (ORGANIZE, PRIORS)


def _update_table(prog, f, arity):
    params = f.params()
    if len(params) != 3:
        raise AnalysisError(f'{f.qname} no longer has the parameters (values, original, rid)')
    sh = {}
    ranges = {'name': set(), 'fbkey': set(), 'target': set(), 'fbtask': set()}
    rows = []
    for bits in itertools.product((False, True), repeat=len(U_ATOMS)):
        rho = dict(zip(U_ATOMS, bits))
        model = _UpdModel(prog, rho, arity, ranges)
        env = {params[0]: model.report(), params[1]: ('node', 'orig'), params[2]: ('p', 'rid')}
        out, sh, _it = _run(prog, f, model, env, sh)
        paths = set()
        for st in out.normal | out.ret | out.exc:
            paths.add(tuple(ev for ev in st[2] if ev[0] == 'organize'))
        rows.append((rho, sorted(paths, key=repr)))
    return rows, sh, ranges


U_CHECKS = {
    'dependent-selected': 'a child that declares a value reported new is handed to organize (completeness)',
    'dependent-minimal': 'a child is handed to organize only when one of its declared inputs was reported new',
    'no-stranger': 'nothing but matched children and feedback consumers is handed to organize',
    'self-excluded': 'the reporting node itself (a child carrying its own tag: an algorithm reading its previous output) is never handed to organize',
    'feedback-selected': 'the consumer registered in the feedback table for a value reported new is handed to organize',
    'feedback-minimal': 'a feedback consumer is handed to organize only for a value reported new that is in the table',
    'targets-complete': 'the target of every entry reported new is handed to organize',
    'targets-minimal': 'only targets of entries reported new are handed to organize',
    'runid': 'the run id handed to organize is the one of the report (or None for a new run)',
}


def _row_issues(rho, paths, ranges):
    """-> {check: [message]} for one truth-table row"""
    iss = {k: [] for k in U_CHECKS}
    want_c = rho['flag_f'] and rho['decl']
    want_fb = rho['flag_f'] and rho['infb']
    want_t = {e for e in 'fo' if rho['flag_' + e]}
    if not paths:
        iss['dependent-selected'].append('no path through update reaches its end')
    for calls in paths:
        names = set()
        for c in calls:
            names |= c[1]
        kids = {t[1] for t in names if t[0] == 'tag'}
        fbs = set()
        junk = []
        for t in names:
            if t[0] == 'tag':
                continue
            if t[0] == 'str' and t[1][0] == 'fbval':
                fbs.add(t[1][1])
                ranges['fbtask'].add((t[2], t[3]))
            else:
                junk.append(t)
        shown = '; '.join(c[4] for c in calls) or 'organize not called'
        if want_c and not rho['self'] and 'c' not in kids:
            iss['dependent-selected'].append(f'child declaring the new value not scheduled ({shown})')
        if not want_c and not rho['self'] and 'c' in kids:
            iss['dependent-minimal'].append(f'child scheduled although none of its inputs was reported new ({shown})')
        if 'orig' in kids or (rho['self'] and 'c' in kids):
            iss['self-excluded'].append(f'the reporting node is scheduled again by its own report ({shown})')
        if 'd' in kids or junk:
            what = sorted(kids & {'d'}) + [repr(j)[:60] for j in junk]
            iss['no-stranger'].append(f'unrelated names scheduled: {what} ({shown})')
        if want_fb and 'f' not in fbs:
            iss['feedback-selected'].append(f'feedback consumer of the new value not scheduled ({shown})')
        if (not want_fb and 'f' in fbs) or 'o' in fbs:
            iss['feedback-minimal'].append(f'feedback consumer scheduled without a new value in the feedback table ({shown})')
        for c in calls:
            got, tjunk = set(), []
            for t in c[3]:
                if t[0] == 'str' and t[1][0] == 'ename':
                    got.add(t[1][1])
                    ranges['target'].add((t[2], t[3]))
                else:
                    tjunk.append(t)
            if c[1] and want_t - got:
                iss['targets-complete'].append(f'target of a new entry missing in {c[4]}')
            if got - want_t or tjunk:
                iss['targets-minimal'].append(f'targets that no new entry carries: {sorted(got - want_t) + [repr(j)[:50] for j in tjunk]} in {c[4]}')
            if c[2] not in (('p', 'rid'), ('const', None)):
                iss['runid'].append(f'run id argument is {c[2]!r} in {c[4]}')
    return iss


def _atoms(rho, names=U_ATOMS):
    return ','.join(a for a in names if rho[a]) or 'none'


def _update_rules(ctx, rep, arity):
    prog = ctx.prog
    f = prog.func(UPDATE)
    rep.analysed(f, prog.func(ORGANIZE))
    rows, sh, ranges = _update_table(prog, f, arity)
    for q in sh.get('funcs', ()):
        rep.analysed(prog.funcs.get(q))
    issues = [(rho, _row_issues(rho, paths, ranges), paths) for rho, paths in rows]

    with rep.rule(
        'R-C02-1',
        'novelty filter: names compared with declared inputs, feedback look-ups and targets come exactly from report entries whose flag is truthy (truth table over the flag atoms)',
        floor=4,
        breaks='with the filter inverted or dropped nothing, or everything downstream, is rescheduled after a run',
    ) as r:
        r.extra['states_visited'] = sh.get('steps', 0)
        groups = {
            'names-from-new-entries-only': ('dependent-selected', 'dependent-minimal'),
            'feedback-from-new-entries-only': ('feedback-selected', 'feedback-minimal'),
            'targets-from-new-entries-only': ('targets-complete', 'targets-minimal'),
        }
        bad = {g: [] for g in groups}
        for rho, iss, _paths in issues:
            if not (rho['decl'] and rho['infb'] and not rho['self']):
                continue
            r.instance()
            rowbad = False
            for g, cs in groups.items():
                for c in cs:
                    for m in iss[c]:
                        bad[g].append(f'[{_atoms(rho, ("flag_f", "flag_o"))}] {m}')
                        rowbad = True
            if not rowbad:
                r.ok(f'{f.qname}:flags[{_atoms(rho, ("flag_f", "flag_o"))}]', 'selection and targets follow the flags', where(f))
        for g, msgs in bad.items():
            if msgs:
                r.fail(f'{f.qname}:{g}', where(f), f'{len(msgs)} violation(s) over the flag truth table, e.g. {msgs[0]}')

    with rep.rule(
        'R-C02-2',
        'every direct dependent is examined and exactly the matched ones (plus feedback consumers) are handed to organize with the targets of the new entries; '
        'organize puts every requested target into todo of every located node and queues it',
        floor=38,
        breaks='a consumer of a changed value is never run again (stale results at quiescence), or unrelated algorithms are re-run',
    ) as r:
        r.extra['truth_table_rows'] = len(rows)
        r.extra['loops_interpreted'] = dict(sorted(sh.get('loops', {}).items()))
        agg = {k: [] for k in U_CHECKS}
        for rho, iss, _paths in issues:
            r.instance()
            rowbad = False
            for c, msgs in iss.items():
                for m in msgs:
                    agg[c].append(f'[{_atoms(rho)}] {m}')
                    rowbad = True
            if not rowbad:
                r.ok(f'{f.qname}:row[{_atoms(rho)}]', 'names and targets handed to organize are exactly the specified ones on every path and iteration order', where(f))
        for c, msgs in agg.items():
            if msgs:
                r.fail(f'{f.qname}:{c}', where(f), f'{U_CHECKS[c]} -- violated in {len(msgs)} row(s)/path(s), e.g. {msgs[0]}')
        for key, (wh, msg) in sorted(sh.get('problems', {}).items()):
            r.fail(key, wh, msg)
        r.note('self edges (an algorithm that lists its own output as input, as Control/Model of the repository\'s feedback AE) must be skipped: otherwise every run re-queues itself and the pipeline never quiesces')
        r.note('the promotion engine (re-use of old results for entries not flagged new) is a separate mechanism and is not decided')
        _organize_rule(ctx, rep, r)
    return ranges


# ---------------------------------------------------------------------------
# organize: every requested target reaches todo of every located node


class _Org(Flow):
    """one iteration of the located-node loop of schedule.organize under the atoms (node is an aspect, all-targets marker)"""

    def __init__(self, prog, f, nvar, opmap, cls, rho):
        super().__init__()
        self.prog, self.f, self.nvar, self.opmap, self.cls, self.rho = prog, f, nvar, opmap, cls, rho
        self.unknown = []

    asp_inlined = None  # _is_asp's single return expression with its parameter replaced by the node variable

    def on_test(self, e, st):
        if isinstance(e, ast.Call) and self.prog.resolve_in(e.func, self.f) == 'dawgie.pl.schedule._is_asp' and len(e.args) == 1 and isinstance(e.args[0], ast.Name) and e.args[0].id == self.nvar:
            return ((st,), ()) if self.rho['asp'] else ((), (st,))
        if self.asp_inlined is not None and isinstance(e, ast.Compare) and len(e.ops) == 1 and isinstance(e.ops[0], (ast.Eq, ast.NotEq, ast.Is, ast.IsNot)):
            sides = {norm(e.left), norm(e.comparators[0])}
            if sides == self.asp_inlined:
                v = self.rho['asp'] if isinstance(e.ops[0], (ast.Eq, ast.Is)) else not self.rho['asp']
                return ((st,), ()) if v else ((), (st,))
        if isinstance(e, ast.Compare) and len(e.ops) == 1 and isinstance(e.ops[0], (ast.In, ast.NotIn)) and isinstance(e.left, ast.Constant) and e.left.value == '__all__':
            if self.cls(e.comparators[0]) == 'T':
                v = self.rho['allmark']
                if isinstance(e.ops[0], ast.NotIn):
                    v = not v
                return ((st,), ()) if v else ((), (st,))
        return (st,), (st,)

    def _op(self, node, st):
        op = self.opmap.get(id(node))
        if op is None:
            return st
        if op.kind == 'que':
            if op.op in ('append', 'insert') and op.args and isinstance(op.args[-1], ast.Name) and op.args[-1].id == self.nvar:
                return st | {('enq', 'que')}
            return st
        if op.kind != 'todo':
            return st
        if not (isinstance(op.owner, ast.Name) and op.owner.id == self.nvar):
            return st
        if op.op == 'add' and op.args:
            a = op.args[0]
            return st | {('grow', 'ALLMARK' if isinstance(a, ast.Constant) and a.value == '__all__' else f'BAD:{norm(node)}')}
        if op.op in ('update', '__ior__') and op.args:
            c = self.cls(op.args[0])
            return st | {('grow', c if c in ('T', 'ALLKNOWN') else f'BAD:{norm(node)}')}
        return st | {('grow', f'BAD:{norm(node)}')}  # assignment / removal: pending targets of the node are lost

    def on_call(self, call, st):
        return (self._op(call, st),)

    def on_stmt(self, s, st):
        st = self._op(s, st)
        if isinstance(s, ast.Assign) and isinstance(s.value, ast.Name) and s.value.id == self.nvar:
            for t in s.targets:
                if isinstance(t, ast.Subscript) and isinstance(t.value, ast.Name):
                    st = st | {('enq', t.value.id)}
        return (st,)


def _organize_rule(ctx, rep, r):
    prog = ctx.prog
    # normal form: helpers extracted from organize after the rules were written (e.g. the todo extension of one node) are
    # spliced back into the node loop, so the iteration below sees their work-set operations and guards
    f = prog.nfunc(ORGANIZE)
    params = [x.arg for x in f.node.args.args]
    if len(params) < 3:
        raise AnalysisError('schedule.organize no longer has (task_names, runid, targets, ...)')
    names_p, targets_p = params[0], params[2]

    def cls(e, seen=()):
        """'NAMES' | 'T' (the requested targets, whole) | 'ALLKNOWN' (every known target) | 'BAD'"""
        if isinstance(e, ast.Name):
            vals = [s.value for s in f.own_nodes() if isinstance(s, ast.Assign) and any(isinstance(t, ast.Name) and t.id == e.id for t in s.targets)]
            aug = [s for s in f.own_nodes() if isinstance(s, ast.AugAssign) and isinstance(s.target, ast.Name) and s.target.id == e.id]
            base = {'NAMES'} if e.id == names_p else ({'T'} if e.id == targets_p else set())
            if e.id in seen:
                return next(iter(base)) if len(base) == 1 else 'BAD'
            got = base | {cls(v, seen + (e.id,)) for v in vals}
            if aug or len(got) != 1:
                return 'BAD'
            return next(iter(got))
        if isinstance(e, ast.IfExp):
            # "X, or an empty collection when X holds nothing": X if X else <empty>, <empty> if not X else X, X if X is not None
            # else <empty>, X if len(X) > 0 else <empty>, ... -- decided by evaluating the test in the three worlds of X
            for x in (e.body, e.orelse):
                if _is_empty_coll(x) or not _defaults_to_empty(e, norm(x)):
                    continue
                return cls(x, seen)
            return 'BAD'
        if isinstance(e, ast.BoolOp) and isinstance(e.op, ast.Or) and len(e.values) == 2 and _is_empty_coll(e.values[1]):
            return cls(e.values[0], seen)
        if isinstance(e, ast.Call):
            if isinstance(e.func, ast.Name) and e.func.id in ('set', 'list', 'sorted', 'tuple', 'frozenset') and len(e.args) == 1:
                return cls(e.args[0], seen)
            if isinstance(e.func, ast.Attribute) and e.func.attr == 'copy' and not e.args:
                return cls(e.func.value, seen)
            if prog.resolve_in(e.func, f) == 'dawgie.db.targets' and not e.args:
                return 'ALLKNOWN'
        return 'BAD'

    # the located-node loop(s): for n in <root>.locate(<name>) with <root> ranging over ae.at and <name> over task_names
    parent = {}
    for n in walk_no_nested(f.node):
        for c in ast.iter_child_nodes(n):
            parent[id(c)] = n
    loops = [n for n in f.own_nodes() if isinstance(n, ast.For) and isinstance(n.iter, ast.Call) and isinstance(n.iter.func, ast.Attribute) and n.iter.func.attr == 'locate']
    if not loops:
        r.instance()
        r.fail(f'{f.qname}:located-node-loop', where(f), 'no loop over <root>.locate(<task name>) found in organize: the requested names are not mapped to graph nodes in a form this rule understands')
        return
    ops = wsa.ops_in(prog, f)
    opmap = {id(o.node): o for o in ops}
    rebinds = [_pipeline_op(f, o) for o in ops if o.kind == 'que' and o.op == 'rebind']
    asp_fn = prog.funcs.get('dawgie.pl.schedule._is_asp')
    for loop in loops:
        key0 = f'{f.qname}:{norm(loop.iter)}'
        encl = []
        p = parent.get(id(loop))
        while p is not None and p is not f.node:
            if isinstance(p, ast.For):
                encl.append(p)
            p = parent.get(id(p))
        recv, argn = loop.iter.func.value, (loop.iter.args[0] if loop.iter.args else None)
        roots_ok = names_ok = False
        for l in encl:
            if isinstance(l.target, ast.Name) and isinstance(recv, ast.Name) and l.target.id == recv.id:
                roots_ok = _resolve(prog, l.iter, f) == 'dawgie.pl.dag.Construct.at' if isinstance(l.iter, (ast.Name, ast.Attribute)) else False
            if isinstance(l.target, ast.Name) and isinstance(argn, ast.Name) and l.target.id == argn.id:
                names_ok = cls(l.iter) == 'NAMES'
        early = [n for l in encl + [loop] for n in _loop_exits(l)]
        r.instance()
        r.check(
            roots_ok and names_ok and not early and isinstance(loop.target, ast.Name),
            f'{key0}:covers-all-names-and-roots',
            where(f, loop),
            'every requested name is located in every root of the algorithm tree',
            f'the node loop does not range over all requested names x all roots of ae.at (roots ok={roots_ok}, names ok={names_ok}, early exits={len(early)})',
        )
        if not isinstance(loop.target, ast.Name):
            continue
        nvar = loop.target.id
        for asp, allmark in itertools.product((False, True), repeat=2):
            rho = {'asp': asp, 'allmark': allmark}
            fl = _Org(prog, f, nvar, opmap, cls, rho)
            fl.asp_inlined = _single_expr_of(asp_fn, nvar)
            out = fl.block(loop.body, {frozenset()})
            finals = out.normal | out.cont | out.brk
            r.instance()
            bad = []
            for st in finals:
                grows = {x[1] for x in st if x[0] == 'grow'}
                enq = {x[1] for x in st if x[0] == 'enq'}
                wrong = sorted(g for g in grows if g.startswith('BAD:'))
                if wrong:
                    bad.append(f'todo is changed by {wrong[0][4:]}, which is not "add every requested target"')
                elif asp:
                    if not grows & {'ALLMARK', 'ALLKNOWN', 'T'}:
                        bad.append('a path adds nothing to todo of an aspect node')
                elif allmark:
                    if 'ALLKNOWN' not in grows:
                        bad.append('with the all-targets marker requested a path does not add every known target')
                else:
                    if 'T' not in grows:
                        bad.append('a path does not add the requested targets (the whole targets argument) to todo')
                    elif grows - {'T'}:
                        bad.append(f'targets that were not requested are added as well ({sorted(grows - {"T"})})')
                srcs = set()
                for o in rebinds:
                    srcs |= {n.id for n in ast.walk(o.args[0]) if isinstance(n, ast.Name)}
                if not (enq & (srcs | {'que'})):
                    bad.append('a path does not put the located node where the new queue is built from')
            name = ','.join(k for k, v in rho.items() if v) or 'none'
            r.check(
                bool(finals) and not bad,
                f'{key0}:todo[{name}]',
                where(f, loop),
                'every path of the node iteration adds the full requested target set and enqueues the node',
                f'organize, node iteration [{name}]: ' + '; '.join(sorted(set(bad)) or ['no path']),
            )
    # the queue built at the end keeps every node that has something to do
    r.instance()
    qops = [o for o in ops if o.kind == 'que' and (o.op == 'rebind' or o.op in ('append', 'insert', 'extend'))]
    okq, det = False, 'organize never (re)builds the work queue'
    for o in rebinds:
        facts = shared.rebind_facts(prog, o)
        if facts['kind'] in ('superset', 'filtered'):
            t, k = facts['table'], facts.get('table_queued', facts['table'])
            okq = bool(t[(True, False)] and t[(True, True)] and k[(True, False)] and k[(True, True)])
            det = facts['detail']
        else:
            okq, det = False, facts['detail']
        if not okq:
            break
    if not rebinds and any(o.op in ('append', 'insert') for o in qops):
        okq, det = True, 'nodes are appended to the queue directly'
    r.check(okq, f'{f.qname}:queue-keeps-pending-nodes', where(f, rebinds[0].node if rebinds else None), det, f'a located node with pending targets does not end up in the work queue: {det}')


def _loop_exits(loop):
    """the statements that end `loop` before its iterable is exhausted: every return inside it and the breaks that belong to
    it (a break of a loop nested in the body -- e.g. the one-shot wrapper of a spliced helper -- ends only that inner loop)"""
    out = []

    def walk(stmts, owned):
        for s in stmts:
            if isinstance(s, ast.Break):
                if owned:
                    out.append(s)
            elif isinstance(s, ast.Return):
                out.append(s)
            elif isinstance(s, (ast.For, ast.AsyncFor, ast.While)):
                walk(s.body, False)
                walk(s.orelse, owned)
            elif isinstance(s, (ast.FunctionDef, ast.AsyncFunctionDef, ast.ClassDef)):
                continue
            else:
                for fld in ('body', 'orelse', 'finalbody'):
                    v = getattr(s, fld, None)
                    if isinstance(v, list):
                        walk(v, owned)
                for h in getattr(s, 'handlers', ()):
                    walk(h.body, owned)
                for c in getattr(s, 'cases', ()):
                    walk(c.body, owned)

    walk(loop.body, True)
    return out


def _single_expr_of(fn, argname):
    """helper `def h(p): return <a == b>` -> {text of a, text of b} with p replaced by argname (for recognising its inlined form)"""
    if fn is None or len(fn.params()) != 1:
        return None
    rets = [n for n in fn.own_nodes() if isinstance(n, ast.Return) and n.value is not None]
    if len(rets) != 1 or not (isinstance(rets[0].value, ast.Compare) and len(rets[0].value.ops) == 1 and isinstance(rets[0].value.ops[0], (ast.Eq, ast.Is))):
        return None
    import copy

    p = fn.params()[0]

    class T(ast.NodeTransformer):
        def visit_Name(self, node):
            return ast.Name(id=argname, ctx=node.ctx) if node.id == p else node

    v = T().visit(copy.deepcopy(rets[0].value))
    return {norm(v.left), norm(v.comparators[0])}


_PIPE_CALLS = ('filter', 'sorted', 'list', 'tuple', 'reversed')


def _pipeline_op(f, op):
    """the queue rebinding with single-assignment locals that hold a stage of the sequence pipeline (a comprehension, filter(...),
    sorted(...)) substituted into it, so that `active = [...]; que = sorted(active, ...)` reads like the one-expression form"""
    import copy

    vals = {}
    for n in f.own_nodes():
        if isinstance(n, ast.Assign):
            for t in n.targets:
                if isinstance(t, ast.Name):
                    vals.setdefault(t.id, []).append(n.value)
        elif isinstance(n, (ast.AugAssign, ast.For, ast.comprehension)):
            for x in ast.walk(n.target):
                if isinstance(x, ast.Name):
                    vals.setdefault(x.id, []).append(None)

    def stage(v):
        return isinstance(v, (ast.ListComp, ast.GeneratorExp, ast.SetComp)) or (isinstance(v, ast.Call) and isinstance(v.func, ast.Name) and v.func.id in _PIPE_CALLS)

    def sub(e, depth=4):
        class T(ast.NodeTransformer):
            def visit_Name(self, node):
                vs = vals.get(node.id)
                if isinstance(node.ctx, ast.Load) and vs and len(vs) == 1 and vs[0] is not None and stage(vs[0]) and node.id not in f.params() and depth > 0:
                    return sub(vs[0], depth - 1)
                return node

        return T().visit(copy.deepcopy(e))

    v = ast.fix_missing_locations(ast.copy_location(sub(op.args[0]), op.args[0]))
    return wsa.Op(op.func, op.node, op.kind, op.op, [v], op.owner)


_MIRROR = {ast.Lt: ast.Gt, ast.Gt: ast.Lt, ast.LtE: ast.GtE, ast.GtE: ast.LtE, ast.Eq: ast.Eq, ast.NotEq: ast.NotEq, ast.Is: ast.Is, ast.IsNot: ast.IsNot}
_CMP = {
    ast.Lt: lambda a, b: a < b,
    ast.Gt: lambda a, b: a > b,
    ast.LtE: lambda a, b: a <= b,
    ast.GtE: lambda a, b: a >= b,
    ast.Eq: lambda a, b: a == b,
    ast.NotEq: lambda a, b: a != b,
}


def _truth_about(test, xtext, world):
    """truth (True / False / None = not known) of `test` when the expression written `xtext` is None ('none'), an empty
    collection ('empty') or a collection with elements ('full').  Understood: the expression itself, not / and / or,
    comparison with None and of len(<it>) with an integer in either orientation, constants."""
    if isinstance(test, ast.UnaryOp) and isinstance(test.op, ast.Not):
        r = _truth_about(test.operand, xtext, world)
        return None if r is None else not r
    if isinstance(test, ast.BoolOp):
        rs = [_truth_about(v, xtext, world) for v in test.values]
        if isinstance(test.op, ast.And):
            return False if any(r is False for r in rs) else (True if all(r is True for r in rs) else None)
        return True if any(r is True for r in rs) else (False if all(r is False for r in rs) else None)
    if isinstance(test, ast.Constant):
        return bool(test.value)
    if norm(test) == xtext:
        return world == 'full'
    if isinstance(test, ast.Call) and isinstance(test.func, ast.Name) and test.func.id == 'bool' and len(test.args) == 1 and not test.keywords:
        return _truth_about(test.args[0], xtext, world)
    if isinstance(test, ast.Compare) and len(test.ops) == 1:
        a, b, op = test.left, test.comparators[0], type(test.ops[0])
        if op not in _MIRROR:
            return None
        if isinstance(a, ast.Constant) and not isinstance(b, ast.Constant):
            a, b, op = b, a, _MIRROR[op]  # mirrored form: the constant is written first
        if not isinstance(b, ast.Constant):
            return None
        if norm(a) == xtext and b.value is None and op in (ast.Is, ast.IsNot, ast.Eq, ast.NotEq):
            r = world == 'none'
            return r if op in (ast.Is, ast.Eq) else not r
        if isinstance(a, ast.Call) and isinstance(a.func, ast.Name) and a.func.id == 'len' and len(a.args) == 1 and norm(a.args[0]) == xtext and type(b.value) is int and op in _CMP:
            if world == 'none':
                return None  # len(None) raises: no such path
            if world == 'empty':
                return _CMP[op](0, b.value)
            # any length >= 1: a comparison with n can only change its value at n-1, n, n+1
            got = {_CMP[op](k, b.value) for k in (1, b.value - 1, b.value, b.value + 1, 1 << 62) if k >= 1}
            return got.pop() if len(got) == 1 else None
    return None


def _defaults_to_empty(e, xtext):
    """the conditional expression `e` yields the expression written `xtext`, except that it may yield an empty collection
    instead when that expression is None or empty"""
    for world in ('none', 'empty', 'full'):
        tv = _truth_about(e.test, xtext, world)
        arms = ([e.body] if tv is not False else []) + ([e.orelse] if tv is not True else [])
        for arm in arms:
            if norm(arm) == xtext:
                continue
            if _is_empty_coll(arm) and world != 'full':
                continue
            return False
    return True


def _is_empty_coll(e):
    if isinstance(e, (ast.Set, ast.List, ast.Tuple)) and not e.elts:
        return True
    return isinstance(e, ast.Call) and isinstance(e.func, ast.Name) and e.func.id in ('set', 'list', 'tuple', 'frozenset') and not e.args


# ---------------------------------------------------------------------------
# R-C02-3 : input declaration coverage

# element class produced by the bots of each factory kind (dawgie.Task.routines -> Algorithm, Analysis -> Analyzer,
# Regress -> Regression: the three abstract bases of the architecture)
FACTORY_CLASS = {'task': 'dawgie.Algorithm', 'analysis': 'dawgie.Analyzer', 'regress': 'dawgie.Regression'}
REF_KINDS = ('dawgie.V_REF', 'dawgie.SV_REF', 'dawgie.ALG_REF')
SVREF2VREF = 'dawgie.util.refs.svref2vref'
ALGREF2SVREF = 'dawgie.util.refs.algref2svref'


class _KindModel(_Model):
    """one symbolic parameter whose class is fixed by the oracle"""

    def __init__(self, val, kind):
        self.val, self.kind = val, kind

    def isinstance(self, val, tsym):
        if val == self.val:
            return tsym == self.kind
        return None

    def truthy(self, val):
        return True if val == self.val else None

    def eq(self, a, b):
        if a == self.val and b == ('const', None):
            return False
        return None


def _denoted(it_tokens, val, st):
    """what a returned value stands for: the value itself, or the elements copied into a fresh list"""
    if val[0] == 'obj':
        out = set()
        for t in _eget(st[1], val[1], frozenset()):
            out.add(t[1] if t[0] == 'elements-of' else ('element', t))
        return out
    return {val}


def _dag_accessor_table(prog):
    """{factory kind: (accessor name, sub-tree builder Func, call)} from dag.Construct.__init__"""
    init = prog.func('dawgie.pl.dag.Construct.__init__')
    tab = {}
    for c in calls_to(prog, init, 'dawgie.pl.dag.Construct._build_tree'):
        if len(c.args) < 4:
            continue
        k = None
        for n in ast.walk(c.args[0]):
            if isinstance(n, ast.Attribute) and prog.resolve_in(n.value, init) == 'dawgie.base.Factories' or (isinstance(n, ast.Attribute) and norm(n.value).endswith('Factories')):
                k = n.attr
        acc = c.args[3].value if isinstance(c.args[3], ast.Constant) else None
        sub = prog.func_of(prog.resolve_in(c.args[2], init)) if isinstance(c.args[2], (ast.Name, ast.Attribute)) else None
        if k is not None:
            tab[k] = (acc, sub, c)
    return init, tab


class _AsVrefModel(_KindModel):
    def items(self, val):
        if val[0] == 'svrefs':
            return ('generic', (('svref', val[1]),))
        if val[0] == 'vrefs':
            return ('generic', (('vref', val[1]),))
        return None

    def call(self, it, node, sym, a, kw, st):
        if sym == SVREF2VREF and len(a) == 1:
            return [(('vrefs', a[0]), st)]
        if sym == ALGREF2SVREF and len(a) == 1:
            return [(('svrefs', a[0]), st)]
        return NotImplemented


class _RefHelperModel(_Model):
    def __init__(self, prog, fields):
        self.prog, self.fields = prog, fields

    def items(self, val):
        ref = ('p', 'ref')
        if val in (('attr', ref, 'item'), ('mcall', ('attr', ref, 'item'), 'keys', ())):
            return ('generic', (('key',),))
        if val == ('mcall', ('attr', ref, 'impl'), 'state_vectors', ()):
            return ('generic', (('sv',),))
        return None

    def call(self, it, node, sym, a, kw, st):
        if sym in self.fields:
            names = self.fields[sym]
            vals = []
            for i, n in enumerate(names):
                vals.append(a[i] if i < len(a) else kw.get(n, ('const', None)))
            return [((sym, tuple(vals)), st)]
        return NotImplemented


def _namedtuple_fields(prog, name):
    m = prog.module('dawgie')
    for v in m.globals.get(name, []):
        if isinstance(v, ast.Call) and call_name(v) == 'namedtuple' and len(v.args) == 2 and isinstance(v.args[1], (ast.List, ast.Tuple)):
            return [e.value for e in v.args[1].elts if isinstance(e, ast.Constant)]
    raise AnalysisError(f'dawgie.{name} is no longer a namedtuple with a literal field list')


def _rule3(ctx, rep):
    prog = ctx.prog
    with rep.rule(
        'R-C02-3',
        'input declaration coverage: _priors dispatches on all three element kinds with the accessor dag.Construct uses for that kind; as_vref expands all three reference kinds to value level',
        floor=11,
        breaks='the dependents of one kind of element (or inputs declared at algorithm / state-vector granularity) are never matched against the new values: they are not re-run after a change',
    ) as r:
        pri = prog.func(PRIORS)
        rep.analysed(pri)
        init, tab = _dag_accessor_table(prog)
        rep.analysed(init)
        if set(tab) != set(FACTORY_CLASS):
            raise AnalysisError(f'dag.Construct.__init__ builds trees for {sorted(tab)}, expected {sorted(FACTORY_CLASS)}')
        if len(pri.params()) != 1:
            raise AnalysisError('schedule._priors no longer takes the element as its only parameter')
        p = ('p', pri.params()[0])
        for kind, cls in sorted(FACTORY_CLASS.items()):
            acc, sub, call = tab[kind]
            # (a) the dag table: accessor is a method of the class and the sub-tree builder reads the same accessor
            r.instance()
            has = prog.method(cls, acc) is not None if acc else False
            reads = set()
            if sub is not None:
                rep.analysed(sub)
                for c in calls_to(prog, sub, AS_VREF):
                    if c.args and isinstance(c.args[0], ast.Call) and isinstance(c.args[0].func, ast.Attribute) and not c.args[0].args:
                        reads.add(c.args[0].func.attr)
            r.check(
                has and reads == {acc},
                f'{init.qname}:accessor[{kind}]',
                where(init, call),
                f'{kind}: {cls}.{acc}() is the declared-input accessor (tree builder reads {sorted(reads)})',
                f'dag.Construct builds the {kind} tree with accessor {acc!r} but {cls} defines it: {has}; the sub-tree builder reads {sorted(reads)}',
                nontrivial=False,
            )
            # (b) _priors returns exactly that accessor for an element of that class
            r.instance()
            out, sh, _it = _run(prog, pri, _KindModel(p, cls), {p[1]: p})
            got = set()
            for st in out.ret:
                got |= {repr(x) for x in _denoted(None, _eget(st[0], '$ret'), st)}
            if out.normal:
                got.add('None (falls off the end)')
            want = repr(('mcall', p, acc, ()))
            r.check(
                got == {want},
                f'{pri.qname}:{cls}',
                where(pri),
                f'{cls} -> {acc}() on every path',
                f'_priors returns {sorted(got)} for an instance of {cls}; the task graph is built from {acc}() for that kind, so its declared inputs are not compared with the new values',
            )
            for key, (wh, msg) in sorted(sh['problems'].items()):
                r.fail(key, wh, msg)
        # (c) as_vref
        asv = prog.func(AS_VREF)
        rep.analysed(asv)
        if len(asv.params()) != 1:
            raise AnalysisError('util.refs.as_vref no longer takes the reference list as its only parameter')
        ref = ('ref', 'r')
        want = {
            'dawgie.V_REF': {'the reference itself'},
            'dawgie.SV_REF': {repr(('vrefs', ref))},
            'dawgie.ALG_REF': {repr(('vrefs', ('svref', ref)))},
        }
        for kind in REF_KINDS:
            r.instance()
            out, sh, _it = _run(prog, asv, _AsVrefModel(ref, kind), {asv.params()[0]: ('mlist', 'refs', (ref,))})
            bad = []
            paths = out.normal | out.ret
            for st in paths:
                cov = set()
                for ev in st[2]:
                    if ev[0] == 'yield' and ev[1] == ref:
                        cov.add('the reference itself' if kind == 'dawgie.V_REF' else f'unexpanded {kind}')
                    elif ev[0] == 'yield' and ev[1][0] == 'vref':
                        cov.add(repr(('vrefs', ev[1][1])))
                    elif ev[0] == 'yieldfrom' and ev[1][0] == 'vrefs':
                        cov.add(repr(ev[1]))
                    elif ev[0] in ('yield', 'yieldfrom'):
                        cov.add(f'{ev[0]} {ev[1]!r}'[:80])
                if cov != want[kind]:
                    bad.append(sorted(cov))
            r.check(
                bool(paths) and not bad,
                f'{asv.qname}:{kind}',
                where(asv),
                f'{kind} expands to {sorted(want[kind])}',
                f'as_vref yields {bad[:2]} for a {kind} (expected its value-level references {sorted(want[kind])}): inputs declared with that kind of reference are never matched',
            )
            for key, (wh, msg) in sorted(sh['problems'].items()):
                r.fail(key, wh, msg)
        # (d) the two expansion helpers keep every field and cover every key / state vector
        fields = {'dawgie.V_REF': _namedtuple_fields(prog, 'V_REF'), 'dawgie.SV_REF': _namedtuple_fields(prog, 'SV_REF')}
        pr = ('p', 'ref')
        exp = {
            SVREF2VREF: ('dawgie.V_REF', {'factory': ('attr', pr, 'factory'), 'impl': ('attr', pr, 'impl'), 'item': ('attr', pr, 'item'), 'feat': ('key',)}),
            ALGREF2SVREF: ('dawgie.SV_REF', {'factory': ('attr', pr, 'factory'), 'impl': ('attr', pr, 'impl'), 'item': ('sv',)}),
        }
        for q, (cls, fmap) in exp.items():
            fn = prog.func(q)
            rep.analysed(fn)
            r.instance()
            if len(fn.params()) != 1:
                raise AnalysisError(f'{q} no longer takes one reference')
            out, sh, it = _run(prog, fn, _RefHelperModel(prog, fields), {fn.params()[0]: pr})
            wantv = (cls, tuple(fmap.get(n, ('const', None)) for n in fields[cls]))
            got = []
            for st in out.ret:
                v = _eget(st[0], '$ret')
                got.append(set(it.tokens(v, st)))
            r.check(
                bool(got) and all(g == {wantv} for g in got),
                f'{q}:expansion',
                where(fn),
                f'one {cls} per key / state vector with factory, impl (and item) passed through',
                f'{q} returns {[sorted(map(repr, g))[:2] for g in got][:2]}, expected one {wantv!r} per element',
            )


# ---------------------------------------------------------------------------
# R-C02-4 : format agreement

W_ROLES = ['RUN', 'TARGET', 'TASK', 'ALG', 'SV', 'VAL']


def _dotted_fields(e):
    """'.'.join([...]) / f'{a}.{b}' / a + '.' + b  -> list of field expressions (nested dotted parts spliced in), else None"""
    fs = _dotted_fields1(e)
    if fs is None:
        return None
    out = []
    for x in fs:
        sub = _dotted_fields(x.value if isinstance(x, ast.FormattedValue) else x)
        out.extend(sub if sub is not None else [x])
    return out


def _dotted_fields1(e):
    if isinstance(e, ast.Call) and isinstance(e.func, ast.Attribute) and e.func.attr == 'join' and isinstance(e.func.value, ast.Constant) and e.func.value.value == '.' and len(e.args) == 1 and isinstance(e.args[0], (ast.List, ast.Tuple)):
        return list(e.args[0].elts)
    parts = None
    if isinstance(e, ast.JoinedStr):
        parts = [v if isinstance(v, ast.Constant) else v.value for v in e.values]
    elif isinstance(e, ast.BinOp) and isinstance(e.op, ast.Add):
        parts = []

        def flat(x):
            if isinstance(x, ast.BinOp) and isinstance(x.op, ast.Add):
                flat(x.left)
                flat(x.right)
            else:
                parts.append(x)

        flat(e)
    if parts is None:
        return None
    fields = []
    for i, p in enumerate(parts):
        if i % 2 == 0:
            if isinstance(p, ast.Constant):
                return None
            fields.append(p)
        elif not (isinstance(p, ast.Constant) and p.value == '.'):
            return None
    return fields if len(parts) % 2 == 1 else None


class _Defs:
    """single-assignment copy propagation inside one function (loop variables and parameters are left alone)"""

    def __init__(self, fn):
        self.fn = fn
        self.vals = {}
        self.loops = {}
        for n in fn.own_nodes():
            if isinstance(n, ast.Assign):
                for t in n.targets:
                    if isinstance(t, ast.Name):
                        self.vals.setdefault(t.id, []).append(n.value)
                    elif isinstance(t, ast.Tuple):
                        for i, el in enumerate(t.elts):
                            if isinstance(el, ast.Name):
                                v = n.value.elts[i] if isinstance(n.value, ast.Tuple) and len(n.value.elts) == len(t.elts) else None
                                self.vals.setdefault(el.id, []).append(v)
            elif isinstance(n, (ast.AugAssign, ast.AnnAssign)) and isinstance(n.target, ast.Name):
                self.vals.setdefault(n.target.id, []).append(None)
            elif isinstance(n, (ast.For, ast.comprehension)):
                t = n.target
                if isinstance(t, ast.Name):
                    self.loops.setdefault(t.id, []).append((n.iter, None))
                elif isinstance(t, ast.Tuple):
                    for i, el in enumerate(t.elts):
                        if isinstance(el, ast.Name):
                            self.loops.setdefault(el.id, []).append((n.iter, i))

    def canon(self, e, depth=4):
        defs = self

        class T(ast.NodeTransformer):
            def visit_Name(self, node):
                vs = defs.vals.get(node.id)
                if isinstance(node.ctx, ast.Load) and vs and len(vs) == 1 and vs[0] is not None and node.id not in defs.loops and node.id not in defs.fn.params() and depth > 0:
                    return defs.canon(vs[0], depth - 1)
                return node

        import copy

        return T().visit(copy.deepcopy(e))


def _vref_name_roles(prog):
    fn = prog.func(VREF_AS_NAME)
    rets = [n for n in fn.own_nodes() if isinstance(n, ast.Return) and n.value is not None]
    if len(rets) != 1 or len(fn.params()) != 1:
        return fn, None
    defs = _Defs(fn)
    fields = _dotted_fields(defs.canon(rets[0].value))
    if fields is None:
        return fn, None
    p = fn.params()[0]
    roles = []
    for e in fields:
        t = norm(e)
        if isinstance(e, ast.Call) and prog.resolve_in(e.func, fn) == 'dawgie.util.names.task_name' and len(e.args) == 1 and norm(e.args[0]) == f'{p}.factory':
            roles.append('TASK')
        elif t == f'{p}.impl.name()':
            roles.append('ALG')
        elif t == f'{p}.item.name()':
            roles.append('SV')
        elif t == f'{p}.feat':
            roles.append('VAL')
        else:
            roles.append(f'?{t}')
    return fn, roles


def _report_writers(prog):
    out = []
    for fn in prog.funcs.values():
        if not fn.module.name.startswith('dawgie.db'):
            continue
        for c in fn.calls():
            if isinstance(c.func, ast.Attribute) and c.func.attr == 'new_values' and (c.args or c.keywords):
                out.append((fn, c))
    return out


class _Chain:
    """one `<bot>.new_values((name, flag))` site together with the same-class callers through which it is reached
    (levels[0] = the function containing the site, levels[-1] = the store path entry, e.g. Interface._update).
    Expressions are evaluated in the context of each caller: parameters of a helper are replaced by the caller's
    arguments; remaining locals are tagged name@level so that the two scopes cannot be confused."""

    def __init__(self, prog, site, levels):
        self.prog, self.site, self.levels = prog, site, levels
        self.defs = [_Defs(fn) for fn, _c in levels]

    def argmap(self, level):
        if level + 1 >= len(self.levels):
            return {}
        fn = self.levels[level][0]
        call = self.levels[level + 1][1]
        a = fn.node.args
        names = [x.arg for x in a.posonlyargs + a.args]
        defaults = dict(zip(names[len(names) - len(a.defaults):], a.defaults)) if a.defaults else {}
        if fn.cls is not None and names and names[0] in ('self', 'cls') and not fn.is_staticmethod():
            names = names[1:]
        out = {}
        for i, n in enumerate(names):
            out[n] = arg(call, i, n)
            if out[n] is None and n in defaults and isinstance(defaults[n], ast.Constant):
                out[n] = defaults[n]
        for x, d in zip(a.kwonlyargs, a.kw_defaults):
            out[x.arg] = arg(call, None, x.arg) or (d if isinstance(d, ast.Constant) else None)
        return out

    def subst(self, e, level, depth=8):
        import copy

        fn, defs = self.levels[level][0], self.defs[level]
        ce = defs.canon(e)
        amap = self.argmap(level)
        chain = self

        class T(ast.NodeTransformer):
            def visit_Name(self, node):
                if '@' in node.id or not isinstance(node.ctx, ast.Load):
                    return node
                if node.id in amap and depth > 0:
                    if amap[node.id] is None:
                        return ast.Name(id=f'{node.id}@{level}', ctx=ast.Load())
                    if isinstance(amap[node.id], ast.Constant):
                        return copy.deepcopy(amap[node.id])
                    return chain.subst(amap[node.id], level + 1, depth - 1)
                if node.id not in ('self', 'cls') and (node.id in defs.loops or node.id in fn.params() or node.id in defs.vals):
                    return ast.Name(id=f'{node.id}@{level}', ctx=ast.Load())
                return node

        return ast.fix_missing_locations(T().visit(ce))


def _same_class_callers(prog, h):
    out = []
    if h.cls is None:
        return out
    for g in prog.funcs.values():
        if g.cls is not h.cls or g is h:
            continue
        for c in g.calls():
            sym = prog.callee(c, g)
            if sym and prog.func_of(sym) is h:
                out.append((g, c))
    return out


def _report_chains(prog, maxdepth=2):
    chains = []
    for fn, c in _report_writers(prog):

        def grow(levels, depth):
            callers = _same_class_callers(prog, levels[-1][0]) if depth < maxdepth else []
            callers = [(g, k) for g, k in callers if all(g is not l[0] for l in levels)]
            if not callers:
                chains.append(_Chain(prog, c, levels))
                return
            for g, k in callers:
                grow(levels + [(g, k)], depth + 1)

        grow([(fn, None)], 0)
    return chains


def _chain_roles(ch, fields):
    """role of every field of a reported name (fields already evaluated in caller context by _Chain.subst)"""
    out = []
    nlev = len(ch.levels)
    for ce in fields:
        if isinstance(ce, ast.Call) and isinstance(ce.func, ast.Name) and ce.func.id == 'str' and len(ce.args) == 1 and not ce.keywords:
            ce = ce.args[0]  # str(x): the text of x (f-string fields are stringified the same way)
        t = norm(ce)
        if t == 'self._runid()':
            out.append('RUN')
        elif t == 'self._tn()':
            out.append('TARGET')
        elif t == 'self._task()':
            out.append('TASK')
        elif t in ('self._alg().name()', 'self._algn()'):
            out.append('ALG')
        elif t == 'repr(self._bot())':
            # the bots' __repr__ is '<run id>.<target of the bot>.<task name>'
            out += ['RUN', "?the bot's target (through repr(self._bot()))", 'TASK']
        elif isinstance(ce, ast.Call) and isinstance(ce.func, ast.Attribute) and ce.func.attr == 'name' and not ce.args and isinstance(ce.func.value, ast.Name) and '@' in ce.func.value.id:
            x, lv = ce.func.value.id.rsplit('@', 1)
            lv = int(lv)
            fn, defs = ch.levels[lv][0], ch.defs[lv]
            src = [norm(i) for i, _k in defs.loops.get(x, [])]
            if (x in fn.params() and lv == nlev - 1) or any(s.endswith('.state_vectors()') for s in src):
                out.append(('SV', ce.func.value.id))
            else:
                out.append(f'?{t}')
        elif isinstance(ce, ast.Name) and '@' in ce.id:
            x, lv = ce.id.rsplit('@', 1)
            lv = int(lv)
            defs = ch.defs[lv]
            roles = set()
            for it0, idx in defs.loops.get(x, []):
                it = ch.subst(it0, lv)
                if idx in (None, 0) and isinstance(it, ast.Call) and isinstance(it.func, ast.Attribute) and it.func.attr in ('keys', 'items') and isinstance(it.func.value, ast.Name) and (idx == 0) == (it.func.attr == 'items'):
                    roles.add(('VAL', it.func.value.id))
                elif idx is None and isinstance(it, ast.Name):
                    roles.add(('VAL', it.id))
                else:
                    roles.add(f'?{x} in {norm(it)}')
            out.append(roles.pop() if len(roles) == 1 else f'?{t}')
        else:
            out.append(f'?{t}')
    return out


OWN_TARGET = ('mcall', ('p', 'self'), '_tn', ())  # the value of self._tn(): the dataset's own target name


class _UseModel(_Model):
    """every call whose effect is not interpreted is an observable *use* of its argument values (event in the trace, result
    value built from the arguments); self._tn() is the dataset's own target name, a non-empty string; methods of the
    receiver's own class and functions of the same module are interpreted in line while the depth allows"""

    def truthy(self, val):
        return True if val == OWN_TARGET else None

    def eq(self, a, b):
        if a == OWN_TARGET and b == ('const', None):
            return False
        return None

    @staticmethod
    def _use(it, node, what, recv, a, kw, st):
        ev = ('use', what, recv, tuple(a), tuple(sorted(kw.items())))
        return [(('res',) + ev[1:], it.emit(st, ev))]

    @staticmethod
    def _logging(text):
        return any(p in ('log', '_log', 'LOG', 'logging', 'logger') for p in text.split('.'))

    def method(self, it, node, recv, name, a, kw, st):
        if recv[0] in ('const', 'str', 'obj', 'list', 'mlist', 'joined', 'concat'):
            return NotImplemented
        if self._logging(norm(node.func)):
            return [(('opaque', 'logging'), st)]
        if recv == ('p', 'self'):
            if name == '_tn' and not a and not kw:
                return [(OWN_TARGET, st)]
            sym = _callee(it.prog, node, it.f)
            callee = it.prog.func_of(sym) if sym and not sym.startswith(('local:', 'external:')) else None
            if callee is not None and callee.cls is not None and it.depth < it.MAXDEPTH and it._may_inline(callee):
                return it.inline(node, callee, a, kw, st, recv=recv)
        return self._use(it, node, name, recv, a, kw, st)

    def call(self, it, node, sym, a, kw, st):
        if sym is None:
            return self._use(it, node, norm(node.func), None, a, kw, st)
        if self._logging(sym):
            return NotImplemented
        callee = it.prog.func_of(sym) if not sym.startswith(('local:', 'external:')) else None
        if callee is not None and it.depth < it.MAXDEPTH and it._may_inline(callee):
            return NotImplemented  # interpreted in line by the caller
        return self._use(it, node, sym, None, a, kw, st)


def _defaults_to_own_target(prog, fn, pname):
    """is calling method `fn` with parameter `pname` omitted the same as calling it with self._tn()?

    Decided by interpreting `fn` twice over symbolic values -- once with the parameter bound to its declared default, once
    bound to the value of self._tn() -- and comparing the outcomes (the uses of values in calls, in order, and the value
    returned) path by path.  How the default is written (conditional expression in either orientation, `or`, an if
    statement, `is None` test, a helper of the same class) does not matter."""
    a = fn.node.args
    names = [x.arg for x in a.posonlyargs + a.args]
    dflt = dict(zip(names[len(names) - len(a.defaults):], a.defaults)) if a.defaults else {}
    dflt.update({x.arg: d for x, d in zip(a.kwonlyargs, a.kw_defaults) if d is not None})
    d = dflt.get(pname)
    if not isinstance(d, ast.Constant):
        return False, f'{fn.name} declares no constant default for {pname}'
    if fn.cls is None or fn.is_staticmethod() or not names:
        return False, f'{fn.name} is not an instance method'
    outcomes = []
    for val in (('const', d.value), OWN_TARGET):
        env = {n: ('p', n) for n in names[1:] + [x.arg for x in a.kwonlyargs]}
        env[names[0]] = ('p', 'self')
        env[pname] = val
        out, _sh, _it = _run(prog, fn, _UseModel(), env)
        res = set()
        for kind, sts in (('normal', out.normal), ('ret', out.ret), ('exc', out.exc)):
            for st in sts:
                res.add((kind, _eget(st[0], '$ret') if kind == 'ret' else None, st[2], st[1]))
        outcomes.append(res)
    if not outcomes[0]:
        return False, f'no path through {fn.name} understood'
    if outcomes[0] == outcomes[1]:
        return True, ''
    only = sorted(outcomes[0] - outcomes[1], key=repr) or sorted(outcomes[1] - outcomes[0], key=repr)
    uses = [ev for ev in only[0][2] if ev[0] == 'use']
    shown = repr(uses[0][1:4])[:120] if uses else repr(only[0][1])[:120]
    return False, f'with {pname} omitted {fn.name} behaves differently from {pname}=self._tn(), e.g. {shown}'


def _rule4(ctx, rep, ranges):
    prog = ctx.prog
    with rep.rule(
        'R-C02-4',
        'format agreement: the names written into the new-value report (run.target.task.alg.sv.value, target = the dataset\'s own target name) '
        'against the fields schedule.update reads and against util.vref_as_name / the feedback table',
        floor=14,
        breaks='update compares names that can never be equal (nothing is rescheduled) or schedules the dependents for a string that is not the target the values were stored under',
    ) as r:
        chains = _report_chains(prog)
        shapes = []
        seen_keys = set()
        for ch in chains:
            r.instance()
            fn, c = ch.levels[0][0], ch.site
            root = ch.levels[-1][0]
            for lf, _k in ch.levels:
                rep.analysed(lf)
            a0 = c.args[0] if c.args else c.keywords[0].value
            entry = ch.subst(a0, 0)
            key = f'{fn.qname}:new-value-name' + (f'[reached from {root.qname}]' if len(ch.levels) > 1 else '')
            if not (isinstance(entry, ast.Tuple) and len(entry.elts) == 2):
                r.fail(key, where(fn, c), f'the report entry {norm(a0)[:80]} is not a (name, isnew) pair this rule can read')
                continue
            fields = _dotted_fields(entry.elts[0])
            if fields is None:
                r.fail(key, where(fn, c), f'the reported name {norm(entry.elts[0])[:100]} is not built as a dotted join of fields')
                continue
            roles = _chain_roles(ch, fields)
            kinds = [x[0] if isinstance(x, tuple) else x for x in roles]
            same_sv = len(roles) == 6 and isinstance(roles[4], tuple) and isinstance(roles[5], tuple) and roles[4][1] == roles[5][1]
            ok = kinds == W_ROLES and same_sv
            shapes.append(kinds)
            msg = f'reported name has fields {kinds}, expected {W_ROLES} joined by "."'
            if len(kinds) > 1 and kinds[1] != 'TARGET' and kinds[:1] == ['RUN']:
                msg += f'; field 1 is {kinds[1].lstrip("?")}, not the dataset\'s own target name self._tn() under which the value is stored (they differ for a dataset obtained through retarget(): consumers of the sub-target are never queued)'
            if len(ch.levels) > 1:
                msg += f' [name built in {fn.qname}, store path {root.qname}]'
            r.check(ok, key, where(fn, c), f'fields {kinds}', msg)
            # the same target name keys the stored value (every function of the store path)
            for lvl, (lf, _k) in enumerate(ch.levels):
                for k in lf.calls():
                    sym = prog.callee(k, lf) or ''
                    kf = prog.func_of(sym)
                    if kf is None or kf.cls is None or kf.cls is not lf.cls:
                        continue
                    ps = kf.params()
                    if 'tn' not in ps:
                        continue
                    kkey = f'{lf.qname}:key-target:{norm(k)[:60]}'
                    if kkey in seen_keys:
                        continue
                    seen_keys.add(kkey)
                    i = ps.index('tn') - (0 if kf.is_staticmethod() else 1)
                    tn_arg = arg(k, i, 'tn')
                    if tn_arg is None:
                        dflt_ok, why = _defaults_to_own_target(prog, kf, 'tn')
                        r.check(dflt_ok, kkey, where(lf, k), f'{kf.name} defaults to self._tn()', f'{norm(k)[:80]}: the target of the database key does not default to self._tn() ({why})', nontrivial=False)
                    else:
                        t = norm(ch.subst(tn_arg, lvl))
                        r.check(t == 'self._tn()', kkey, where(lf, k), 'database key uses self._tn()', f'{norm(k)[:80]}: the database key is built for target {t} while the report must name the same target')
        if len(chains) < 3:
            raise AnalysisError(
                f'only {len(chains)} report-name shapes reach <bot>.new_values(...) over the store paths of the database back ends (expected shelve _update, shelve _update_msv, post _update)'
            )
        good = [s for s in shapes if s == W_ROLES]
        arity = 6
        ti, n0 = W_ROLES.index('TARGET'), W_ROLES.index('TASK')
        # readers in schedule.update (ranges of the dotted name observed by the symbolic execution)
        upd = prog.func(UPDATE)
        r.instance()
        r.check(
            ranges['target'] == {(ti, ti + 1)},
            f'{upd.qname}:target-field',
            where(upd),
            f'targets handed to organize are field {ti} of the reported name',
            f'targets handed to organize are taken from fields {sorted(ranges["target"])} of the reported name; the writers put the target name in field {ti}',
        )
        vfn, vroles = _vref_name_roles(prog)
        rep.analysed(vfn)
        r.instance()
        r.check(
            vroles == W_ROLES[n0:],
            f'{vfn.qname}:shape',
            where(vfn),
            f'vref_as_name = {vroles}',
            f'util.vref_as_name builds {vroles}; the report carries {W_ROLES[n0:]} after run id and target',
        )
        r.instance()
        r.check(
            ranges['name'] == {(n0, arity)},
            f'{upd.qname}:name-fields',
            where(upd),
            f'names compared with declared inputs are fields {n0}..{arity - 1} of the reported name',
            f'names compared with vref_as_name(...) are fields {sorted(ranges["name"])} of the reported name, expected {n0}..{arity - 1} ({W_ROLES[n0:]})',
        )
        # feedback table: keyed like vref_as_name, holds the consumer's value-level tag; update trims it to algorithm level
        fb = prog.func('dawgie.pl.dag.Construct._feedback')
        rep.analysed(fb)
        r.instance()
        stores = [
            n
            for n in fb.own_nodes()
            if isinstance(n, ast.Assign) and isinstance(n.targets[0], ast.Subscript) and norm(n.targets[0].value) == 'self._feedbacks'
        ]
        fdefs = _Defs(fb)
        okfb = bool(stores)
        det = 'no store into self._feedbacks found'
        for s in stores:
            k = fdefs.canon(s.targets[0].slice)
            kok = isinstance(k, ast.Call) and prog.resolve_in(k.func, fb) == VREF_AS_NAME
            vok = isinstance(s.value, ast.Attribute) and s.value.attr == 'tag'
            okfb = okfb and kok and vok
            det = f'{norm(s)}: key {"is" if kok else "is NOT"} vref_as_name(...), value {"is" if vok else "is NOT"} the consumer tag'
        r.check(okfb, f'{fb.qname}:table-shape', where(fb), det, f'feedback table does not map vref_as_name(fed-back value) to the consumer tag: {det}')
        r.instance()
        r.check(
            ranges['fbkey'] <= {(n0, arity)} and bool(ranges['fbkey']),
            f'{upd.qname}:feedback-key-fields',
            where(upd),
            'feedback table is looked up with the same fields as the declared inputs',
            f'feedback table is looked up with fields {sorted(ranges["fbkey"])} of the reported name, expected {n0}..{arity - 1}',
        )
        init = prog.func('dawgie.pl.dag.Construct.__init__')
        lvl = None
        for n in init.own_nodes():
            if isinstance(n, ast.Assign) and norm(n.targets[0]) == 'self._at' and isinstance(n.value, ast.Call) and n.value.args and isinstance(n.value.args[0], ast.Constant):
                lvl = n.value.args[0].value
        r.instance()
        r.check(
            lvl is not None and ranges['fbtask'] == {(0, lvl)},
            f'{upd.qname}:feedback-task-fields',
            where(upd),
            f'feedback consumer trimmed to the first {lvl} fields = tag level of the algorithm tree organize searches',
            f'feedback consumer names handed to organize are fields {sorted(ranges["fbtask"])} of the consumer tag; the algorithm tree (ae.at) is tagged with the first {lvl} fields',
        )
        # the report container keeps entries unchanged
        n_nv = 0
        for fn in prog.funcs.values():
            if fn.name != 'new_values' or fn.cls is None or fn.module.name not in ('dawgie', 'dawgie.base'):
                continue
            n_nv += 1
            r.instance()
            rep.analysed(fn)
            ps = fn.params()
            pv = ps[1] if len(ps) > 1 else None
            apps = [c for c in fn.calls() if isinstance(c.func, ast.Attribute) and c.func.attr in ('append', 'add') and len(c.args) == 1]
            rets = [n for n in fn.own_nodes() if isinstance(n, ast.Return) and n.value is not None]
            store = norm(apps[0].func.value) if apps else None
            tests = [n.test for n in fn.own_nodes() if isinstance(n, ast.If)]
            ok = (
                pv is not None
                and len(apps) == 1
                and isinstance(apps[0].args[0], ast.Name)
                and apps[0].args[0].id == pv
                and rets
                and all(norm(x.value) == store for x in rets)
                and all({n.id for n in ast.walk(t) if isinstance(n, ast.Name)} <= {pv} for t in tests)
            )
            r.check(bool(ok), f'{fn.qname}:keeps-entries', where(fn), 'entry appended unchanged; the same list is returned', f'{fn.qname} does not append the reported (name, isnew) pair unchanged and return the collected list', nontrivial=False)
        if n_nv < 3:
            raise AnalysisError(f'only {n_nv} new_values containers found on the bot classes')
        r.note('the isnew flag itself (content digest never stored before) is decided under C07, not here')
        r.note("target names containing '.' are outside the repository's own naming rule and are not analysed")
    return good


# ---------------------------------------------------------------------------
# R-C02-5 : reply handling

FIND = 'dawgie.pl.schedule.find'
COMPLETE = 'dawgie.pl.schedule.complete'
PURGE = 'dawgie.pl.schedule.purge'
TRANSLATE = 'dawgie.pl.farm.Hand._translate'
RES = 'dawgie.pl.farm.Hand._res'
STATE = 'dawgie.pl.jobinfo.State.'
RAWS = (None, True, False)


class _RawModel(_Model):
    """the success field of a reply: None (invalid data), True, False"""

    def __init__(self, val, raw):
        self.val, self.raw = val, raw

    def truthy(self, val):
        return bool(self.raw) if val == self.val else None

    def eq(self, a, b):
        if a == self.val and b[0] == 'const':
            if b[1] is None:
                return self.raw is None
            if isinstance(b[1], bool):
                return self.raw is b[1]
        return None


class _ResModel(_RawModel):
    def __init__(self, prog, raw, mapping):
        super().__init__(('attr', ('msg',), 'success'), raw)
        self.prog, self.mapping = prog, mapping
        self.upd = prog.func(UPDATE)

    def call(self, it, node, sym, a, kw, st):
        if sym == TRANSLATE and len(a) == 1:
            if a[0] == self.val and self.mapping.get(self.raw):
                return [(('sym', self.mapping[self.raw]), st)]
            return [(('opaque', norm(node)[:60]), st)]
        if sym == FIND:
            it.raises(st)  # the lookup fails (IndexError) when the job is not queued
            v = ('job', a[0] if a else None)
            return [(v, it.emit(st, ('find', v)))]
        if sym in (COMPLETE, PURGE):
            return [(('const', None), it.emit(st, (sym.rsplit('.', 1)[1], tuple(a))))]
        if sym == UPDATE:
            names = self.upd.params()
            vals = tuple(a[i] if i < len(a) else kw.get(n, ('const', None)) for i, n in enumerate(names))
            return [(('const', None), it.emit(st, ('update', vals)))]
        return NotImplemented

    def inline_ok(self, callee):
        return callee.qname not in (TRANSLATE,)


def _translate_map(prog, r, rep):
    f = prog.func(TRANSLATE)
    rep.analysed(f)
    if len(f.params()) != 1:
        raise AnalysisError('farm.Hand._translate no longer takes the success field as its only parameter')
    p = ('p', f.params()[0])
    mapping = {}
    for raw in RAWS:
        out, _sh, _it = _run(prog, f, _RawModel(p, raw), {p[1]: p})
        vals = {_eget(st[0], '$ret') for st in out.ret} | ({('const', None)} if out.normal else set())
        if len(vals) == 1:
            v = next(iter(vals))
            if v[0] == 'sym' and v[1].startswith(STATE):
                mapping[raw] = v[1]
    r.instance()
    want = {None: STATE + 'invalid', True: STATE + 'success', False: STATE + 'failure'}
    r.check(
        mapping == want,
        f'{f.qname}:mapping',
        where(f),
        'None -> invalid, truthy -> success, falsy -> failure',
        f'Hand._translate maps the success field as { {k: v.rsplit(".", 1)[1] for k, v in mapping.items()} }: only a successful run may be treated as success',
    )
    return mapping


def _bound_args(fn, call):
    """parameter name -> argument expression of `call` to `fn` (constant defaults filled in)"""
    a = fn.node.args
    names = [x.arg for x in a.posonlyargs + a.args]
    defaults = dict(zip(names[len(names) - len(a.defaults):], a.defaults)) if a.defaults else {}
    out = {}
    for i, n in enumerate(names):
        v = arg(call, i, n)
        if v is None and isinstance(defaults.get(n), ast.Constant):
            v = defaults[n]
        out[n] = v
    for x, d in zip(a.kwonlyargs, a.kw_defaults):
        out[x.arg] = arg(call, None, x.arg) or (d if isinstance(d, ast.Constant) else None)
    return out


def _reply_constructions(prog, ex):
    """[(call site in ex, {message.make parameter: expression in the context of ex})]: message.make(...) called directly or
    returned by a helper of the same module (its parameters bound to the caller's arguments)"""
    make = prog.func('dawgie.pl.message.make')
    out = []
    for c in sorted(ex.calls(), key=lambda n: (n.lineno, n.col_offset)):
        sym = prog.callee(c, ex)
        kf = prog.func_of(sym) if sym else None
        if kf is make:
            out.append((c, _bound_args(make, c)))
        elif kf is not None and kf.module is ex.module and kf is not ex:
            outer = _bound_args(kf, c)
            hdefs = _Defs(kf)
            for rt in kf.own_nodes():
                if not (isinstance(rt, ast.Return) and rt.value is not None):
                    continue
                v = hdefs.canon(rt.value)
                if not (isinstance(v, ast.Call) and prog.func_of(prog.resolve_in(v.func, kf) or '') is make):
                    continue
                inner = _bound_args(make, v)
                kws = {}
                for k, e in inner.items():
                    if isinstance(e, ast.Name) and e.id in outer:
                        e = outer[e.id]
                    kws[k] = e
                out.append((c, kws))
    return out


def _rule5(ctx, rep):
    prog = ctx.prog
    f = prog.func(RES)
    rep.analysed(f)
    with rep.rule(
        'R-C02-5',
        'reply handling: when the job is found, complete exactly once and before update; update exactly on success with the reply\'s values, the found job and the reply\'s run id; the success reply carries the report',
        floor=7,
        breaks='dependents are organised while the reporting unit still counts as executing (and are withheld or lost), or with a report / job / run id that is not the reply\'s',
    ) as r:
        mapping = _translate_map(prog, r, rep)
        if len(f.params()) != 1:
            raise AnalysisError('farm.Hand._res no longer takes the reply as its only parameter')
        msg = ('msg',)
        problems = {}
        found_any = False
        for raw in RAWS:
            r.instance()
            out, sh, _it = _run(prog, f, _ResModel(prog, raw, mapping), {f.params()[0]: msg})
            problems.update(sh['problems'])
            bad = []
            for st in out.normal | out.ret | out.exc:
                tr = [ev for ev in st[2] if ev[0] in ('find', 'complete', 'update', 'purge')]
                order = [ev[0] for ev in tr]
                if 'find' not in order:
                    if 'complete' in order or 'update' in order:
                        bad.append(f'{order}: result applied without looking the job up')
                    continue
                found_any = True
                nu = order.count('update')
                if order.count('complete') != 1:
                    bad.append(f'{order}: complete called {order.count("complete")} times')
                elif nu and order.index('complete') > order.index('update'):
                    bad.append(f'{order}: update runs before complete (the reporting unit is still in doing while its dependents are organised)')
                if nu != (1 if raw is True else 0):
                    bad.append(f'{order}: update called {nu} time(s) for a reply with success={raw}')
                job = next(ev[1] for ev in tr if ev[0] == 'find')
                if job != ('job', ('attr', msg, 'jobid')):
                    bad.append('the job is not looked up by the job id of the reply')
                for ev in tr:
                    if ev[0] == 'update':
                        want = (('attr', msg, 'values'), job, ('attr', msg, 'runid'))
                        if ev[1] != want:
                            bad.append(f'update receives {ev[1]!r}'[:160] + ', expected (reply.values, the found job, reply.runid)')
            r.check(
                not bad,
                f'{f.qname}:success={raw}',
                where(f),
                'find -> complete x1 -> update (success only) with (reply.values, job, reply.runid)',
                f'reply with success={raw}: ' + '; '.join(sorted(set(bad))[:3]),
            )
        if not found_any:
            raise AnalysisError('farm.Hand._res: no path on which the job is looked up (schedule.find)')
        for key, (wh, m) in sorted(problems.items()):
            r.fail(key, wh, m)
        # the report travels: Context.run returns the bot's collected new values, execute() puts them into the success reply
        run = prog.func('dawgie.pl.worker.Context.run')
        rep.analysed(run)
        r.instance()
        rets = [n for n in run.own_nodes() if isinstance(n, ast.Return)]
        bots = {norm(c.func.value) for c in run.calls() if isinstance(c.func, ast.Attribute) and c.func.attr == 'do'}
        okr = bool(rets) and all(
            x.value is not None
            and isinstance(x.value, ast.Call)
            and isinstance(x.value.func, ast.Attribute)
            and x.value.func.attr == 'new_values'
            and not x.value.args
            and not x.value.keywords
            and norm(x.value.func.value) in bots
            for x in rets
        )
        r.check(okr, f'{run.qname}:returns-report', where(run), 'returns <bot>.new_values() of the bot that ran', 'worker Context.run does not return the new-value report of the bot it ran', nontrivial=False)
        n_ex = 0
        for q in ('dawgie.pl.worker.cluster.execute', 'dawgie.pl.worker.aws.execute'):
            if not prog.has_func(q):
                continue
            ex = prog.func(q)
            rep.analysed(ex)
            defs = _Defs(ex)
            for c, kws in _reply_constructions(prog, ex):
                suc = kws.get('suc')
                if not (isinstance(suc, ast.Constant) and suc.value is True):
                    continue
                if kws.get('jid') is None:
                    continue
                n_ex += 1
                r.instance()
                val = kws.get('val')
                cv = defs.canon(val) if val is not None else None
                ok = isinstance(cv, ast.Call) and isinstance(cv.func, ast.Attribute) and cv.func.attr == 'run'
                r.check(ok, f'{q}:success-reply-values', where(ex, c), 'val=<context>.run(...)', f'the success reply of {q} does not carry the report returned by Context.run (val={norm(val) if val is not None else None})', nontrivial=False)
        if n_ex < 1:
            raise AnalysisError('no success reply construction found in the workers')


# ---------------------------------------------------------------------------


def _rule6(ctx, rep):
    """added after seeded change C02-11: organize kept the run id of a node that was still queued; the dependent was then
    dispatched under the old run id, loaded its producer's value of that old run and recomputed the stale result"""
    prog = ctx.prog
    f = prog.nfunc('dawgie.pl.schedule.organize')
    rep.analysed(f)
    with rep.rule(
        'R-C02-6',
        "organize stamps every node it schedules with the run id of the triggering event, unconditionally (the task message and the dependent's loads carry that run id)",
        floor=1,
        breaks='a dependent that is still queued from an earlier event runs under the earlier run id: it loads the value its producer stored then, not the one just reported new',
    ) as r:
        params = f.params()
        sets = [c for c in f.calls() if isinstance(c.func, ast.Attribute) and c.func.attr == 'set' and len(c.args) == 2 and isinstance(c.args[0], ast.Constant) and c.args[0].value == 'runid']
        key = f'{f.qname}:runid-stamped-unconditionally'
        r.instance()
        if not sets:
            r.fail(key, where(f), "organize no longer stores the event's run id in the node attribute 'runid'")
            return
        for c in sets:
            conds = shared.path_condition(f, c)
            from_event = isinstance(c.args[1], ast.Name) and c.args[1].id in params
            r.check(
                not conds and from_event,
                key,
                where(f, c),
                'the run id parameter is stored on every path of the node iteration',
                f'{norm(c)} is ' + ('guarded by ' + ' and '.join(('' if o else 'not ') + '(' + norm(t)[:60] + ')' for t, o in conds) if conds else 'not the run id of the event')
                + ': a node scheduled by this event can keep another run id',
            )


def check(ctx):
    rep = Report(
        PID,
        ctx.tier,
        ctx.prog,
        'Small-model symbolic execution (path-sensitive abstract interpretation over symbolic values, exhaustive over the atoms the code can test and '
        'over iteration orders) of schedule.update, schedule._priors, util.refs.as_vref, farm.Hand._res / _translate, plus shape extraction of the '
        'report writers in the database back ends: (1) only entries flagged new contribute names, feedback look-ups and targets; (2) exactly the '
        'children that declare a new value (and feedback consumers) reach organize with the targets of the new entries, and organize adds the whole '
        'requested target set to todo of every located node and queues it; (3) all three element kinds / reference kinds are covered; (4) writer and '
        'reader agree on the dotted name (arity, field order, target = the dataset\'s own target name); (5) complete precedes update, update only on '
        'success with the reply\'s own values/job/run id. The transitive closure over time is the iteration of (2) at each completion and is not computed.',
        assumptions=[
            'different fields / different entries of the model hold different text',
            'apart from self edges (which update must skip) and declared feedback, the dependency graph is acyclic',
            "names do not contain '.' (util.names.verify_name)",
        ],
    )
    rep.not_decided = [
        'transitive closure over time (iteration of R-C02-2 at every completion)',
        'results that arrive while the same unit is queued again',
        'stored results at quiescence equal those of a from-scratch run (depends on runtime content and order)',
        'the promotion engine (re-use of old results for values not flagged new)',
        'novelty of the flag itself (C07)',
    ]
    ranges = _update_rules(ctx, rep, 6)
    _rule3(ctx, rep)
    _rule4(ctx, rep, ranges)
    _rule5(ctx, rep)
    _rule6(ctx, rep)
    shared.borrow(ctx, rep, [
        ('c03', lambda m: m.rule2(ctx, rep), 'a released job that falls out of the batch never runs: the reprocessing is incomplete'),
        ('c09', lambda m: m.rule4(ctx, rep, m.Facts(ctx)), 'update() walks the algorithm-level tree: a consumer edge lost by Node.trim is a consumer never run again'),
        ('c07', lambda m: m._rule1(ctx, rep), 'a value is reported new - and its consumers are run again - exactly when its content has no name in the store yet: the name must be the digest of the whole staged file'),
        ('c06', lambda m: m.rule3(ctx, rep, m.Facts(ctx, rep)), 'a consumer run again must load what the producer just stored, not an entry picked by its own run id'),
    ])
    return rep


_S = 'pl/schedule.py'
_U = (_S, 'update')
_O = (_S, 'organize')
_RF = 'util/refs.py'
_SM = 'db/shelve/model.py'
_PI = 'db/post/__init__.py'
# the todo extension of organize's node loop and the rest of the function up to the next definition (one contiguous text, so
# that a variant can move the former into a module level helper placed after organize)
_ORG_IF = "                if _is_asp(n):\n                    n.get('todo').add('__all__')\n                elif '__all__' in targets:\n                    n.get('todo').update(dawgie.db.targets())\n                else:\n                    n.get('todo').update(targets)\n"
_ORG_REST = "                pass\n            pass\n        pass\n    log.debug('organize() - setting queue')\n    dawgie.pl.schedule.que = sorted(\n        # entries already on the queue stay (a unit that is executing may have had\n        # its target purged: its reply still has to find the job); a node is newly\n        # queued only with work\n        filter(\n            lambda j: j in que or j.get('todo') or j.get('doing'),\n            jobs.values(),\n        ),\n        key=lambda i: i.get('level'),\n    )\n    return\n\n\n"
_ORG_TAIL = _ORG_IF + _ORG_REST
_COMPLETE = 'dawgie.pl.schedule.complete(job, msg.runid, inc, msg.timing, state)\n'
VARIANTS = [
    V('organize keeps the run id of a queued node', 'B', 'pl/schedule.py', 'organize', "n.set('runid', runid)", "if n not in que or n.get('runid') is None:\n                    n.set('runid', runid)", 'R-C02-6'),
    V('organize stamps run id 0', 'B', 'pl/schedule.py', 'organize', "n.set('runid', runid)", "n.set('runid', 0)", 'R-C02-6'),

    # R-C02-1
    V('filter inverted', 'B', *_U, 'filter(lambda t: t[1], values)', 'filter(lambda t: not t[1], values)', 'R-C02-1'),
    V('filter dropped', 'B', *_U, 'filter(lambda t: t[1], values)', 'values', 'R-C02-1'),
    V('targets of every entry', 'B', *_U, 'targets.add(target)', 'targets.update(v.split(\'.\')[1] for v, _n in values)', 'R-C02-1'),
    # R-C02-2
    V('self edge followed (all descendants and the node itself)', 'B', *_U, 'filter(lambda n: n.tag != original.tag, original)', 'original.iter()', 'R-C02-2'),
    V('self edge followed (filter dropped)', 'B', *_U, 'filter(lambda n: n.tag != original.tag, original)', 'original', 'R-C02-2'),
    V('only the first child examined', 'B', *_U, 'filter(lambda n: n.tag != original.tag, original)', 'original[:1]', 'R-C02-2'),
    V('child added without membership test', 'B', *_U, 'if dawgie.util.vref_as_name(vref) in vns:', 'if vns:', 'R-C02-2'),
    V('membership test negated', 'B', *_U, 'if dawgie.util.vref_as_name(vref) in vns:', 'if dawgie.util.vref_as_name(vref) not in vns:', 'R-C02-2'),
    V('stop after the first declared input', 'B', *_U, 'task_names.add(node.tag)\n                pass', 'task_names.add(node.tag)\n                break', 'R-C02-2'),
    V('names set overwritten per entry', 'B', *_U, 'vns.add(fvn)', 'vns = {fvn}', 'R-C02-2'),
    V('references not expanded to value level', 'B', *_U, "dawgie.util.as_vref(_priors(node.get('alg')))", "_priors(node.get('alg'))", 'R-C02-2'),
    V('only Algorithm.previous consulted', 'B', *_U, "dawgie.util.as_vref(_priors(node.get('alg')))", "dawgie.util.as_vref(node.get('alg').previous())", 'R-C02-2'),
    V('extra status guard on selection', 'B', *_U, 'if dawgie.util.vref_as_name(vref) in vns:', "if dawgie.util.vref_as_name(vref) in vns and node.get('status') is not State.running:", 'R-C02-2'),
    V('feedback consumer dropped', 'B', *_U, "task_names.add('.'.join(feedbacks[fvn].split('.')[:2]))", 'pass', 'R-C02-2'),
    V('organize without the targets', 'B', *_U, 'organize(sorted(task_names), rid, targets, event)', 'organize(sorted(task_names), rid, set(), event)', 'R-C02-2'),
    V('organize: requested minus executing', 'B', *_O, "n.get('todo').update(targets)", "n.get('todo').update(targets - n.get('doing'))", 'R-C02-2'),
    V('organize: running nodes skipped', 'B', *_O, "                else:\n                    n.get('todo').update(targets)", "elif n.get('status') is not State.running:\n                    n.get('todo').update(targets)", 'R-C02-2'),
    V('organize: todo replaced', 'B', *_O, "n.get('todo').update(targets)", "n.set('todo', dawgie.util.fifo.Unique(targets))", 'R-C02-2'),
    V('organize: all-targets marker ignored', 'B', *_O, "                elif '__all__' in targets:\n                    n.get('todo').update(dawgie.db.targets())\n", '', 'R-C02-2'),
    V('organize: only the first root searched', 'B', *_O, 'for t in dawgie.pl.schedule.ae.at:', 'for t in dawgie.pl.schedule.ae.at[:1]:', 'R-C02-2'),
    V('organize: node not entered into the queue source', 'B', *_O, 'jobs[n.tag] = n\n', 'pass\n', 'R-C02-2'),
    V('organize: queue keeps only executing nodes', 'B', *_O, "filter(lambda j: j.get('todo') or j.get('doing'), jobs.values())", "filter(lambda j: j.get('doing'), jobs.values())", 'R-C02-2'),
    V('organize: local queue list keeps only executing nodes', 'B', *_O, "dawgie.pl.schedule.que = sorted(\n        filter(lambda j: j.get('todo') or j.get('doing'), jobs.values()),\n        key=lambda i: i.get('level'),\n    )", "active = [j for j in jobs.values() if j.get('doing')]\n    dawgie.pl.schedule.que = sorted(active, key=lambda i: i.get('level'))", 'R-C02-2'),
    V('organize: aspect test inlined and inverted', 'B', *_O, 'if _is_asp(n):', "if n.get('factory').__name__ != dawgie.Factories.analysis.name:", 'R-C02-2'),
    # R-C02-3
    V('_priors without Regression', 'B', _S, '_priors', '    if isinstance(node, dawgie.Regression):\n        result = node.variables()\n', '', 'R-C02-3'),
    V('_priors Analyzer reads previous', 'B', _S, '_priors', 'result = node.traits()', 'result = node.previous()', 'R-C02-3'),
    V('as_vref without ALG_REF', 'B', _RF, 'as_vref', '        if isinstance(reference, dawgie.ALG_REF):\n            for svref in algref2svref(reference):\n                yield from svref2vref(svref)\n', '', 'R-C02-3'),
    V('as_vref yields SV_REF unexpanded', 'B', _RF, 'as_vref', 'yield from svref2vref(reference)', 'yield reference', 'R-C02-3'),
    V('as_vref first state vector only', 'B', _RF, 'as_vref', 'for svref in algref2svref(reference):', 'for svref in algref2svref(reference)[:1]:', 'R-C02-3'),
    V('svref2vref first key only', 'B', _RF, 'svref2vref', 'for key in ref.item', 'for key in list(ref.item)[:1]', 'R-C02-3'),
    # R-C02-4
    V('target read from field 0', 'B', *_U, "target = vn.split('.')[1]", "target = vn.split('.')[0]", 'R-C02-4'),
    V('value name read from field 3', 'B', *_U, "fvn = '.'.join(vn.split('.')[2:])", "fvn = '.'.join(vn.split('.')[3:])", 'R-C02-4'),
    V('feedback consumer trimmed to 3 fields', 'B', *_U, "feedbacks[fvn].split('.')[:2]", "feedbacks[fvn].split('.')[:3]", 'R-C02-4'),
    V('shelve writer names the bot target', 'B', _SM, 'Interface._update', '[str(runid), tn, task, alg.name(), sv.name(), k]', '[str(runid), self._bot()._target(), task, alg.name(), sv.name(), k]', 'R-C02-4'),
    V('shelve writer swaps task and target', 'B', _SM, 'Interface._update', '[str(runid), tn, task, alg.name(), sv.name(), k]', '[str(runid), task, tn, alg.name(), sv.name(), k]', 'R-C02-4'),
    V('metric writer swaps alg and sv', 'B', _SM, 'Interface._update_msv', '[str(runid), tn, task, alg.name(), msv.name(), k]', '[str(runid), tn, task, msv.name(), alg.name(), k]', 'R-C02-4'),
    V('database key for another target', 'B', _SM, 'Interface._update', 'vname = self.__to_key(runid, tn, task, alg, sv, vn)', 'vname = self.__to_key(runid, self._bot()._target(), task, alg, sv, vn)', 'R-C02-4'),
    V('post writer names the bot target', 'B', 'db/post/__init__.py', 'Interface._update', 'str(self._runid()),\n                                self._tn(),', 'str(self._runid()),\n                                self._bot()._target(),', 'R-C02-4'),
    V('report helper names the bot target (repr of the bot)', 'B', _SM, 'Interface', '''self._bot().new_values(\n                        (\n                            '.'.join(\n                                [str(runid), tn, task, alg.name(), sv.name(), k]\n                            ),\n                            isnew,\n                        )\n                    )\n                    pass\n                pass\n        finally:\n            self._log.debug("update: Releaseing for %s", name)\n            comms.release(lok)\n            pass\n        return\n\n    def _update_msv(self, msv):''', '''self.__report(alg, sv, k, isnew)\n                    pass\n                pass\n        finally:\n            self._log.debug("update: Releaseing for %s", name)\n            comms.release(lok)\n            pass\n        return\n\n    def __report(self, alg, sv, vn, isnew):\n        name = '.'.join([repr(self._bot()), alg.name(), sv.name(), vn])\n        self._bot().new_values((name, isnew))\n        return\n\n    def _update_msv(self, msv):''', 'R-C02-4'),
    V('vref_as_name swaps alg and sv', 'B', _RF, 'vref_as_name', 'vref.impl.name(),\n            vref.item.name(),', 'vref.item.name(),\n            vref.impl.name(),', 'R-C02-4'),
    V('feedback table keyed by consumer', 'B', 'pl/dag.py', 'Construct._feedback', 'self._feedbacks[fbn] = node.tag', 'self._feedbacks[node.tag] = fbn', 'R-C02-4'),
    # R-C02-5
    V('update before complete', 'B', 'pl/farm.py', 'Hand._res', _COMPLETE + '\n            if state', 'if state', 'R-C02-5'),
    V('update on every outcome', 'B', 'pl/farm.py', 'Hand._res', 'dawgie.pl.schedule.purge(job, inc)', 'dawgie.pl.schedule.purge(job, inc)\n                dawgie.pl.schedule.update(msg.values, job, msg.runid)', 'R-C02-5'),
    V('update with a fresh run id', 'B', 'pl/farm.py', 'Hand._res', 'dawgie.pl.schedule.update(msg.values, job, msg.runid)', 'dawgie.pl.schedule.update(msg.values, job, None)', 'R-C02-5'),
    V('complete called twice', 'B', 'pl/farm.py', 'Hand._res', _COMPLETE, _COMPLETE + '            ' + _COMPLETE, 'R-C02-5'),
    V('invalid data treated as success', 'B', 'pl/farm.py', 'Hand._translate', 'if state is None:\n            return dawgie.pl.schedule.State.invalid', 'if state is None:\n            return dawgie.pl.schedule.State.success', 'R-C02-5'),
    V('worker drops the report', 'B', 'pl/worker/__init__.py', 'Context.run', 'return task.new_values()', 'return []', 'R-C02-5'),
    V('success reply without values', 'B', 'pl/worker/cluster.py', 'execute', '                val=nv,\n', '', 'R-C02-5'),
    # benign
    V('names built by a set comprehension', 'N', *_U, '        vns = set()\n', "vns = {'.'.join(v.split('.')[2:]) for v, n in values if n}\n", None),
    V('feedback table hoisted', 'N', *_U, 'if fvn in dawgie.pl.schedule.ae.feedbacks:', 'if fvn in feedbacks:', None),
    V('flag tested inside the loop', 'N', *_U, 'for vn, _isnew in filter(lambda t: t[1], values):\n', 'for vn, _isnew in values:\n            if not _isnew:\n                continue\n', None),
    V('children selected by one comprehension', 'N', *_U,
      "        for node in filter(lambda n: n.tag != original.tag, original):\n            for vref in dawgie.util.as_vref(_priors(node.get('alg'))):\n                if dawgie.util.vref_as_name(vref) in vns:\n                    task_names.add(node.tag)\n                pass\n            pass\n",
      "task_names |= {n.tag for n in original if n.tag != original.tag and any(dawgie.util.vref_as_name(v) in vns for v in dawgie.util.as_vref(_priors(n.get('alg'))))}\n", None),
    V('break after the first matching input', 'N', *_U, '                    task_names.add(node.tag)\n                pass', 'task_names.add(node.tag)\n                    break\n                pass', None),
    V('value name by maxsplit', 'N', *_U, "fvn = '.'.join(vn.split('.')[2:])", "fvn = vn.split('.', 2)[2]", None),
    V('feedback consumer through Construct.trim', 'N', *_U, "task_names.add('.'.join(feedbacks[fvn].split('.')[:2]))", 'task_names.add(dawgie.pl.dag.Construct.trim(feedbacks[fvn], 2))', None),
    V('self edge skipped inside the loop', 'N', *_U, "for node in filter(lambda n: n.tag != original.tag, original):\n", "for node in list(original):\n            if node.tag == original.tag:\n                continue\n", None),
    V('rename vns', 'N', *_U, 'vns', 'fresh', None, 'all'),
    V('selection extracted into a helper', 'N', _S, None, 'def update(values', "def _sel(node, names, out):\n    for vref in dawgie.util.as_vref(_priors(node.get('alg'))):\n        if dawgie.util.vref_as_name(vref) in names:\n            out.add(node.tag)\n            return\n\n\ndef update(values", None),
    V('organize: in-place union through an alias', 'N', *_O, "                else:\n                    n.get('todo').update(targets)", "else:\n                    todo = n.get('todo')\n                    todo |= set(targets)", None),
    V('organize: queue built through a local list', 'N', *_O, "dawgie.pl.schedule.que = sorted(\n        filter(lambda j: j.get('todo') or j.get('doing'), jobs.values()),\n        key=lambda i: i.get('level'),\n    )", "active = [j for j in jobs.values() if j.get('todo') or j.get('doing')]\n    dawgie.pl.schedule.que = sorted(active, key=lambda i: i.get('level'))", None),
    V('organize: aspect test inlined', 'N', *_O, 'if _is_asp(n):', "if n.get('factory').__name__ == dawgie.Factories.analysis.name:", None),
    V('organize: targets defaulted with or', 'N', *_O, 'targets = targets if targets else set()', 'targets = targets or set()', None),
    V('build: new DAG held in a local before it is published', 'N', _S, 'build', 'dawgie.pl.schedule.ae = dawgie.pl.dag.Construct(factories)\n    promote.ae = dawgie.pl.schedule.ae', 'engine = dawgie.pl.dag.Construct(factories)\n    dawgie.pl.schedule.ae = engine\n    promote.ae = engine', None),
    V('organize: todo extension extracted into a module helper', 'N', _S, None, _ORG_TAIL, "_add_targets(n, targets)\n" + _ORG_REST + "def _add_targets(n, targets):\n    # extend the todo of a node\n    if _is_asp(n):\n        n.get('todo').add('__all__')\n    elif '__all__' in targets:\n        n.get('todo').update(dawgie.db.targets())\n    else:\n        n.get('todo').update(targets)\n    return\n\n\n", None),
    V('organize: extracted todo helper returns early for aspect nodes', 'B', _S, None, _ORG_TAIL, "_add_targets(n, targets)\n" + _ORG_REST + "def _add_targets(n, targets):\n    if _is_asp(n):\n        return\n    if '__all__' in targets:\n        n.get('todo').update(dawgie.db.targets())\n    else:\n        n.get('todo').update(targets)\n    return\n\n\n", 'R-C02-2'),
    V('_priors with early returns', 'N', _S, '_priors', '    if isinstance(node, dawgie.Algorithm):\n        result = node.previous()', 'if isinstance(node, dawgie.Algorithm):\n        return node.previous()', None),
    V('as_vref with an explicit inner loop', 'N', _RF, 'as_vref', '            yield from svref2vref(reference)', 'for v in svref2vref(reference):\n                yield v', None),
    V('report extracted into a same-class helper', 'N', _SM, 'Interface', '''self._bot().new_values(\n                        (\n                            '.'.join(\n                                [str(runid), tn, task, alg.name(), sv.name(), k]\n                            ),\n                            isnew,\n                        )\n                    )\n                    pass\n                pass\n        finally:\n            self._log.debug("update: Releaseing for %s", name)\n            comms.release(lok)\n            pass\n        return\n\n    def _update_msv(self, msv):''', '''self.__report(alg, sv, k, isnew)\n                    pass\n                pass\n        finally:\n            self._log.debug("update: Releaseing for %s", name)\n            comms.release(lok)\n            pass\n        return\n\n    def __report(self, alg, sv, vn, isnew):\n        name = '.'.join([str(self._runid()), self._tn(), self._task(), alg.name(), sv.name(), vn])\n        self._bot().new_values((name, isnew))\n        return\n\n    def _update_msv(self, msv):''', None),
    V('shelve writer as f-string', 'N', _SM, 'Interface._update', "'.'.join(\n                                [str(runid), tn, task, alg.name(), sv.name(), k]\n                            )", "f'{runid!s}.{tn}.{task}.{alg.name()}.{sv.name()}.{k}'", None),
    # equivalent spellings of conditions (negated test with swapped arms, mirrored / None comparisons, if statements)
    V('organize: targets default, arms swapped', 'N', *_O, 'targets = targets if targets else set()', 'targets = set() if not targets else targets', None),
    V('organize: targets default by None test', 'N', *_O, 'targets = targets if targets else set()', 'targets = set() if targets is None else targets', None),
    V('organize: targets default by mirrored length test', 'N', *_O, 'targets = targets if targets else set()', 'targets = targets if 0 < len(targets) else []', None),
    V('organize: marker test negated, arms swapped', 'N', *_O, "                elif '__all__' in targets:\n                    n.get('todo').update(dawgie.db.targets())\n                else:\n                    n.get('todo').update(targets)\n", "elif '__all__' not in targets:\n                    n.get('todo').update(targets)\n                else:\n                    n.get('todo').update(dawgie.db.targets())\n", None),
    V('organize: else arm first', 'N', *_O, _ORG_IF, "if not _is_asp(n) and not ('__all__' in targets):\n                    n.get('todo').update(targets)\n                elif _is_asp(n):\n                    n.get('todo').add('__all__')\n                else:\n                    n.get('todo').update(dawgie.db.targets())\n", None),
    V('organize: requested targets dropped when given', 'B', *_O, 'targets = targets if targets else set()', 'targets = set() if targets else targets', 'R-C02-2'),
    V('organize: requested targets emptied unless one', 'B', *_O, 'targets = targets if targets else set()', 'targets = targets if len(targets) == 1 else set()', 'R-C02-2'),
    V('post key default, arms swapped', 'N', _PI, 'Interface.__tn_id', 'tn = tn if tn else self._tn()', 'tn = self._tn() if not tn else tn', None),
    V('post key default with or', 'N', _PI, 'Interface.__tn_id', 'tn = tn if tn else self._tn()', 'tn = tn or self._tn()', None),
    V('post key default by if statement', 'N', _PI, 'Interface.__tn_id', 'tn = tn if tn else self._tn()', "if None is tn:\n            log.debug('own target')\n            tn = self._tn()", None),
    V('post key default held in another local', 'N', _PI, 'Interface.__tn_id', "tn = tn if tn else self._tn()\n        # Get target id that matches target name or create it if not there\n        _insert(\n            'INSERT INTO Target (name) VALUES (%s) ON CONFLICT (name) DO NOTHING;',\n            [tn],\n        )\n        cur.execute('SELECT * from Target WHERE name = %s;', [tn])\n        tn_ID = _fetchone(cur, f'Dataset: Could not find target ID for \"{tn}\"')", "name = self._tn() if tn is None else tn\n        _insert(\n            'INSERT INTO Target (name) VALUES (%s) ON CONFLICT (name) DO NOTHING;',\n            [name],\n        )\n        cur.execute('SELECT * from Target WHERE name = %s;', [name])\n        tn_ID = _fetchone(cur, f'Dataset: Could not find target ID for \"{name}\"')", None),
    V('post key default through a same-class helper', 'N', _PI, 'Interface', 'def __tn_id(self, cur, tn=None):\n        tn = tn if tn else self._tn()', 'def _own(self, tn):\n        return tn if tn else self._tn()\n\n    def __tn_id(self, cur, tn=None):\n        tn = self._own(tn)', None),
    V('post key defaults to the bot target', 'B', _PI, 'Interface.__tn_id', 'tn = tn if tn else self._tn()', 'tn = tn if tn else self._bot()._target()', 'R-C02-4'),
    V('post key default inverted', 'B', _PI, 'Interface.__tn_id', 'tn = tn if tn else self._tn()', 'tn = self._tn() if tn else tn', 'R-C02-4'),
    V('post key default dropped', 'B', _PI, 'Interface.__tn_id', 'tn = tn if tn else self._tn()', 'pass', 'R-C02-4'),
    V('post key default only in the insert', 'B', _PI, 'Interface.__tn_id', "tn = tn if tn else self._tn()\n        # Get target id that matches target name or create it if not there\n        _insert(\n            'INSERT INTO Target (name) VALUES (%s) ON CONFLICT (name) DO NOTHING;',\n            [tn],\n        )", "_insert(\n            'INSERT INTO Target (name) VALUES (%s) ON CONFLICT (name) DO NOTHING;',\n            [tn or self._tn()],\n        )", 'R-C02-4'),
    V('success tested on the reply field', 'N', 'pl/farm.py', 'Hand._res', 'if state == dawgie.pl.schedule.State.success:', 'if msg.success:', None),
    V('reply application extracted into a local helper', 'N', 'pl/farm.py', 'Hand._res',
      _COMPLETE + '\n            if state == dawgie.pl.schedule.State.success:\n                dawgie.pl.farm.ARCHIVE |= any(msg.values)\n                dawgie.pl.schedule.update(msg.values, job, msg.runid)\n            else:\n                dawgie.pl.schedule.purge(job, inc)',
      'def _apply():\n                ' + _COMPLETE + '                if state == dawgie.pl.schedule.State.success:\n                    dawgie.pl.farm.ARCHIVE |= any(msg.values)\n                    dawgie.pl.schedule.update(msg.values, job, msg.runid)\n                else:\n                    dawgie.pl.schedule.purge(job, inc)\n\n            _apply()', None),
]
